"""Local engine features of the C08 / C09 rules (text writers and the readers that must understand them).

Nothing here looks at helper names, line numbers or source text: everything works on AST copies of the flattened function
(`L.fn`) and on provenance paths.

  fn(repo, spec)            `L.fn` plus local normalisations, all exact for side-effect free code:
                              * a literal constant of ANOTHER module that arrived with an inlined helper of that module is folded
                              * a private generator helper consumed by an eager consumer (join / list / sorted / extend / ...) becomes a
                                loop that fills a fresh list (the engine then analyses the generator body in place)
                              * a local bound once to a display of rows (a "local static table") is written in place of the name where it
                                is iterated, so the engine's table unrolling applies to it as to module- / class-level tables
                              * record locals (NamedTuple / dataclass without own constructor) that never escape are replaced by one
                                local per field (scalar replacement): `rec.lines.append(x)` is then an ordinary content flow
                            after which the engine's own normalisation is run again on the result
  Evaluator                 `strshape.Evaluator` that also interprets `T.format(..)` for a template that is an alternative of literals,
                            `*args` / `**mapping` / `**rec._asdict()` arguments, `!s`, field names with `.attr` / `[i]`, and `%` formatting
  reader_heads(repo, specs) the string constants a reader compares a token with, however the comparison gets its constant: written in
                            place, a module constant, a row of a (local / module- / class-level) table the reader loops over, the keys
                            of a dict of handlers it indexes / `.get`s / tests membership in, `match` cases
  slice_fields(...)         `fields.slice_fields` that follows the methods / properties of the sliced object through their FLATTENED bodies
"""
from __future__ import annotations

import ast
import copy
import itertools
import re
import string as _string
from typing import Dict, List, Optional, Set, Tuple

from .. import cfg as C
from .. import lib as L
from .. import strshape as S
from ..core import AnalysisError, FuncInfo, Repo, names_in

_counter = itertools.count(1)
# The engines cache by id(node) (cfg, reaching definitions, parents, provenance, types).  Every tree built here is kept alive for the
# life of the process, so the identity of a discarded intermediate tree can never be handed to a new one (stale cache hits otherwise).
_KEEP: List[object] = []
SCOPES = (ast.FunctionDef, ast.AsyncFunctionDef, ast.Lambda, ast.ClassDef)
COMPS = (ast.ListComp, ast.SetComp, ast.GeneratorExp, ast.DictComp)


# =============================================================================================== small helpers
def _walk_scope(node: ast.AST):
    todo = [node]
    while todo:
        n = todo.pop()
        yield n
        for ch in ast.iter_child_nodes(n):
            if not isinstance(ch, SCOPES):
                todo.append(ch)


def _stores(fn: ast.AST) -> Dict[str, int]:
    """how often each name is bound in the function (any binding form)"""
    out: Dict[str, int] = {}
    for n in ast.walk(fn):
        if isinstance(n, ast.Name) and not isinstance(n.ctx, ast.Load):
            out[n.id] = out.get(n.id, 0) + 1
        elif isinstance(n, ast.arg):
            out[n.arg] = out.get(n.arg, 0) + 1
        elif isinstance(n, (ast.FunctionDef, ast.ClassDef)) and n is not fn:
            out[n.name] = out.get(n.name, 0) + 1
        elif isinstance(n, ast.ExceptHandler) and n.name:
            out[n.name] = out.get(n.name, 0) + 1
        elif isinstance(n, (ast.Global, ast.Nonlocal)):
            for x in n.names:
                out[x] = out.get(x, 0) + 2
    return out


def _single_bindings(fn: ast.AST) -> Dict[str, ast.AST]:
    """{name: value} for names bound exactly once in the function by a plain `name = value` / `name: T = value`"""
    st = _stores(fn)
    out: Dict[str, ast.AST] = {}
    for n in ast.walk(fn):
        tgt = val = None
        if isinstance(n, ast.Assign) and len(n.targets) == 1 and isinstance(n.targets[0], ast.Name):
            tgt, val = n.targets[0].id, n.value
        elif isinstance(n, ast.AnnAssign) and isinstance(n.target, ast.Name) and n.value is not None:
            tgt, val = n.target.id, n.value
        if tgt and st.get(tgt) == 1:
            out[tgt] = val
    return out


def _parents(fn: ast.AST) -> Dict[ast.AST, ast.AST]:
    out = {}
    for n in ast.walk(fn):
        for ch in ast.iter_child_nodes(n):
            out[ch] = n
    return out


def _map_stmt_lists(node: ast.AST, fn_) -> None:
    """apply fn_(list of statements) -> list of statements to every statement list below node (innermost first)"""
    for fld in ("body", "orelse", "finalbody"):
        sub = getattr(node, fld, None)
        if isinstance(sub, list) and sub and isinstance(sub[0], ast.stmt):
            for s in sub:
                if not isinstance(s, SCOPES):
                    _map_stmt_lists(s, fn_)
            setattr(node, fld, fn_(sub))
    if isinstance(node, ast.Try):
        for h in node.handlers:
            for s in h.body:
                _map_stmt_lists(s, fn_)
            h.body = fn_(h.body)
    if hasattr(ast, "Match") and isinstance(node, ast.Match):
        for c in node.cases:
            for s in c.body:
                _map_stmt_lists(s, fn_)
            c.body = fn_(c.body)


SIMPLE_STMTS = (ast.Assign, ast.AnnAssign, ast.AugAssign, ast.Return, ast.Expr)


# =============================================================================================== P0: lambda parameters
def repair_lambda_parameters(fn: ast.FunctionDef) -> bool:
    """the inliner renames the locals of a helper (`x` -> `x__i3`) also inside the body of a lambda whose own parameter is called `x`,
    but keeps the parameter: inside that lambda `x__i3` can only have been the parameter, so it is the parameter again"""
    changed = [False]
    pat = re.compile(r"^(.*)__[igcu]\d+$")
    for lam in [n for n in ast.walk(fn) if isinstance(n, ast.Lambda)]:
        params = {a.arg for a in lam.args.posonlyargs + lam.args.args + lam.args.kwonlyargs}
        if lam.args.vararg:
            params.add(lam.args.vararg.arg)
        if lam.args.kwarg:
            params.add(lam.args.kwarg.arg)
        for n in ast.walk(lam.body):
            if isinstance(n, ast.Name) and isinstance(n.ctx, ast.Load):
                m = pat.match(n.id)
                if m and m.group(1) in params and n.id not in params:
                    n.id = m.group(1)
                    changed[0] = True
    return changed[0]


# =============================================================================================== P1: constants of other modules
def fold_foreign_constants(repo: Repo, flat: FuncInfo, fn: ast.FunctionDef) -> bool:
    """a free name that means nothing in the module of the flattened function but is a literal constant of the module of a helper
    that was analysed in place (the helper's code was copied, its module's names were not) is replaced by the literal"""
    from ..inline import FoldedConstant
    bound = _stores(fn)
    mods: List[str] = []
    for ent in getattr(flat, "inlined_bodies", []) or []:
        qn = ent[0] if isinstance(ent, tuple) and ent else None
        fi = repo.funcs.get(qn) if isinstance(qn, str) else None
        if fi is not None and fi.mod.name not in mods and fi.mod.name != flat.mod.name:
            mods.append(fi.mod.name)
    changed = [False]

    def value_of(name: str):
        hits = []
        cands = mods if mods else [m for m in repo.mods if m != flat.mod.name]
        for m in cands:
            r = repo.lookup(m, name)
            if r and r[0] == "const" and isinstance(r[1], ast.Constant):
                v = r[1].value
                if v is None or isinstance(v, (str, int, float, bool)):
                    hits.append(v)
            elif r:
                return None         # the name is something else somewhere: do not guess
        if hits and all(type(h) is type(hits[0]) and h == hits[0] for h in hits):
            return (hits[0],)
        return None

    class T(ast.NodeTransformer):
        def visit_Name(self, n):
            if not isinstance(n.ctx, ast.Load) or n.id in bound:
                return n
            if repo.lookup(flat.mod.name, n.id) is not None:
                return n
            import builtins
            if hasattr(builtins, n.id):
                return n
            got = value_of(n.id)
            if got is None:
                return n
            c = FoldedConstant(value=got[0])
            c.const_name = n.id
            changed[0] = True
            return ast.copy_location(c, n)

    T().visit(fn)
    return changed[0]


# =============================================================================================== P2: generators at eager consumers
def materialise_generators(repo: Repo, raw: FuncInfo, fn: ast.FunctionDef) -> bool:
    """`CONSUMER(self._gen(a))` (the call of a private generator helper anywhere but as the iterable of a loop / comprehension, where the
    engine already analyses it in place)  ->  `g = []` ; `for y in self._gen(a): g.append(y)` ; `CONSUMER(g)`.
    A generator can only be consumed by iterating it, so for a side-effect free generator the list of what it yields stands for it."""
    from ..inline import _resolve_generator
    changed = [False]

    def gen_calls(st: ast.stmt) -> List[ast.Call]:
        out = []
        todo = [st]
        while todo:
            n = todo.pop()
            for ch in ast.iter_child_nodes(n):
                if isinstance(ch, SCOPES) or isinstance(ch, ast.stmt):
                    continue
                if isinstance(ch, COMPS):
                    # only the first iterable of a comprehension is evaluated in the enclosing scope: a generator call left there by the
                    # engine is consumed like any other; the rest of the comprehension has its own variables and is not entered
                    first = ch.generators[0].iter
                    if isinstance(first, ast.Call):
                        try:
                            res = _resolve_generator(repo, raw, first)
                        except Exception:
                            res = None
                        if res is not None:
                            out.append(first)
                    continue
                todo.append(ch)
                if isinstance(ch, ast.Call):
                    try:
                        res = _resolve_generator(repo, raw, ch)
                    except Exception:
                        res = None
                    if res is not None:
                        out.append(ch)
        return out

    def rewrite(stmts: List[ast.stmt]) -> List[ast.stmt]:
        out: List[ast.stmt] = []
        for st in stmts:
            if isinstance(st, SIMPLE_STMTS):
                calls = gen_calls(st)
                # innermost first is not needed: a generator call inside the arguments of another is left to the next round
                calls = [c for c in calls if not any(c is not d and any(x is c for x in ast.walk(d)) for d in calls)]
                if isinstance(st, ast.Expr) and isinstance(st.value, (ast.Yield, ast.YieldFrom)):
                    calls = []
                for c in calls:
                    k = next(_counter)
                    lst, item = f"__gen__u{k}", f"__y__u{k}"
                    init = ast.Assign(targets=[ast.Name(id=lst, ctx=ast.Store())], value=ast.List(elts=[], ctx=ast.Load()))
                    app = ast.Expr(value=ast.Call(func=ast.Attribute(value=ast.Name(id=lst, ctx=ast.Load()), attr="append", ctx=ast.Load()),
                                                  args=[ast.Name(id=item, ctx=ast.Load())], keywords=[]))
                    loop = ast.For(target=ast.Name(id=item, ctx=ast.Store()), iter=copy.deepcopy(c), body=[app], orelse=[])
                    for x in (init, loop):
                        ast.copy_location(x, st)
                        for y in ast.walk(x):
                            if isinstance(y, (ast.expr, ast.stmt)) and not hasattr(y, "lineno"):
                                ast.copy_location(y, st)
                    out.extend([init, loop])
                    repl = ast.copy_location(ast.Name(id=lst, ctx=ast.Load()), c)

                    class R(ast.NodeTransformer):
                        def visit(self, n):
                            if n is c:
                                return repl
                            return super().visit(n)
                    st = R().visit(st)
                    changed[0] = True
            out.append(st)
        return out

    _map_stmt_lists(fn, rewrite)
    return changed[0]


# =============================================================================================== P3: local static tables
def _stable(e: ast.AST, bound: Dict[str, int], self_name: Optional[str]) -> bool:
    """an expression that denotes the same value wherever it is written in the function"""
    if isinstance(e, (ast.Constant, ast.Lambda)):
        return True
    if isinstance(e, ast.Name):
        # never bound here (a global), or bound exactly once: a use that the binding of the table dominates sees that one value
        return e.id not in bound or bound.get(e.id) == 1
    if isinstance(e, ast.Attribute):
        return _stable(e.value, bound, self_name)
    if isinstance(e, (ast.Tuple, ast.List)):
        return all(_stable(x, bound, self_name) for x in e.elts)
    if isinstance(e, ast.Call):
        return _stable(e.func, bound, self_name) and all(_stable(a, bound, self_name) for a in e.args) and \
            all(_stable(k.value, bound, self_name) for k in e.keywords)
    if isinstance(e, ast.JoinedStr):
        return all(isinstance(v, ast.Constant) for v in e.values)
    return False


MUTATORS = ("append", "extend", "insert", "pop", "remove", "clear", "sort", "reverse", "update", "setdefault", "popitem", "add", "discard")


def inline_local_tables(raw: FuncInfo, fn: ast.FunctionDef) -> bool:
    """`rows = ((k1, h1), (k2, h2))` bound once (directly or through plain copies), never mutated, rows made of stable expressions:
    the display is written where the name is iterated (`for k, h in rows`, `dict(rows)`, `rows.items()`), which is where the engine
    looks for static tables"""
    bound = _stores(fn)
    single = _single_bindings(fn)
    pm = _parents(fn)
    self_name = raw.self_name

    def display_of(name: str, depth: int = 0) -> Optional[ast.AST]:
        v = single.get(name)
        if v is None or depth > 4:
            return None
        if isinstance(v, ast.Name):
            return display_of(v.id, depth + 1)
        if isinstance(v, (ast.Tuple, ast.List)) and v.elts and not any(isinstance(x, ast.Starred) for x in v.elts) and len(v.elts) <= 12:
            if all(isinstance(x, (ast.Tuple, ast.List, ast.Constant)) for x in v.elts) and _stable(v, bound, self_name):
                return v
        if isinstance(v, ast.Dict) and v.keys and all(k is not None and isinstance(k, ast.Constant) for k in v.keys) and len(v.keys) <= 12 \
                and all(_stable(x, bound, self_name) for x in v.values):
            return v
        return None

    def mutated(name: str) -> bool:
        for n in ast.walk(fn):
            if isinstance(n, ast.Attribute) and isinstance(n.value, ast.Name) and n.value.id == name:
                par = pm.get(n)
                if n.attr in MUTATORS and isinstance(par, ast.Call) and par.func is n:
                    return True
                if not isinstance(n.ctx, ast.Load):
                    return True
            if isinstance(n, ast.Subscript) and isinstance(n.value, ast.Name) and n.value.id == name and not isinstance(n.ctx, ast.Load):
                return True
            if isinstance(n, ast.AugAssign) and isinstance(n.target, ast.Name) and n.target.id == name:
                return True
        return False

    changed = [False]
    cache: Dict[str, Optional[ast.AST]] = {}

    def table(name: str) -> Optional[ast.AST]:
        if name not in cache:
            d = display_of(name)
            # every name of the alias chain must be free of mutation
            chain, cur = [], name
            while cur in single and isinstance(single[cur], ast.Name):
                chain.append(cur)
                cur = single[cur].id
            chain.append(cur)
            if d is not None and any(mutated(x) for x in chain):
                d = None
            cache[name] = d
        return cache[name]

    def subst(e: ast.AST) -> ast.AST:
        """the iterable position: NAME | NAME.items() | enumerate(NAME) ..."""
        if isinstance(e, ast.Name) and isinstance(e.ctx, ast.Load):
            d = table(e.id)
            if d is not None:
                changed[0] = True
                return ast.copy_location(copy.deepcopy(d), e)
            return e
        if isinstance(e, ast.Call) and isinstance(e.func, ast.Attribute) and e.func.attr in ("items", "keys", "values") and not e.args:
            e.func.value = subst(e.func.value)
            return e
        if isinstance(e, ast.Call) and isinstance(e.func, ast.Name) and e.func.id in ("enumerate", "reversed", "tuple", "list", "iter", "zip", "dict") \
                and e.func.id not in bound:
            e.args = [subst(a) for a in e.args]
            return e
        return e

    for n in ast.walk(fn):
        if isinstance(n, ast.For):
            n.iter = subst(n.iter)
        elif isinstance(n, ast.comprehension):
            n.iter = subst(n.iter)
        elif isinstance(n, ast.Subscript) and isinstance(n.ctx, ast.Load) and isinstance(n.value, ast.Name) and not isinstance(n.slice, ast.Slice):
            d = table(n.value.id)
            if isinstance(d, ast.Dict):
                n.value = subst(n.value)
        elif isinstance(n, ast.Call) and isinstance(n.func, ast.Attribute) and n.func.attr == "get" and isinstance(n.func.value, ast.Name):
            d = table(n.func.value.id)
            if isinstance(d, ast.Dict):
                n.func.value = subst(n.func.value)
        elif isinstance(n, ast.Compare) and len(n.ops) == 1 and isinstance(n.ops[0], (ast.In, ast.NotIn)) and isinstance(n.comparators[0], ast.Name):
            d = table(n.comparators[0].id)
            if d is not None:
                n.comparators[0] = subst(n.comparators[0])
    return changed[0]


# =============================================================================================== P3b: loops over a display of rows
def unroll_row_loops(raw: FuncInfo, fn: ast.FunctionDef) -> bool:
    """`for a, b in ((x1, y1), (x2, y2)): BODY` over a display written in place whose rows are stable expressions (the engine unrolls it
    when the rows are made of globals / constants only; here also locals that are bound exactly once, e.g. `lines.append`): one copy of
    the body per row with the loop variables replaced, `continue` ends the copy, `break` ends the sequence, `else` runs when no copy
    broke out -- the engine's own block / jump representation"""
    from ..inline import _own_jumps_to_blocks
    from ..cfg import InlineBlock
    bound = _stores(fn)
    changed = [False]

    def bind(target, elem) -> Optional[Dict[str, ast.AST]]:
        if isinstance(target, ast.Name):
            return {target.id: elem}
        if isinstance(target, (ast.Tuple, ast.List)) and isinstance(elem, (ast.Tuple, ast.List)) and len(target.elts) == len(elem.elts) \
                and not any(isinstance(x, ast.Starred) for x in list(target.elts) + list(elem.elts)):
            out: Dict[str, ast.AST] = {}
            for t, v in zip(target.elts, elem.elts):
                sub = bind(t, v)
                if sub is None:
                    return None
                out.update(sub)
            return out
        return None

    class Sub(ast.NodeTransformer):
        def __init__(self, m):
            self.m = m

        def visit_Name(self, n):
            if isinstance(n.ctx, ast.Load) and n.id in self.m:
                return ast.copy_location(copy.deepcopy(self.m[n.id]), n)
            return n

    class T(ast.NodeTransformer):
        def visit_FunctionDef(self, n):
            if n is fn:
                self.generic_visit(n)
            return n

        visit_Lambda = visit_AsyncFunctionDef = lambda self, n: n

        def visit_For(self, n):
            self.generic_visit(n)
            it = n.iter
            if not isinstance(it, (ast.Tuple, ast.List)) or not (1 <= len(it.elts) <= 12) or any(isinstance(x, ast.Starred) for x in it.elts):
                return n
            if not all(_stable(x, bound, raw.self_name) for x in it.elts):
                return n
            binds = [bind(n.target, x) for x in it.elts]
            if any(b is None for b in binds):
                return n
            names = set(binds[0])
            for root in n.body + n.orelse:
                for x in ast.walk(root):
                    if isinstance(x, ast.Name) and x.id in names and not isinstance(x.ctx, ast.Load):
                        return n
                    if isinstance(x, (ast.FunctionDef, ast.AsyncFunctionDef, ast.Global, ast.Nonlocal)):
                        return n
            # the loop variables must not be read after the loop (they would keep their last values: those are re-bound below)
            k = next(_counter)
            outer = f"u{k}:loop"
            copies: List[ast.stmt] = []
            for idx, mapping in enumerate(binds):
                inner = f"u{k}:{idx}"
                body: List[ast.stmt] = []
                for name, val in mapping.items():
                    body.append(ast.copy_location(ast.Assign(targets=[ast.Name(id=name, ctx=ast.Store())], value=copy.deepcopy(val)), n))
                for s_ in n.body:
                    body.append(Sub(mapping).visit(copy.deepcopy(s_)))
                body = _own_jumps_to_blocks(body, inner, outer)
                blk = InlineBlock(test=ast.Constant(value=True), body=body or [ast.Pass()], orelse=[])
                blk.label = inner
                copies.append(ast.copy_location(blk, n))
            whole = InlineBlock(test=ast.Constant(value=True), body=copies + list(n.orelse), orelse=[])
            whole.label = outer
            changed[0] = True
            return ast.copy_location(whole, n)

    class Cmp(ast.NodeTransformer):
        """`[E for a, b in ((x1, y1), (x2, y2))]` (one generator, no condition) -> `[E1, E2]`"""
        def _go(self, n):
            self.generic_visit(n)
            if len(n.generators) != 1 or n.generators[0].ifs or n.generators[0].is_async:
                return n
            g = n.generators[0]
            it = g.iter
            if not isinstance(it, (ast.Tuple, ast.List)) or not (1 <= len(it.elts) <= 12) or any(isinstance(x, ast.Starred) for x in it.elts):
                return n
            if not all(_stable(x, bound, raw.self_name) for x in it.elts):
                return n
            binds = [bind(g.target, x) for x in it.elts]
            if any(b is None for b in binds):
                return n
            changed[0] = True
            return ast.copy_location(ast.List(elts=[Sub(m).visit(copy.deepcopy(n.elt)) for m in binds], ctx=ast.Load()), n)

        visit_GeneratorExp = visit_ListComp = _go

    T().visit(fn)
    Cmp().visit(fn)
    if changed[0]:
        ast.fix_missing_locations(fn)
    return changed[0]


# =============================================================================================== P9: elements that are pairs
def split_pair_targets(fn: ast.FunctionDef) -> bool:
    """`for x in d.items()` / `enumerate(xs)` / `zip(a, b)` where x is only ever read as `x[0]` / `x[1]`  ->  `for x__0, x__1 in ..`"""
    changed = [False]
    pm = _parents(fn)
    st = _stores(fn)

    def pairs_iter(it: ast.AST) -> int:
        if isinstance(it, ast.Call) and isinstance(it.func, ast.Attribute) and it.func.attr == "items" and not it.args:
            return 2
        if isinstance(it, ast.Call) and isinstance(it.func, ast.Name) and it.func.id == "enumerate" and it.func.id not in st:
            return 2
        if isinstance(it, ast.Call) and isinstance(it.func, ast.Name) and it.func.id == "zip" and it.func.id not in st and it.args \
                and not any(isinstance(a, ast.Starred) for a in it.args):
            return len(it.args)
        return 0

    def scope_nodes(owner: ast.AST) -> List[ast.AST]:
        if isinstance(owner, ast.For):
            return [x for s_ in owner.body + owner.orelse for x in ast.walk(s_)]
        return list(ast.walk(owner))

    todo = []
    for n in ast.walk(fn):
        if isinstance(n, ast.For) and isinstance(n.target, ast.Name):
            todo.append((n, n, n.target, n.iter))
        elif isinstance(n, COMPS):
            for g in n.generators:
                if isinstance(g.target, ast.Name):
                    todo.append((n, g, g.target, g.iter))
    for owner, holder, target, it in todo:
        k = pairs_iter(it)
        if not k or st.get(target.id, 0) != 1:
            continue
        uses = [x for x in (scope_nodes(owner) if isinstance(owner, ast.For) else ast.walk(owner))
                if isinstance(x, ast.Name) and x.id == target.id and isinstance(x.ctx, ast.Load)]
        # reads after a loop keep the last element: not split then
        all_uses = [x for x in ast.walk(fn) if isinstance(x, ast.Name) and x.id == target.id and isinstance(x.ctx, ast.Load)]
        if len(all_uses) != len(uses) or not uses:
            continue
        ok = True
        for u in uses:
            par = pm.get(u)
            i = S._const_index(par.slice) if isinstance(par, ast.Subscript) and par.value is u and isinstance(par.ctx, ast.Load) else None
            if i is None or not (0 <= i < k):
                ok = False
                break
        if not ok:
            continue
        names = [f"{target.id}__{i}" for i in range(k)]
        if any(nm in st for nm in names):
            continue
        holder.target = ast.copy_location(ast.Tuple(elts=[ast.Name(id=nm, ctx=ast.Store()) for nm in names], ctx=ast.Store()), target)
        repl = {id(pm[u]): ast.copy_location(ast.Name(id=names[S._const_index(pm[u].slice)], ctx=ast.Load()), pm[u]) for u in uses}

        class R(ast.NodeTransformer):
            def visit(self, n):
                if id(n) in repl:
                    return repl[id(n)]
                return super().visit(n)
        R().visit(fn)
        ast.fix_missing_locations(fn)
        pm = _parents(fn)
        st = _stores(fn)
        changed[0] = True
    return changed[0]


# =============================================================================================== P4: scalar replacement of records
def scalarise_records(repo: Repo, fn: ast.FunctionDef) -> bool:
    """`rec = Rec(a=E1, b=E2)` for a record class (NamedTuple / dataclass whose constructor only stores its arguments), `rec` and its
    plain copies bound once and used only as `x.a`, `x.a = v`, `x[i]`, `a, b = x`, `x._asdict()`, `x._replace(..)`-free:
    ->  `rec__a = E1 ; rec__b = E2` and every `x.a` is the local `rec__a`.  The record object itself no longer exists, so what is
    appended to `rec.a` is an ordinary content flow of a local list."""
    st = _stores(fn)
    pm = _parents(fn)
    roots: Dict[str, Tuple[ast.stmt, ast.Call, object]] = {}
    for n in ast.walk(fn):
        tgt = val = None
        if isinstance(n, ast.Assign) and len(n.targets) == 1 and isinstance(n.targets[0], ast.Name):
            tgt, val = n.targets[0].id, n.value
        elif isinstance(n, ast.AnnAssign) and isinstance(n.target, ast.Name) and n.value is not None:
            tgt, val = n.target.id, n.value
        if tgt and st.get(tgt) == 1 and isinstance(val, ast.Call) and isinstance(val.func, ast.Name) and val.func.id not in st:
            ci = repo.classes.get(val.func.id)
            if ci is not None and getattr(ci, "record_kind", None) and ci.record_fields:
                roots[tgt] = (n, val, ci)
    if not roots:
        return False
    changed = False
    for root, (stmt, call, ci) in roots.items():
        names = [f for f, _d in ci.record_fields]
        # bind the constructor arguments
        if any(isinstance(a, ast.Starred) for a in call.args) or any(k.arg is None for k in call.keywords) or len(call.args) > len(names):
            continue
        bound: Dict[str, ast.AST] = {}
        order: List[str] = []
        for f_, a in zip(names, call.args):
            bound[f_] = a
            order.append(f_)
        bad = False
        for k in call.keywords:
            if k.arg not in names or k.arg in bound:
                bad = True
                break
            bound[k.arg] = k.value
            order.append(k.arg)
        for f_, d in ci.record_fields:
            if f_ not in bound:
                if d is None:
                    bad = True
                    break
                bound[f_] = copy.deepcopy(d)
                order.append(f_)
        if bad:
            continue
        # the alias group: names bound once to a member of the group
        group = {root}
        alias_stmts: List[ast.stmt] = []
        grew = True
        while grew:
            grew = False
            for n in ast.walk(fn):
                tgt = val = None
                if isinstance(n, ast.Assign) and len(n.targets) == 1 and isinstance(n.targets[0], ast.Name):
                    tgt, val = n.targets[0].id, n.value
                elif isinstance(n, ast.AnnAssign) and isinstance(n.target, ast.Name) and n.value is not None:
                    tgt, val = n.target.id, n.value
                if tgt and tgt not in group and st.get(tgt) == 1 and isinstance(val, ast.Name) and val.id in group:
                    group.add(tgt)
                    alias_stmts.append(n)
                    grew = True
        # every use must be one of the accepted forms
        uses: List[Tuple[str, ast.AST, ast.AST]] = []
        ok = True
        for n in ast.walk(fn):
            if not (isinstance(n, ast.Name) and n.id in group):
                continue
            par = pm.get(n)
            if not isinstance(n.ctx, ast.Load):
                continue        # the single bindings
            if any(par is a_ for a_ in alias_stmts) and getattr(par, "value", None) is n:
                continue
            if isinstance(par, ast.Attribute) and par.value is n and par.attr in names:
                gp = pm.get(par)
                if isinstance(par.ctx, ast.Del) or (not isinstance(par.ctx, ast.Load) and ci.record_kind != "dataclass"):
                    ok = False
                    break
                if isinstance(gp, ast.AugAssign) and gp.target is par and ci.record_kind != "dataclass":
                    ok = False
                    break
                uses.append(("attr", par, n))
                continue
            if isinstance(par, ast.Attribute) and par.value is n and par.attr == "_asdict" and ci.record_kind == "namedtuple":
                gp = pm.get(par)
                if isinstance(gp, ast.Call) and gp.func is par and not gp.args and not gp.keywords:
                    uses.append(("asdict", gp, n))
                    continue
            if isinstance(par, ast.Call) and len(par.args) == 1 and par.args[0] is n and not par.keywords and (
                    (isinstance(par.func, ast.Name) and par.func.id in ("asdict", "vars") and par.func.id not in st) or
                    (isinstance(par.func, ast.Attribute) and par.func.attr == "asdict" and isinstance(par.func.value, ast.Name) and par.func.value.id == "dataclasses")):
                uses.append(("asdict", par, n))
                continue
            if isinstance(par, ast.Subscript) and par.value is n and isinstance(par.ctx, ast.Load) and ci.record_kind == "namedtuple":
                i = S._const_index(par.slice)
                if i is not None and -len(names) <= i < len(names):
                    uses.append(("item", par, n))
                    continue
            if isinstance(par, ast.Assign) and par.value is n and len(par.targets) == 1 and isinstance(par.targets[0], (ast.Tuple, ast.List)) \
                    and ci.record_kind == "namedtuple" and len(par.targets[0].elts) == len(names) \
                    and not any(isinstance(x, ast.Starred) for x in par.targets[0].elts):
                uses.append(("unpack", par, n))
                continue
            if isinstance(par, ast.Starred) and ci.record_kind == "namedtuple" and isinstance(pm.get(par), (ast.Tuple, ast.List, ast.Call)):
                uses.append(("star", par, n))
                continue
            ok = False
            break
        if not ok:
            continue
        local = {f_: f"{root}__{f_}" for f_ in names}
        if any(v in st for v in local.values()):
            continue

        def fld(f_: str, ctx, at: ast.AST) -> ast.Name:
            return ast.copy_location(ast.Name(id=local[f_], ctx=ctx), at)

        repl: Dict[int, ast.AST] = {}
        for kind, node, nm in uses:
            if kind == "attr":
                repl[id(node)] = fld(node.attr, type(node.ctx)(), node)
            elif kind == "asdict":
                repl[id(node)] = ast.copy_location(ast.Call(func=ast.Name(id="dict", ctx=ast.Load()), args=[],
                                                            keywords=[ast.keyword(arg=f_, value=fld(f_, ast.Load(), node)) for f_ in names]), node)
            elif kind == "item":
                repl[id(node)] = fld(names[S._const_index(node.slice)], ast.Load(), node)
            elif kind == "unpack":
                repl[id(nm)] = ast.copy_location(ast.Tuple(elts=[fld(f_, ast.Load(), nm) for f_ in names], ctx=ast.Load()), nm)
            elif kind == "star":
                # *rec inside a display / call: the fields in order
                repl[id(node)] = [ast.copy_location(fld(f_, ast.Load(), nm), node) for f_ in names]
        new_defs = [ast.copy_location(ast.Assign(targets=[fld(f_, ast.Store(), stmt)], value=bound[f_]), stmt) for f_ in order]
        repl[id(stmt)] = new_defs
        for a_ in alias_stmts:
            repl[id(a_)] = ast.copy_location(ast.Pass(), a_)

        class R(ast.NodeTransformer):
            def visit(self, n):
                r_ = repl.get(id(n))
                if r_ is not None:
                    if isinstance(r_, list):
                        return [self.generic_visit(x) if isinstance(x, ast.stmt) else x for x in r_]
                    if isinstance(r_, ast.AST) and not isinstance(r_, ast.stmt):
                        return r_
                    return r_
                return super().visit(n)

        # the definition statement's value expressions may themselves contain uses of other records: visit them afterwards
        R().visit(fn)
        ast.fix_missing_locations(fn)
        changed = True
        # positions changed: recompute for the next record
        st = _stores(fn)
        pm = _parents(fn)
    return changed


# =============================================================================================== P5: comprehension over comprehension
def fuse_comprehensions(fn: ast.FunctionDef) -> bool:
    """`(E for x in (G for y in Y if c))`  ->  `(E[x := G] for y in Y if c)`; with a tuple target and a tuple element the components
    are paired.  A generator bound once to a local that is consumed exactly once (`pairs = (.. for ..)` ; `join(F(p) for p in pairs)`)
    is first written in place of the name.  Exact for side-effect free element expressions."""
    changed = [False]
    single = _single_bindings(fn)
    uses: Dict[str, int] = {}
    for n in ast.walk(fn):
        if isinstance(n, ast.Name) and isinstance(n.ctx, ast.Load):
            uses[n.id] = uses.get(n.id, 0) + 1
    consumed: Set[str] = set()

    def inner_of(it: ast.AST) -> Optional[ast.AST]:
        if isinstance(it, (ast.GeneratorExp, ast.ListComp)):
            return it
        # a name bound once (possibly through plain copies, each used once) to a generator expression that is consumed here only
        chain_, cur = [], it
        while isinstance(cur, ast.Name) and cur.id in single and uses.get(cur.id) == 1 and len(chain_) < 6:
            chain_.append(cur.id)
            cur = single[cur.id]
        if chain_ and isinstance(cur, (ast.GeneratorExp, ast.ListComp)):
            consumed.update(chain_)
            return copy.deepcopy(cur)
        return None

    def bind(target: ast.AST, elem: ast.AST) -> Optional[Dict[str, ast.AST]]:
        if isinstance(target, ast.Name):
            return {target.id: elem}
        if isinstance(target, (ast.Tuple, ast.List)) and isinstance(elem, (ast.Tuple, ast.List)) and len(target.elts) == len(elem.elts) \
                and not any(isinstance(x, ast.Starred) for x in list(target.elts) + list(elem.elts)):
            out: Dict[str, ast.AST] = {}
            for t, v in zip(target.elts, elem.elts):
                sub = bind(t, v)
                if sub is None:
                    return None
                out.update(sub)
            return out
        return None

    class Sub(ast.NodeTransformer):
        def __init__(self, m):
            self.m = m

        def visit_Name(self, n):
            if isinstance(n.ctx, ast.Load) and n.id in self.m:
                return ast.copy_location(copy.deepcopy(self.m[n.id]), n)
            return n

    class T(ast.NodeTransformer):
        def _fuse(self, comp):
            self.generic_visit(comp)
            for _round in range(4):
                gens = comp.generators
                hit = None
                for gi, g in enumerate(gens):
                    inner = inner_of(g.iter)
                    if inner is None or g.is_async:
                        continue
                    m = bind(g.target, inner.elt)
                    if m is None:
                        continue
                    # names of the inner comprehension must not clash with names used by the outer one
                    inner_names = set()
                    for ig in inner.generators:
                        inner_names |= C.target_names(ig.target)
                    outer_names = set()
                    for og in gens:
                        if og is not g:
                            outer_names |= C.target_names(og.target)
                    if inner_names & outer_names:
                        continue
                    hit = (gi, g, inner, m)
                    break
                if hit is None:
                    break
                gi, g, inner, m = hit
                sub = Sub(m)
                new_gens = list(gens[:gi]) + [copy.deepcopy(x) for x in inner.generators]
                new_gens[-1].ifs = list(new_gens[-1].ifs) + [sub.visit(copy.deepcopy(c)) for c in g.ifs]
                for og in gens[gi + 1:]:
                    og2 = copy.deepcopy(og)
                    og2.iter = sub.visit(og2.iter)
                    og2.ifs = [sub.visit(c) for c in og2.ifs]
                    new_gens.append(og2)
                comp.generators = new_gens
                if isinstance(comp, ast.DictComp):
                    comp.key, comp.value = sub.visit(comp.key), sub.visit(comp.value)
                else:
                    comp.elt = sub.visit(comp.elt)
                changed[0] = True
            return comp

        visit_GeneratorExp = visit_ListComp = visit_SetComp = visit_DictComp = _fuse

    T().visit(fn)

    class Ident(ast.NodeTransformer):
        """`[x for x in XS]` / `(x for x in XS)` (no condition) is `list(XS)`, `{x for x in XS}` is `set(XS)`: the same elements in the
        same order (a generator expression consumed once is iterated like the list)"""
        def _go(self, n):
            self.generic_visit(n)
            if len(n.generators) == 1 and not n.generators[0].ifs and not n.generators[0].is_async and isinstance(n.generators[0].target, ast.Name) \
                    and isinstance(n.elt, ast.Name) and n.elt.id == n.generators[0].target.id:
                changed[0] = True
                return ast.copy_location(ast.Call(func=ast.Name(id="set" if isinstance(n, ast.SetComp) else "list", ctx=ast.Load()),
                                                  args=[n.generators[0].iter], keywords=[]), n)
            return n

        visit_GeneratorExp = visit_ListComp = visit_SetComp = _go

    if not any(isinstance(x, ast.Name) and x.id in ("list", "set") and not isinstance(x.ctx, ast.Load) for x in ast.walk(fn)):
        Ident().visit(fn)
    if consumed:
        # the bindings of the generators that were written in place are dead
        def drop(stmts):
            out = []
            for st in stmts:
                tgt = None
                if isinstance(st, ast.Assign) and len(st.targets) == 1 and isinstance(st.targets[0], ast.Name):
                    tgt = st.targets[0].id
                elif isinstance(st, ast.AnnAssign) and isinstance(st.target, ast.Name) and st.value is not None:
                    tgt = st.target.id
                if tgt in consumed and not any(isinstance(x, ast.Name) and x.id == tgt and isinstance(x.ctx, ast.Load) for x in ast.walk(fn)):
                    out.append(ast.copy_location(ast.Pass(), st))
                else:
                    out.append(st)
            return out
        for _ in range(len(consumed)):
            _map_stmt_lists(fn, drop)
    return changed[0]


# =============================================================================================== P6: x = x + E  /  x += E
def _string_like(e: ast.AST, single: Dict[str, ast.AST], depth: int = 0) -> bool:
    """an expression that certainly evaluates to a str"""
    if depth > 5:
        return False
    if isinstance(e, ast.Constant):
        return isinstance(e.value, str)
    if isinstance(e, ast.JoinedStr):
        return True
    if isinstance(e, ast.Call) and isinstance(e.func, ast.Attribute) and e.func.attr in ("join", "format", "format_map", "strip", "rstrip", "lstrip",
                                                                                          "lower", "upper", "replace", "to_pddl"):
        return e.func.attr != "to_pddl" or True
    if isinstance(e, ast.Call) and isinstance(e.func, ast.Name) and e.func.id in ("str", "repr"):
        return True
    if isinstance(e, ast.BinOp) and isinstance(e.op, ast.Add):
        return _string_like(e.left, single, depth + 1) or _string_like(e.right, single, depth + 1)
    if isinstance(e, ast.BinOp) and isinstance(e.op, ast.Mod):
        return _string_like(e.left, single, depth + 1)
    if isinstance(e, ast.IfExp):
        return _string_like(e.body, single, depth + 1) and _string_like(e.orelse, single, depth + 1)
    if isinstance(e, ast.Name) and e.id in single:
        return _string_like(single[e.id], single, depth + 1)
    return False


def self_extensions(fn: ast.FunctionDef) -> bool:
    """Accumulation is written the way both engines read it.
    Loop-carried (the statement's own definition reaches it again): `x = x + E` -> `x += E`, `x = [*x, a]` -> `x += [a]` (the string-shape
    engine reads `+=` in a loop as a repetition).
    Not loop-carried, x a string: `x += E` -> `x = x + E` (strings are immutable, so this is exact; provenance then follows the previous
    value through the concatenation instead of stopping at the augmented assignment)."""
    changed = [False]
    try:
        g = C.build(fn.body)         # not cfg_of: the tree is an intermediate one and is edited below
        a = fn.args
        params = [x.arg for x in a.posonlyargs + a.args + a.kwonlyargs]
        rd = C.ReachingDefs(g, params)
    except Exception:
        return False
    single = _single_bindings(fn)

    def carried(st: ast.stmt, name: str) -> Optional[bool]:
        n = g.node_of(st)
        if n is None:
            return None
        try:
            return n in rd.defs_reaching(n, name)
        except Exception:
            return None

    string_names: Set[str] = set()
    for n in ast.walk(fn):
        if isinstance(n, ast.Assign) and len(n.targets) == 1 and isinstance(n.targets[0], ast.Name) and _string_like(n.value, single):
            string_names.add(n.targets[0].id)
        elif isinstance(n, ast.AnnAssign) and isinstance(n.target, ast.Name) and n.value is not None and _string_like(n.value, single):
            string_names.add(n.target.id)
        elif isinstance(n, ast.AugAssign) and isinstance(n.target, ast.Name) and isinstance(n.op, ast.Add) and _string_like(n.value, single):
            string_names.add(n.target.id)

    class T(ast.NodeTransformer):
        def visit_Assign(self, n):
            if len(n.targets) == 1 and isinstance(n.targets[0], ast.Name):
                x, v = n.targets[0].id, n.value
                if carried(n, x) is not True:
                    return n
                if isinstance(v, ast.BinOp) and isinstance(v.op, ast.Add) and isinstance(v.left, ast.Name) and v.left.id == x \
                        and not any(isinstance(y, ast.Name) and y.id == x for y in ast.walk(v.right)):
                    changed[0] = True
                    return ast.copy_location(ast.AugAssign(target=ast.Name(id=x, ctx=ast.Store()), op=ast.Add(), value=v.right), n)
                if isinstance(v, ast.List) and v.elts and isinstance(v.elts[0], ast.Starred) and isinstance(v.elts[0].value, ast.Name) \
                        and v.elts[0].value.id == x and not any(isinstance(y, ast.Name) and y.id == x for e_ in v.elts[1:] for y in ast.walk(e_)):
                    changed[0] = True
                    rest = ast.copy_location(ast.List(elts=list(v.elts[1:]), ctx=ast.Load()), v)
                    return ast.copy_location(ast.AugAssign(target=ast.Name(id=x, ctx=ast.Store()), op=ast.Add(), value=rest), n)
            return n

        def visit_AugAssign(self, n):
            if isinstance(n.target, ast.Name) and isinstance(n.op, ast.Add) and n.target.id in string_names and carried(n, n.target.id) is False:
                x = n.target.id
                changed[0] = True
                new = ast.Assign(targets=[ast.Name(id=x, ctx=ast.Store())],
                                 value=ast.BinOp(left=ast.Name(id=x, ctx=ast.Load()), op=ast.Add(), right=n.value))
                ast.copy_location(new, n)
                ast.fix_missing_locations(new)
                return new
            return n

    T().visit(fn)
    return changed[0]


# =============================================================================================== P7: templates
def _explicit_mappings(fn: ast.FunctionDef) -> bool:
    """`dict(a=x, b=y)` -> `{"a": x, "b": y}` ;  `F(**{"a": x})` -> `F(a=x)` ;  `F(**m)` for a local dict `m` whose keys are fixed by the
    source (bound once to a display with constant string keys, afterwards only `m["k"] = v` / `m["k"]`) -> `F(a=m["a"], b=m["b"])`.
    The engine then replaces such a dict by one local per key."""
    changed = [False]
    st = _stores(fn)

    class D(ast.NodeTransformer):
        def visit_Call(self, c):
            self.generic_visit(c)
            if isinstance(c.func, ast.Name) and c.func.id == "dict" and "dict" not in st and not c.args and c.keywords and all(k.arg for k in c.keywords):
                changed[0] = True
                return ast.copy_location(ast.Dict(keys=[ast.Constant(value=k.arg) for k in c.keywords], values=[k.value for k in c.keywords]), c)
            return c

    D().visit(fn)
    ast.fix_missing_locations(fn)
    single = _single_bindings(fn)
    pm = _parents(fn)

    def keys_of(name: str) -> Optional[List[str]]:
        d = single.get(name)
        if not isinstance(d, ast.Dict) or any(k is None or not (isinstance(k, ast.Constant) and isinstance(k.value, str)) for k in d.keys):
            return None
        keys = [k.value for k in d.keys]
        for n in ast.walk(fn):
            if isinstance(n, ast.Name) and n.id == name and isinstance(n.ctx, ast.Load):
                par = pm.get(n)
                if isinstance(par, ast.keyword) and par.arg is None and par.value is n:
                    continue
                if isinstance(par, ast.Subscript) and par.value is n and isinstance(par.slice, ast.Constant) and isinstance(par.slice.value, str):
                    if isinstance(par.ctx, ast.Del):
                        return None
                    if isinstance(par.ctx, ast.Store) and par.slice.value not in keys:
                        keys.append(par.slice.value)
                    continue
                return None
        return keys

    class K(ast.NodeTransformer):
        def visit_Call(self, c):
            self.generic_visit(c)
            if not any(k.arg is None for k in c.keywords):
                return c
            new_kw: List[ast.keyword] = []
            for k in c.keywords:
                if k.arg is not None:
                    new_kw.append(k)
                    continue
                v = k.value
                if isinstance(v, ast.Dict) and all(x is not None and isinstance(x, ast.Constant) and isinstance(x.value, str) for x in v.keys):
                    new_kw += [ast.keyword(arg=x.value, value=y) for x, y in zip(v.keys, v.values)]
                    changed[0] = True
                    continue
                if isinstance(v, ast.Name):
                    keys = keys_of(v.id)
                    if keys is not None:
                        new_kw += [ast.keyword(arg=x, value=ast.copy_location(ast.Subscript(value=ast.Name(id=v.id, ctx=ast.Load()), slice=ast.Constant(value=x),
                                                                                          ctx=ast.Load()), v)) for x in keys]
                        changed[0] = True
                        continue
                new_kw.append(k)
            seen_: Set[str] = set()
            for k in new_kw:
                if k.arg is not None:
                    if k.arg in seen_:
                        return c        # a duplicate keyword would be an error at run time: leave the call alone
                    seen_.add(k.arg)
            c.keywords = new_kw
            return c

    K().visit(fn)
    if changed[0]:
        ast.fix_missing_locations(fn)
    return changed[0]


def _template_of(e: ast.AST, single: Dict[str, ast.AST], depth: int = 0):
    """a template expression as a tree: str | ('if', test, a, b) | None"""
    if depth > 4:
        return None
    if isinstance(e, ast.Constant) and isinstance(e.value, str):
        return e.value
    if isinstance(e, ast.IfExp):
        a, b = _template_of(e.body, single, depth + 1), _template_of(e.orelse, single, depth + 1)
        return ("if", e.test, a, b) if a is not None and b is not None else None
    if isinstance(e, ast.Name) and e.id in single:
        return _template_of(single[e.id], single, depth + 1)
    if isinstance(e, ast.BinOp) and isinstance(e.op, ast.Add):
        a, b = _template_of(e.left, single, depth + 1), _template_of(e.right, single, depth + 1)
        if isinstance(a, str) and isinstance(b, str):
            return a + b
    return None


def _fstring_from_format(text: str, call: ast.Call) -> Optional[ast.AST]:
    if any(isinstance(a, ast.Starred) and not isinstance(a.value, (ast.Tuple, ast.List)) for a in call.args) or any(k.arg is None for k in call.keywords):
        return None
    pos: List[ast.AST] = []
    for a in call.args:
        if isinstance(a, ast.Starred):
            if any(isinstance(x, ast.Starred) for x in a.value.elts):
                return None
            pos.extend(a.value.elts)
        else:
            pos.append(a)
    kw = {k.arg: k.value for k in call.keywords}
    try:
        parsed = list(_string.Formatter().parse(text))
    except ValueError:
        return None
    values: List[ast.AST] = []
    auto = 0
    for lit, field, spec, conv in parsed:
        if lit:
            values.append(ast.Constant(value=lit))
        if field is None:
            continue
        if spec and ("{" in spec or "}" in spec):
            return None
        m = re.match(r"^([^.\[]*)(.*)$", field)
        head, rest = m.group(1), m.group(2)
        if head == "":
            arg = pos[auto] if auto < len(pos) else None
            auto += 1
        elif head.isdigit():
            arg = pos[int(head)] if int(head) < len(pos) else None
        else:
            arg = kw.get(head)
        if arg is None:
            return None
        node = copy.deepcopy(arg)
        consumed = 0
        for mm in re.finditer(r"\.([A-Za-z_]\w*)|\[([^\]]*)\]", rest):
            if mm.start() != consumed:
                return None
            consumed = mm.end()
            if mm.group(1):
                node = ast.Attribute(value=node, attr=mm.group(1), ctx=ast.Load())
            else:
                im = mm.group(2)
                node = ast.Subscript(value=node, slice=ast.Constant(value=int(im) if re.fullmatch(r"-?\d+", im) else im), ctx=ast.Load())
        if consumed != len(rest):
            return None
        values.append(ast.FormattedValue(value=node, conversion=ord(conv) if conv and conv != "s" else -1,
                                         format_spec=ast.JoinedStr(values=[ast.Constant(value=spec)]) if spec else None))
    return ast.JoinedStr(values=values)


def _fstring_from_percent(text: str, right: ast.AST, single: Dict[str, ast.AST]) -> Optional[ast.AST]:
    specs = [m for m in _PCT.finditer(text) if m.group("conv") != "%"]
    if any(m.group("width") == "*" or m.group("prec") == "*" for m in specs):
        return None
    if isinstance(right, ast.Name) and isinstance(single.get(right.id), (ast.Tuple, ast.Dict)):
        right = single[right.id]
    keyed = any(m.group("key") is not None for m in specs)
    seq: Optional[List[ast.AST]] = None
    by: Dict[str, ast.AST] = {}
    if keyed:
        if not (isinstance(right, ast.Dict) and all(k is not None and isinstance(k, ast.Constant) for k in right.keys)):
            return None
        by = {k.value: v for k, v in zip(right.keys, right.values)}
    elif isinstance(right, ast.Tuple):
        if any(isinstance(x, ast.Starred) for x in right.elts) or len(right.elts) != len(specs):
            return None
        seq = list(right.elts)
    elif len(specs) == 1 and not isinstance(right, (ast.Dict, ast.List, ast.Set)):
        seq = [right]
    else:
        return None
    values: List[ast.AST] = []
    last, i = 0, 0
    for m in _PCT.finditer(text):
        if m.start() > last:
            values.append(ast.Constant(value=text[last:m.start()]))
        last = m.end()
        if m.group("conv") == "%":
            values.append(ast.Constant(value="%"))
            continue
        if m.group("key") is not None:
            arg = by.get(m.group("key"))
        else:
            arg = seq[i] if seq is not None and i < len(seq) else None
            i += 1
        if arg is None:
            return None
        conv = m.group("conv")
        plain = conv == "s" and not m.group("flags") and not m.group("width") and not m.group("prec")
        spec = None
        if not plain and conv not in ("s", "r", "a"):
            spec = (m.group("flags") or "") + (m.group("width") or "") + ("." + m.group("prec") if m.group("prec") else "") + conv
        elif not plain:
            spec = (m.group("width") or "") + ("." + m.group("prec") if m.group("prec") else "") or None
        values.append(ast.FormattedValue(value=copy.deepcopy(arg), conversion={"r": 114, "a": 97}.get(conv, -1),
                                         format_spec=ast.JoinedStr(values=[ast.Constant(value=spec)]) if spec else None))
    if last < len(text):
        values.append(ast.Constant(value=text[last:]))
    return ast.JoinedStr(values=values)


def templates_to_fstrings(fn: ast.FunctionDef) -> bool:
    """`T.format(args)` / `T % args` for a template fixed by the source (a literal, a conditional expression of literals, a local bound
    once to one of those) -> the f-string that places the arguments; arguments the template does not mention disappear (they are
    evaluated for nothing).  Every engine then reads the text as it reads an f-string."""
    if not _explicit_mappings(fn):
        pass
    changed = [False]
    single = _single_bindings(fn)

    def build(tmpl, maker) -> Optional[ast.AST]:
        if isinstance(tmpl, str):
            return maker(tmpl)
        if isinstance(tmpl, tuple):
            a, b = build(tmpl[2], maker), build(tmpl[3], maker)
            if a is None or b is None:
                return None
            return ast.IfExp(test=copy.deepcopy(tmpl[1]), body=a, orelse=b)
        return None

    class T(ast.NodeTransformer):
        def visit_Call(self, c):
            self.generic_visit(c)
            if isinstance(c.func, ast.Attribute) and c.func.attr == "format":
                tmpl = _template_of(c.func.value, single)
                if tmpl is not None:
                    new = build(tmpl, lambda t: _fstring_from_format(t, c))
                    if new is not None:
                        changed[0] = True
                        return ast.copy_location(new, c)
            return c

        def visit_BinOp(self, e):
            self.generic_visit(e)
            if isinstance(e.op, ast.Mod):
                tmpl = _template_of(e.left, single)
                if tmpl is not None:
                    new = build(tmpl, lambda t: _fstring_from_percent(t, e.right, single))
                    if new is not None:
                        changed[0] = True
                        return ast.copy_location(new, e)
            return e

    T().visit(fn)
    if changed[0]:
        ast.fix_missing_locations(fn)
    return changed[0]


# =============================================================================================== P8: bound methods of locals
def apply_bound_methods(fn: ast.FunctionDef) -> bool:
    """`emit = lines.append` (name bound once to a method of a local that is itself bound once) ; `emit(x)` -> `lines.append(x)`"""
    st = _stores(fn)
    single = _single_bindings(fn)
    bound: Dict[str, ast.Attribute] = {}
    for nm, v in single.items():
        if isinstance(v, ast.Attribute) and isinstance(v.value, ast.Name) and st.get(v.value.id) == 1 and v.attr in MUTATORS + ("join", "format", "write"):
            bound[nm] = v
        elif isinstance(v, ast.Attribute) and isinstance(v.value, ast.Constant) and isinstance(v.value.value, str) and v.attr in ("join", "format"):
            bound[nm] = v
    changed = [False]

    class U_(ast.NodeTransformer):
        """str.format(T, a, b) -> T.format(a, b) ; str.join(sep, xs) -> sep.join(xs)"""
        def visit_Call(self, c):
            self.generic_visit(c)
            if any(isinstance(a, ast.Starred) and isinstance(a.value, (ast.Tuple, ast.List)) and not any(isinstance(x, ast.Starred) for x in a.value.elts)
                   for a in c.args):
                flat_args: List[ast.AST] = []
                for a in c.args:
                    if isinstance(a, ast.Starred) and isinstance(a.value, (ast.Tuple, ast.List)) and not any(isinstance(x, ast.Starred) for x in a.value.elts):
                        flat_args.extend(a.value.elts)
                    else:
                        flat_args.append(a)
                c.args = flat_args
                changed[0] = True
            if isinstance(c.func, ast.Attribute) and isinstance(c.func.value, ast.Name) and c.func.value.id == "str" and "str" not in st \
                    and c.func.attr in ("format", "join", "format_map") and c.args and not isinstance(c.args[0], ast.Starred):
                c.func = ast.copy_location(ast.Attribute(value=c.args[0], attr=c.func.attr, ctx=ast.Load()), c.func)
                c.args = c.args[1:]
                changed[0] = True
            return c

    U_().visit(fn)
    if not bound:
        return changed[0]
    pm = _parents(fn)
    # every use of the alias must be a call of it
    for n in ast.walk(fn):
        if isinstance(n, ast.Name) and n.id in bound and isinstance(n.ctx, ast.Load):
            par = pm.get(n)
            if not (isinstance(par, ast.Call) and par.func is n):
                bound.pop(n.id, None)
    if not bound:
        return changed[0]

    class T(ast.NodeTransformer):
        def visit_Call(self, c):
            self.generic_visit(c)
            if isinstance(c.func, ast.Name) and c.func.id in bound:
                c.func = ast.copy_location(copy.deepcopy(bound[c.func.id]), c.func)
                changed[0] = True
            return c

    T().visit(fn)
    return changed[0]


# =============================================================================================== fn
_fn_cache: Dict[tuple, FuncInfo] = {}


def _renormalise(repo: Repo, raw: FuncInfo, fn: ast.FunctionDef, inlined_qns: Optional[Set[str]] = None) -> Optional[FuncInfo]:
    """the engine's own normalisation (helpers, generators, tables, function values, constants) run again on the rewritten body.
    A method that was already analysed in place for the anchored object and is now called on ANOTHER object (an element of its
    collections) is the recursion over the structure that the engine leaves as a call: it stays one here too."""
    from .. import inline as I
    names = {q.rsplit(".", 1)[-1].split("::")[-1] for q in (inlined_qns or set())} | {raw.name}
    for c in ast.walk(fn):
        if isinstance(c, ast.Call) and isinstance(c.func, ast.Attribute) and c.func.attr in names and c.func.attr.startswith("_") \
                and not (isinstance(c.func.value, ast.Name) and c.func.value.id == raw.self_name) \
                and not (isinstance(c.func.value, ast.Call) and isinstance(c.func.value.func, ast.Name) and c.func.value.func.id == "super"):
            c._no_inline = True
    probe = FuncInfo(raw.mod, raw.cls, fn, static=raw.static)
    probe.qn = raw.qn
    _KEEP.extend([fn, probe])
    already = set(inlined_qns or set()) | {raw.qn}

    class _Again(I.Flattener):
        def _target(self, caller, call, stack):
            r = super()._target(caller, call, stack)
            if r is not None:
                callee, recv = r
                on_self = isinstance(recv, ast.Name) and recv.id == (raw.self_name or "self")
                on_super = isinstance(recv, ast.Call) and isinstance(recv.func, ast.Name) and recv.func.id == "super"
                if callee.qn in already and callee.is_method and recv is not None and not on_self and not on_super:
                    call._no_inline = True
                    return None
            return r

    try:
        out = _Again(repo, probe, 4).run()
        try:
            I.specialise(out.node)
            ast.fix_missing_locations(out.node)
        except Exception:
            pass
        return out
    except Exception:
        return None


def normalise(repo: Repo, flat: FuncInfo, raw: Optional[FuncInfo] = None) -> FuncInfo:
    raw = raw or getattr(flat, "flat_of", None) or flat
    cur = flat
    bodies = list(getattr(flat, "inlined_bodies", []) or [])
    inlined = list(getattr(flat, "inlined", []) or [])
    for _ in range(6):
        fn = copy.deepcopy(cur.node)
        probe = FuncInfo(raw.mod, raw.cls, fn, static=raw.static)
        probe.qn = raw.qn
        probe.inlined_bodies = bodies
        _KEEP.extend([fn, probe, cur])
        a = repair_lambda_parameters(fn)
        a = fold_foreign_constants(repo, probe, fn) or a
        b = materialise_generators(repo, raw, fn)
        c = inline_local_tables(raw, fn)
        d = scalarise_records(repo, fn)
        e = fuse_comprehensions(fn)
        g = self_extensions(fn)
        h = _explicit_mappings(fn)
        i_ = apply_bound_methods(fn)
        j_ = templates_to_fstrings(fn)
        k_ = unroll_row_loops(raw, fn)
        l_ = split_pair_targets(fn)
        if not (a or b or c or d or e or g or h or i_ or j_ or k_ or l_):
            break
        ast.fix_missing_locations(fn)
        nxt = _renormalise(repo, raw, fn, {x[0] for x in bodies if isinstance(x, tuple) and x and isinstance(x[0], str)})
        if nxt is None:
            nxt = probe
        _KEEP.append(nxt)
        bodies += [x for x in (getattr(nxt, "inlined_bodies", []) or []) if x not in bodies]
        inlined += [x for x in (getattr(nxt, "inlined", []) or []) if x not in inlined]
        cur = nxt
    final = copy.deepcopy(cur.node)
    _KEEP.append(final)
    if templates_to_fstrings(final):
        ast.fix_missing_locations(final)
        nxt = FuncInfo(raw.mod, raw.cls, final, static=raw.static)
        nxt.qn = raw.qn
        cur = nxt
    if cur is flat:
        return flat
    out = FuncInfo(raw.mod, raw.cls, cur.node, static=raw.static)
    out.qn = flat.qn
    out.flat_of = raw
    out.inlined = inlined
    out.inlined_bodies = bodies
    return out


def fn(repo: Repo, spec: str) -> FuncInfo:
    flat = L.fn(repo, spec)
    key = (id(repo), flat.qn, id(flat.node))
    if key not in _fn_cache:
        try:
            _fn_cache[key] = normalise(repo, flat, repo.func(spec))
        except AnalysisError:
            raise
        except Exception:
            _fn_cache[key] = flat
    return _fn_cache[key]


def fn_of(repo: Repo, f: FuncInfo) -> FuncInfo:
    """the same for a FuncInfo of the repository (a method found through the class hierarchy)"""
    from ..inline import flatten
    flat = flatten(repo, f)
    key = (id(repo), flat.qn, id(flat.node))
    if key not in _fn_cache:
        try:
            _fn_cache[key] = normalise(repo, flat, f)
        except AnalysisError:
            raise
        except Exception:
            _fn_cache[key] = flat
    return _fn_cache[key]


# =============================================================================================== string shapes
_PCT = re.compile(r"%(?:\((?P<key>[^)]*)\))?(?P<flags>[#0\- +]*)(?P<width>\*|\d+)?(?:\.(?P<prec>\*|\d+))?(?P<conv>[diouxXeEfFgGcrsa%])")


class Evaluator(S.Evaluator):
    """string shapes with more ways of filling a template"""

    # -------------------------------------------------------------- synthesised holes
    def _synth(self, node: ast.AST, at: ast.AST) -> ast.AST:
        """a hole expression that does not occur in the source (`args[1]` of `T.format(*args)`, `rec.field` of `**rec._asdict()`):
        it is evaluated where `at` is"""
        ast.copy_location(node, at)
        ast.fix_missing_locations(node)
        _KEEP.append(node)
        try:
            n = self.p.node_of(at)
            for sub in ast.walk(node):
                self.p._node_of_expr.setdefault(id(sub), n)
        except KeyError:
            pass
        # parents of the new nodes (comprehension bindings are found by climbing)
        par = self.p.parents.get(at)
        if par is not None:
            self.p.parents[node] = par
            for sub in ast.walk(node):
                for ch in ast.iter_child_nodes(sub):
                    self.p.parents.setdefault(ch, sub)
        return node

    # -------------------------------------------------------------- strings
    def string(self, e: ast.AST, depth: int = 0) -> S.Shape:
        if depth > 25:
            return S.Unk("depth", e)
        if isinstance(e, ast.Call) and isinstance(e.func, ast.Attribute) and e.func.attr == "format":
            tmpl = self.string(e.func.value, depth + 1)
            return self._format_shape(tmpl, e, depth)
        if isinstance(e, ast.Call) and isinstance(e.func, ast.Attribute) and e.func.attr == "format_map" and len(e.args) == 1 and not e.keywords:
            tmpl = self.string(e.func.value, depth + 1)
            fake = ast.Call(func=e.func, args=[], keywords=[ast.keyword(arg=None, value=e.args[0])])
            ast.copy_location(fake, e)
            self._synth(fake, e)
            return self._format_shape(tmpl, fake, depth)
        if isinstance(e, ast.BinOp) and isinstance(e.op, ast.Mod):
            tmpl = self.string(e.left, depth + 1)
            text = _lit_text(tmpl)
            if text is not None:
                return self._percent(text, e, depth)
            if isinstance(tmpl, S.Alt):
                return _map_alt(tmpl, lambda t: self._percent(t, e, depth) if t is not None else S.Unk("% on a non-literal template", e))
            return S.Hole(e)
        if isinstance(e, ast.Call) and isinstance(e.func, ast.Name) and e.func.id == "format" and len(e.args) == 1 and not e.keywords:
            return self.string(e.args[0], depth + 1)
        if isinstance(e, ast.Subscript) and isinstance(e.ctx, ast.Load) and not isinstance(e.slice, ast.Slice):
            got = self._table_pick(e.value, e.slice, None, e, depth)
            if got is not None:
                return got
        if isinstance(e, ast.Call) and isinstance(e.func, ast.Attribute) and e.func.attr == "get" and len(e.args) in (1, 2) and not e.keywords:
            got = self._table_pick(e.func.value, e.args[0], e.args[1] if len(e.args) == 2 else ast.Constant(value=None), e, depth)
            if got is not None:
                return got
        return super().string(e, depth)

    def _static_display(self, e: ast.AST, depth: int = 0) -> Optional[ast.AST]:
        """the dict / tuple / list display a table expression denotes: written in place, a local bound once and never mutated, a
        module constant, a class-level attribute"""
        if depth > 4:
            return None
        if isinstance(e, (ast.Dict, ast.Tuple, ast.List)):
            return e
        if isinstance(e, ast.Name):
            if self.p._comp_binding(e) is not None:
                return None
            d = self._single_def(e)
            if d is not None:
                if any(isinstance(n, ast.Attribute) and isinstance(n.value, ast.Name) and n.value.id == e.id and n.attr in MUTATORS for n in ast.walk(self.f.node)) or \
                        any(isinstance(n, ast.Subscript) and isinstance(n.value, ast.Name) and n.value.id == e.id and not isinstance(n.ctx, ast.Load)
                            for n in ast.walk(self.f.node)):
                    return None
                return self._static_display(d, depth + 1)
            try:
                at = self.node_of(e)
                if self.rd.defs_reaching(at, e.id):
                    return None
            except KeyError:
                pass
            node = self.repo.const_node(self.f.mod.name, e.id)
            return self._static_display(node, depth + 1) if node is not None else None
        if isinstance(e, ast.Attribute) and isinstance(e.value, ast.Name):
            cls = None
            if self.f.cls and e.value.id in (self.f.self_name, "cls"):
                cls = self.f.cls
            elif e.value.id in self.repo.classes:
                cls = e.value.id
            if cls:
                node = _class_attr_node(self.repo, cls, e.attr)
                return self._static_display(node, depth + 1) if node is not None else None
        return None

    def _table_pick(self, table: ast.AST, idx: ast.AST, default: Optional[ast.AST], at: ast.AST, depth: int) -> Optional[S.Shape]:
        """TABLE[idx] / TABLE.get(idx, default) for a static table of strings: the alternatives, chosen by the index"""
        disp = self._static_display(table)
        if disp is None:
            return None
        if isinstance(disp, ast.Dict):
            if not disp.keys or any(k is None or not isinstance(k, ast.Constant) for k in disp.keys):
                return None
            pairs = [(k.value, v) for k, v in zip(disp.keys, disp.values)]
            if isinstance(idx, ast.Constant):
                for k, v in pairs:
                    if k == idx.value and type(k) is type(idx.value):
                        return self.string(v, depth + 1)
                return self.string(default, depth + 1) if default is not None else None
            if len(pairs) == 2 and all(isinstance(k, bool) for k, _v in pairs) and {k for k, _v in pairs} == {True, False}:
                by = dict(pairs)
                return S.Alt(idx, self.string(by[True], depth + 1), self.string(by[False], depth + 1))
            sh: Optional[S.Shape] = self.string(default, depth + 1) if default is not None else None
            for k, v in reversed(pairs):
                test = self._synth(ast.Compare(left=copy.deepcopy(idx), ops=[ast.Eq()], comparators=[ast.Constant(value=k)]), at)
                sh = self.string(v, depth + 1) if sh is None else S.Alt(test, self.string(v, depth + 1), sh)
            return sh
        if default is not None:
            return None
        elts = list(disp.elts)
        if any(isinstance(x, ast.Starred) for x in elts):
            return None
        i = S._const_index(idx)
        if i is not None and not isinstance(getattr(idx, "value", None), bool):
            return self.string(elts[i], depth + 1) if -len(elts) <= i < len(elts) else None
        if isinstance(idx, ast.Constant) and isinstance(idx.value, bool) and len(elts) == 2:
            return self.string(elts[int(idx.value)], depth + 1)
        if len(elts) == 2:
            # indexing a pair with a truth value: (when false, when true)[test]
            return S.Alt(idx, self.string(elts[1], depth + 1), self.string(elts[0], depth + 1))
        return None

    def _format_shape(self, tmpl: S.Shape, call: ast.Call, depth: int) -> S.Shape:
        text = _lit_text(tmpl)
        if text is not None:
            return self._format(text, call, depth)
        if isinstance(tmpl, S.Alt):
            return _map_alt(tmpl, lambda t: self._format(t, call, depth) if t is not None else S.Unk("format on a non-literal template", call))
        return S.Unk("format on a non-literal template", call)

    # -------------------------------------------------------------- arguments
    def _mapping_items(self, e: ast.AST, at: ast.AST, depth: int = 0) -> Optional[Dict[str, ast.AST]]:
        """{key: value expression} of a mapping written as a dict display, dict(k=v), dict(**m, k=v), a name bound once to one of those,
        `rec._asdict()` of a record"""
        if depth > 6:
            return None
        if isinstance(e, ast.Dict):
            out: Dict[str, ast.AST] = {}
            for k, v in zip(e.keys, e.values):
                if k is None:
                    sub = self._mapping_items(v, at, depth + 1)
                    if sub is None:
                        return None
                    out.update(sub)
                elif isinstance(k, ast.Constant) and isinstance(k.value, str):
                    out[k.value] = v
                else:
                    return None
            return out
        if isinstance(e, ast.Call) and isinstance(e.func, ast.Name) and e.func.id == "dict":
            out = {}
            for a in e.args:
                sub = self._mapping_items(a, at, depth + 1)
                if sub is None:
                    return None
                out.update(sub)
            for k in e.keywords:
                if k.arg is None:
                    sub = self._mapping_items(k.value, at, depth + 1)
                    if sub is None:
                        return None
                    out.update(sub)
                else:
                    out[k.arg] = k.value
            return out
        if isinstance(e, ast.BinOp) and isinstance(e.op, ast.BitOr):
            a, b = self._mapping_items(e.left, at, depth + 1), self._mapping_items(e.right, at, depth + 1)
            if a is None or b is None:
                return None
            a.update(b)
            return a
        if isinstance(e, ast.Call) and isinstance(e.func, ast.Attribute) and e.func.attr == "_asdict" and not e.args and not e.keywords:
            ci = self._record_class(e.func.value)
            if ci is None:
                return None
            return {f_: self._synth(ast.Attribute(value=copy.deepcopy(e.func.value), attr=f_, ctx=ast.Load()), at) for f_, _d in ci.record_fields}
        if isinstance(e, ast.Call) and isinstance(e.func, ast.Name) and e.func.id == "vars" and len(e.args) == 1:
            ci = self._record_class(e.args[0])
            if ci is None:
                return None
            return {f_: self._synth(ast.Attribute(value=copy.deepcopy(e.args[0]), attr=f_, ctx=ast.Load()), at) for f_, _d in ci.record_fields}
        if isinstance(e, ast.Name):
            d = self._single_def(e)
            if d is None:
                return None
            got = self._mapping_items(d, at, depth + 1)
            if got is None:
                return None
            # later `m[k] = v` / `m.update(k=v)` stores add keys
            for n in ast.walk(self.f.node):
                if isinstance(n, ast.Assign) and len(n.targets) == 1 and isinstance(n.targets[0], ast.Subscript) and isinstance(n.targets[0].value, ast.Name) \
                        and n.targets[0].value.id == e.id:
                    k = n.targets[0].slice
                    if isinstance(k, ast.Constant) and isinstance(k.value, str):
                        got[k.value] = n.value
                    else:
                        return None
                elif isinstance(n, ast.Call) and isinstance(n.func, ast.Attribute) and isinstance(n.func.value, ast.Name) and n.func.value.id == e.id \
                        and n.func.attr in ("update", "setdefault", "pop", "clear", "popitem"):
                    if n.func.attr != "update":
                        return None
                    sub = self._mapping_items(ast.Call(func=ast.Name(id="dict", ctx=ast.Load()), args=n.args, keywords=n.keywords), at, depth + 1)
                    if sub is None:
                        return None
                    got.update(sub)
            return got
        return None

    def _single_def(self, e: ast.Name) -> Optional[ast.AST]:
        try:
            at = self.node_of(e)
        except KeyError:
            return None
        defs = [d for d in self.rd.defs_reaching(at, e.id)]
        if len(defs) != 1 or defs[0] == self.g.entry:
            return None
        st = self.g.stmt[defs[0]]
        if isinstance(st, ast.Assign) and len(st.targets) == 1 and isinstance(st.targets[0], ast.Name):
            return st.value
        if isinstance(st, ast.AnnAssign) and st.value is not None:
            return st.value
        return None

    def _record_class(self, e: ast.AST):
        """the record class of the value of e (by its constructor call or the annotation of the name)"""
        try:
            tr = self.p.trace(e)
        except Exception:
            tr = set()
        cands = set()
        for x in tr:
            if len(x) == 1 and x[0].startswith("fresh:"):
                cands.add(x[0][6:])
        if not cands:
            try:
                t = self.repo.types(self.f).typeof(e)
                if t and isinstance(t[0], str):
                    cands.add(t[-1] if t[0] == "inst" else t[0])
            except Exception:
                pass
        cis = [self.repo.classes[c] for c in cands if c in self.repo.classes and getattr(self.repo.classes[c], "record_kind", None)]
        return cis[0] if len(cis) == 1 and len(cands) == 1 else None

    def _positional(self, call: ast.Call, need: int) -> Optional[List[ast.AST]]:
        """the positional arguments with `*x` expanded (to `x[0] .. x[k]` when x is not a display)"""
        out: List[ast.AST] = []
        stars = [a for a in call.args if isinstance(a, ast.Starred)]
        if len(stars) > 1:
            return None
        fixed = len(call.args) - len(stars)
        for a in call.args:
            if not isinstance(a, ast.Starred):
                out.append(a)
                continue
            v = a.value
            if isinstance(v, ast.Name):
                d = self._single_def(v) if self.p._comp_binding(v) is None else None
                if isinstance(d, (ast.Tuple, ast.List)) and not any(isinstance(x, ast.Starred) for x in d.elts):
                    v = d
            if isinstance(v, (ast.Tuple, ast.List)) and not any(isinstance(x, ast.Starred) for x in v.elts):
                out.extend(v.elts)
            else:
                k = max(need - fixed, 0)
                for i in range(k):
                    out.append(self._synth(ast.Subscript(value=v, slice=ast.Constant(value=i), ctx=ast.Load()), call))
        return out

    def _format(self, text: str, call: ast.Call, depth: int) -> S.Shape:
        try:
            parsed = list(_string.Formatter().parse(text))
        except ValueError:
            return S.Unk("bad format string", call)
        # how many positional arguments the template asks for
        need, auto = 0, 0
        for _lit, field, _spec, _conv in parsed:
            if field is None:
                continue
            head = re.split(r"[.\[]", field, 1)[0]
            if head == "":
                auto += 1
                need = max(need, auto)
            elif head.isdigit():
                need = max(need, int(head) + 1)
        pos = self._positional(call, need)
        kw: Dict[str, ast.AST] = {}
        kw_ok = True
        for k in call.keywords:
            if k.arg is not None:
                kw[k.arg] = k.value
            else:
                sub = self._mapping_items(k.value, call)
                if sub is None:
                    kw_ok = False
                else:
                    for a, b in sub.items():
                        kw.setdefault(a, b)
        parts: List[S.Shape] = []
        auto = 0
        for lit, field, spec, conv in parsed:
            if lit:
                parts.append(S.Lit(lit))
            if field is None:
                continue
            m = re.match(r"^([^.\[]*)(.*)$", field)
            head, rest = m.group(1), m.group(2)
            arg: Optional[ast.AST] = None
            if head == "":
                idx = auto
                auto += 1
                arg = pos[idx] if pos is not None and idx < len(pos) else None
            elif head.isdigit():
                arg = pos[int(head)] if pos is not None and int(head) < len(pos) else None
            else:
                arg = kw.get(head)
                if arg is None and not kw_ok:
                    parts.append(S.Unk(f"format field {field!r} from a mapping that is not interpreted", call))
                    continue
            if arg is None:
                parts.append(S.Unk(f"format field {field!r}", call))
                continue
            if rest:
                node = arg
                okp = True
                for am, im in re.findall(r"\.([A-Za-z_]\w*)|\[([^\]]*)\]", rest):
                    if am:
                        node = ast.Attribute(value=node, attr=am, ctx=ast.Load())
                    elif re.fullmatch(r"-?\d+", im):
                        node = ast.Subscript(value=node, slice=ast.Constant(value=int(im)), ctx=ast.Load())
                    else:
                        node = ast.Subscript(value=node, slice=ast.Constant(value=im), ctx=ast.Load())
                if not okp:
                    parts.append(S.Hole(call))
                    continue
                arg = self._synth(node, call)
            if spec or (conv and conv != "s"):
                fv = ast.FormattedValue(value=arg, conversion=ord(conv) if conv else -1,
                                        format_spec=ast.JoinedStr(values=[ast.Constant(value=spec)]) if spec else None)
                parts.append(S.Hole(self._synth(fv, call)))
                continue
            parts.append(self.string(arg, depth + 1))
        return S.Cat(parts)

    def _percent(self, text: str, e: ast.BinOp, depth: int) -> S.Shape:
        right = e.right
        if isinstance(right, ast.Name) and self.p._comp_binding(right) is None:
            d = self._single_def(right)
            if isinstance(d, (ast.Tuple, ast.Dict)) or (isinstance(d, ast.Call) and isinstance(d.func, ast.Name) and d.func.id == "dict"):
                right = d
        items = self._mapping_items(right, e) if isinstance(right, (ast.Dict, ast.Call)) else None
        if isinstance(right, ast.Tuple) and not any(isinstance(x, ast.Starred) for x in right.elts):
            seq: Optional[List[ast.AST]] = list(right.elts)
        elif items is None:
            seq = None          # a single value, or a tuple not built here
        else:
            seq = []
        n_pos = sum(1 for m in _PCT.finditer(text) if m.group("conv") != "%" and not m.group("key"))
        parts: List[S.Shape] = []
        last, i = 0, 0
        for m in _PCT.finditer(text):
            if m.start() > last:
                parts.append(S.Lit(text[last:m.start()]))
            last = m.end()
            if m.group("conv") == "%":
                parts.append(S.Lit("%"))
                continue
            if m.group("width") == "*" or m.group("prec") == "*":
                return S.Hole(e)
            arg: Optional[ast.AST]
            if m.group("key") is not None:
                arg = (items or {}).get(m.group("key"))
            elif seq is None:
                arg = e.right if n_pos == 1 else self._synth(ast.Subscript(value=e.right, slice=ast.Constant(value=i), ctx=ast.Load()), e)
                i += 1
            else:
                arg = seq[i] if i < len(seq) else None
                i += 1
            if arg is None:
                parts.append(S.Unk("% field without argument", e))
                continue
            plain = m.group("conv") in ("s",) and not m.group("flags") and not m.group("width") and not m.group("prec")
            if plain:
                parts.append(self.string(arg, depth + 1))
            else:
                fv = ast.FormattedValue(value=arg, conversion=-1, format_spec=ast.JoinedStr(values=[ast.Constant(value=m.group(0))]))
                parts.append(S.Hole(self._synth(fv, e)))
        if last < len(text):
            parts.append(S.Lit(text[last:]))
        return S.Cat(parts)


def _lit_text(sh: S.Shape) -> Optional[str]:
    """the text of a shape made of literals only"""
    if isinstance(sh, S.Lit):
        return sh.text
    if isinstance(sh, S.Cat):
        ts = [_lit_text(p) for p in sh.parts]
        return "".join(ts) if all(t is not None for t in ts) else None
    return None


def _map_alt(sh: S.Shape, f_) -> S.Shape:
    if isinstance(sh, S.Alt):
        return S.Alt(sh.test, _map_alt(sh.a, f_), _map_alt(sh.b, f_))
    return f_(_lit_text(sh))


# =============================================================================================== reader heads
def _class_attr_node(repo: Repo, cls: str, attr: str) -> Optional[ast.AST]:
    """the value of a class-level attribute, or of an instance attribute that the class binds exactly once (in its constructor) and
    never mutates: a table the object carries"""
    for c in repo.mro(cls):
        for b in repo.classes[c].node.body:
            if isinstance(b, ast.Assign) and any(isinstance(t, ast.Name) and t.id == attr for t in b.targets):
                return b.value
            if isinstance(b, ast.AnnAssign) and isinstance(b.target, ast.Name) and b.target.id == attr and b.value is not None:
                return b.value
    stores: List[Tuple[str, ast.AST]] = []
    for c in list(repo.mro(cls)) + [x for x in repo.subclasses(cls)]:
        for mname, m in repo.classes[c].methods.items():
            for n in ast.walk(m):
                if isinstance(n, ast.Attribute) and n.attr == attr and isinstance(n.value, ast.Name):
                    if not isinstance(n.ctx, ast.Load):
                        stores.append((mname, n))
                if isinstance(n, ast.Call) and isinstance(n.func, ast.Attribute) and n.func.attr in MUTATORS and isinstance(n.func.value, ast.Attribute) \
                        and n.func.value.attr == attr:
                    return None
                if isinstance(n, ast.Subscript) and not isinstance(n.ctx, ast.Load) and isinstance(n.value, ast.Attribute) and n.value.attr == attr:
                    return None
    if len(stores) != 1 or stores[0][0] != "__init__":
        return None
    for c in repo.mro(cls):
        init = repo.classes[c].methods.get("__init__")
        if init is None:
            continue
        for n in ast.walk(init):
            if isinstance(n, ast.Assign) and len(n.targets) == 1 and n.targets[0] is stores[0][1]:
                return n.value
            if isinstance(n, ast.AnnAssign) and n.target is stores[0][1] and n.value is not None:
                return n.value
    return None


class _Static:
    """the string constants a value can hold, computed structurally from displays (rows of tables, keys of dicts), following names
    bound once, module constants and class-level attributes"""

    def __init__(self, repo: Repo, f: FuncInfo):
        self.repo, self.f = repo, f
        self.single = _single_bindings(f.node)
        self.bound = _stores(f.node)
        self.p = L.prov(repo, f)

    def resolve(self, e: ast.AST, mod: str, depth: int = 0) -> Optional[ast.AST]:
        """the display / constant behind a name, a module constant or a class-level attribute"""
        if depth > 6:
            return None
        if isinstance(e, ast.Name):
            if e.id in self.bound:
                v = self.single.get(e.id)
                return self.resolve(v, mod, depth + 1) if v is not None else None
            r = self.repo.lookup(mod, e.id)
            if r and r[0] == "const":
                return self.resolve(r[1], r[2], depth + 1)
            return None
        if isinstance(e, ast.Attribute) and isinstance(e.value, ast.Name):
            cls = None
            if self.f.cls and e.value.id in (self.f.self_name, "cls"):
                cls = self.f.cls
            elif e.value.id in self.repo.classes and e.value.id not in self.bound:
                cls = e.value.id
            if cls:
                node = _class_attr_node(self.repo, cls, e.attr)
                if node is not None:
                    return self.resolve(node, self.repo.classes[cls].mod if cls in self.repo.classes else mod, depth + 1)
            return None
        if isinstance(e, ast.Call) and isinstance(e.func, ast.Name) and e.func.id in ("tuple", "list", "set", "frozenset", "sorted", "reversed", "dict", "iter") \
                and len(e.args) == 1 and not e.keywords:
            return self.resolve(e.args[0], mod, depth + 1)
        if isinstance(e, ast.Call) and isinstance(e.func, ast.Attribute) and e.func.attr == "keys" and not e.args:
            return self.resolve(e.func.value, mod, depth + 1)
        return e

    def strings(self, e: ast.AST, mod: str, what: str, depth: int = 0) -> Set[str]:
        """what = 'value': the strings e itself can be; 'members': the strings `x in e` tests against; 'firsts': the strings a loop
        variable bound to the FIRST component of a row of e can be (rows of (keyword, handler) pairs, or the keys of a dict)"""
        out: Set[str] = set()
        if depth > 6 or e is None:
            return out
        node = self.resolve(e, mod)
        if node is None:
            return out
        if what == "value":
            ok, v = self.repo.fold(node, mod)
            if ok and isinstance(v, str):
                out.add(v)
            return out
        if isinstance(node, ast.Dict):
            for k in node.keys:
                if k is not None:
                    out |= self.strings(k, mod, "value", depth + 1)
                    if what == "members" and isinstance(k, ast.Tuple):
                        pass
            return out
        if isinstance(node, ast.Call) and isinstance(node.func, ast.Name) and node.func.id == "dict" and not node.args:
            return {k.arg for k in node.keywords if k.arg}
        if isinstance(node, (ast.Tuple, ast.List, ast.Set)):
            for x in node.elts:
                if isinstance(x, ast.Starred):
                    out |= self.strings(x.value, mod, what, depth + 1)
                    continue
                if what == "members":
                    out |= self.strings(x, mod, "value", depth + 1)
                else:
                    row = self.resolve(x, mod)
                    if isinstance(row, (ast.Tuple, ast.List)) and row.elts:
                        out |= self.strings(row.elts[0], mod, "value", depth + 1)
                        # a row can name several keywords for one handler: ((k1, k2), handler)
                        out |= self.strings(row.elts[0], mod, "members", depth + 1)
            return out
        if isinstance(node, ast.BinOp) and isinstance(node.op, (ast.Add, ast.BitOr)):
            return self.strings(node.left, mod, what, depth + 1) | self.strings(node.right, mod, what, depth + 1)
        return out


def _first_component_iters(f: FuncInfo, name: ast.Name, pm) -> List[Tuple[ast.AST, bool]]:
    """(iterable, first) when `name` is bound by a loop / comprehension over the iterable: first=True when it takes the first component
    of each element (`for k, h in T`, `for k in D`), False when it is the element itself"""
    out = []
    for n in ast.walk(f.node):
        tgt = it = None
        if isinstance(n, ast.For):
            tgt, it = n.target, n.iter
        elif isinstance(n, ast.comprehension):
            tgt, it = n.target, n.iter
        if tgt is None:
            continue
        if isinstance(tgt, ast.Name) and tgt.id == name.id:
            out.append((it, False))
        elif isinstance(tgt, (ast.Tuple, ast.List)) and tgt.elts and isinstance(tgt.elts[0], ast.Name) and tgt.elts[0].id == name.id:
            out.append((it, True))
    return out


def heads_of(repo: Repo, f: FuncInfo) -> Set[str]:
    """string constants that a token is compared with / dispatched on in f"""
    heads: Set[str] = set()
    st = _Static(repo, f)
    mod = f.mod.name
    pm = _parents(f.node)

    def operand_strings(c: ast.AST) -> Set[str]:
        got = st.strings(c, mod, "value")
        if got:
            return got
        if isinstance(c, ast.Name) and c.id in st.bound and c.id not in st.single:
            # a loop variable over a table of rows / over the keys of a dict of handlers
            out: Set[str] = set()
            for it, first in _first_component_iters(f, c, pm):
                base = it
                if isinstance(it, ast.Call) and isinstance(it.func, ast.Attribute) and it.func.attr == "items" and not it.args:
                    base = it.func.value
                    out |= st.strings(base, mod, "members")     # keys of the dict
                    continue
                if isinstance(it, ast.Call) and isinstance(it.func, ast.Name) and it.func.id == "enumerate" and it.args:
                    continue
                if first:
                    out |= st.strings(base, mod, "firsts")
                else:
                    out |= st.strings(base, mod, "members")
            return out
        return set()

    for n in ast.walk(f.node):
        if isinstance(n, ast.Compare) and len(n.ops) == 1:
            op, left, right = n.ops[0], n.left, n.comparators[0]
            if isinstance(op, (ast.Eq, ast.NotEq)):
                heads |= operand_strings(right) | operand_strings(left)
            elif isinstance(op, (ast.In, ast.NotIn)):
                heads |= st.strings(right, mod, "members")
        elif isinstance(n, ast.Subscript) and isinstance(n.ctx, ast.Load) and not isinstance(n.slice, (ast.Slice, ast.Constant)):
            node = st.resolve(n.value, mod)
            if isinstance(node, ast.Dict) or (isinstance(node, ast.Call) and isinstance(node.func, ast.Name) and node.func.id == "dict"):
                heads |= st.strings(n.value, mod, "members")
        elif isinstance(n, ast.Call) and isinstance(n.func, ast.Attribute) and n.func.attr in ("get", "__getitem__", "__contains__") and n.args \
                and not isinstance(n.args[0], ast.Constant):
            node = st.resolve(n.func.value, mod)
            if isinstance(node, ast.Dict) or (isinstance(node, ast.Call) and isinstance(node.func, ast.Name) and node.func.id == "dict"):
                heads |= st.strings(n.func.value, mod, "members")
        elif hasattr(ast, "Match") and isinstance(n, ast.Match):
            for case in n.cases:
                for sub in ast.walk(case.pattern):
                    if isinstance(sub, ast.MatchValue):
                        heads |= st.strings(sub.value, mod, "value")
    return heads


def reader_heads(repo: Repo, specs: List[str]) -> Set[str]:
    heads: Set[str] = set()
    for spec in specs:
        for f in (L.fn(repo, spec), fn(repo, spec)):
            heads |= heads_of(repo, f)
    return heads


# =============================================================================================== field slices
def _param_flows(repo: Repo, callee: FuncInfo, param: str, control: bool = False) -> bool:
    """does the value of `param` flow into the callee's result?  Decided on the callee's flattened, locally normalised body, so handing
    the parameter on to a private helper / generator that ignores it does not count"""
    try:
        fm = fn_of(repo, callee)
    except Exception:
        fm = callee
    rel: Set[str] = set()
    relexprs: List[ast.AST] = []
    node = fm.node
    for r in [n for n in ast.walk(node) if isinstance(n, (ast.Return, ast.Yield, ast.YieldFrom)) and n.value is not None]:
        rel |= names_in(r.value)
        relexprs.append(r.value)
    defs: List[Tuple[Set[str], ast.AST]] = []
    for n in ast.walk(node):
        if isinstance(n, ast.Assign):
            for t in n.targets:
                defs.append((names_in(t), n.value))
        elif isinstance(n, ast.AugAssign):
            defs.append((names_in(n.target), n.value))
        elif isinstance(n, ast.AnnAssign) and n.value is not None:
            defs.append((names_in(n.target), n.value))
        elif isinstance(n, ast.For):
            defs.append((names_in(n.target), n.iter))
        elif isinstance(n, ast.Call) and isinstance(n.func, ast.Attribute) and n.func.attr in (
                "append", "extend", "add", "update", "insert", "setdefault", "appendleft") and isinstance(n.func.value, (ast.Name, ast.Subscript, ast.Attribute)):
            from .. import fields as F
            b = F._base_name(n.func.value)
            if b:
                for a in n.args:
                    defs.append(({b}, a))
        elif isinstance(n, ast.NamedExpr):
            defs.append((names_in(n.target), n.value))
    changed = True
    while changed:
        changed = False
        for tg, src in defs:
            if tg & rel and not any(src is x for x in relexprs):
                relexprs.append(src)
                rel |= names_in(src)
                changed = True
    return param in rel


def _blocked_by_callee(repo: Repo, f: FuncInfo, e: ast.AST, root: str, depth: int) -> Set[int]:
    """ids of `root.field` nodes that are handed to a function of the repository whose result does not depend on that argument
    (`fields._blocked_by_callee`, with the callee judged on its flattened body)"""
    blocked: Set[int] = set()
    for c in ast.walk(e):
        if not isinstance(c, ast.Call):
            continue
        try:
            cat, tg = repo.resolve_call(f, c)
        except Exception:
            continue
        if cat != "repo" or len(tg) != 1 or tg[0][1] is None:
            continue
        callee = tg[0][1]
        if callee.qn == f.qn:
            continue
        params = list(callee.params)
        if callee.is_method and isinstance(c.func, ast.Attribute):
            params = params[1:]
        bound = list(zip(params, c.args)) + [(k.arg, k.value) for k in c.keywords if k.arg]
        for pn, arg in bound:
            attrs = [n for n in ast.walk(arg) if isinstance(n, ast.Attribute) and isinstance(n.value, ast.Name) and n.value.id == root]
            if attrs and pn in callee.params and not _param_flows(repo, callee, pn):
                blocked |= {id(a) for a in attrs}
    return blocked


def _fields_through_template(n: ast.AST, roots: Set[str]) -> Set[str]:
    """what `T.format(obj)` / `T.format(o=obj)` / `T % obj` / `T % (a, obj)` read of an object that is handed to the template itself:
    `{0}` / `%s` is its __str__, `{o.name}` its field; nothing when the template is not a literal"""
    out: Set[str] = set()
    if isinstance(n, ast.Call) and isinstance(n.func, ast.Attribute) and n.func.attr == "format" and isinstance(n.func.value, ast.Constant) \
            and isinstance(n.func.value.value, str):
        pos = [a.id if isinstance(a, ast.Name) and a.id in roots else None for a in n.args]
        if any(isinstance(a, ast.Starred) for a in n.args):
            pos = []
        kw = {k.arg: k.value.id for k in n.keywords if k.arg and isinstance(k.value, ast.Name) and k.value.id in roots}
        if not any(pos) and not kw:
            return out
        try:
            parsed = list(_string.Formatter().parse(n.func.value.value))
        except ValueError:
            return out
        auto = 0
        for _lit, field, _spec, conv in parsed:
            if field is None:
                continue
            m = re.match(r"^([^.\[]*)(.*)$", field)
            head, rest = m.group(1), m.group(2)
            hit = False
            if head == "":
                hit = auto < len(pos) and pos[auto] is not None
                auto += 1
            elif head.isdigit():
                hit = int(head) < len(pos) and pos[int(head)] is not None
            else:
                hit = head in kw
            if not hit:
                continue
            if not rest:
                out.add("__repr__" if conv == "r" else "__str__")
            else:
                am = re.match(r"^\.([A-Za-z_]\w*)", rest)
                if am:
                    out.add(am.group(1))
    elif isinstance(n, ast.BinOp) and isinstance(n.op, ast.Mod) and isinstance(n.left, ast.Constant) and isinstance(n.left.value, str):
        specs = [m for m in _PCT.finditer(n.left.value) if m.group("conv") != "%"]
        right = n.right
        if isinstance(right, ast.Name) and right.id in roots and len(specs) == 1 and not specs[0].group("key"):
            args = [right]
        elif isinstance(right, ast.Tuple):
            args = list(right.elts)
        elif isinstance(right, ast.Dict):
            by = {k.value: v for k, v in zip(right.keys, right.values) if isinstance(k, ast.Constant)}
            for m in specs:
                v = by.get(m.group("key"))
                if isinstance(v, ast.Name) and v.id in roots and m.group("conv") in ("s", "r", "a"):
                    out.add("__repr__" if m.group("conv") == "r" else "__str__")
            return out
        else:
            return out
        for m, a in zip([m for m in specs if not m.group("key")], args):
            if isinstance(a, ast.Name) and a.id in roots and m.group("conv") in ("s", "r", "a"):
                out.add("__repr__" if m.group("conv") == "r" else "__str__")
    return out


def _walk_data(e: ast.AST):
    """the sub-expressions of `e` whose VALUE can become part of the value of `e`: the test of a conditional expression (and the filter of
    a comprehension) only chooses, it is control"""
    stack = [e]
    while stack:
        n = stack.pop()
        yield n
        for ch in ast.iter_child_nodes(n):
            if isinstance(n, ast.IfExp) and ch is n.test:
                continue
            stack.append(ch)


def slice_fields(repo: Repo, f: FuncInfo, root: str, cls: Optional[str], control: bool = True, depth: int = 0, seen: Optional[set] = None) -> Set[str]:
    """`fields.slice_fields` (same slice, same blocking of fields handed to helpers that ignore them), except that the methods /
    properties of the sliced object are followed through their flattened and locally normalised bodies: a private helper they
    delegate to (a module function taking the fields as arguments, a record, a template filler) is part of the slice instead of an
    opaque call"""
    from .. import fields as F
    seen = seen if seen is not None else set()
    node = f.node
    rel: Set[str] = set()
    relexprs: List[ast.AST] = []
    for r in [n for n in ast.walk(node) if isinstance(n, (ast.Return, ast.Yield, ast.YieldFrom)) and n.value is not None]:
        rel |= names_in(r.value)
        relexprs.append(r.value)
    defs: List[Tuple[Set[str], ast.AST]] = []
    for n in ast.walk(node):
        if isinstance(n, ast.Assign):
            for t in n.targets:
                defs.append((names_in(t), n.value))
        elif isinstance(n, ast.AugAssign):
            defs.append((names_in(n.target), n.value))
        elif isinstance(n, ast.AnnAssign) and n.value is not None:
            defs.append((names_in(n.target), n.value))
        elif isinstance(n, ast.For):
            defs.append((names_in(n.target), n.iter))
        elif isinstance(n, ast.Call) and isinstance(n.func, ast.Attribute) and n.func.attr in (
                "append", "extend", "add", "update", "insert", "setdefault", "appendleft") and isinstance(n.func.value, (ast.Name, ast.Subscript, ast.Attribute)):
            b = F._base_name(n.func.value)
            if b:
                for a in n.args:
                    defs.append(({b}, a))
        elif isinstance(n, ast.NamedExpr):
            defs.append((names_in(n.target), n.value))
    changed = True
    while changed:
        changed = False
        for tg, src in defs:
            if tg & rel and not any(src is x for x in relexprs):
                relexprs.append(src)
                rel |= names_in(src)
                changed = True
        for n in (ast.walk(node) if control else ()):
            if isinstance(n, (ast.If, ast.While, ast.IfExp)) and not any(n.test is x for x in relexprs):
                inner = list(ast.walk(n))
                if any(any(x is y for y in relexprs) for x in inner) or any(isinstance(x, (ast.Return, ast.Yield)) for x in inner):
                    relexprs.append(n.test)
                    rel |= names_in(n.test)
                    changed = True
    roots = {root}
    grew = True
    while grew:
        grew = False
        for n in ast.walk(node):
            if isinstance(n, (ast.Assign, ast.AnnAssign)) and isinstance(n.value, ast.Name) and n.value.id in roots:
                for t in (n.targets if isinstance(n, ast.Assign) else [n.target]):
                    if isinstance(t, ast.Name) and t.id not in roots:
                        roots.add(t.id)
                        grew = True
    fields: Set[str] = set()
    for e in relexprs:
        blocked = _blocked_by_callee(repo, f, e, root, depth) if depth < 3 else set()
        for n in (ast.walk(e) if control else _walk_data(e)):
            if isinstance(n, ast.Attribute) and isinstance(n.value, ast.Name) and n.value.id in roots and id(n) not in blocked:
                fields.add(n.attr)
            if isinstance(n, ast.Call) and isinstance(n.func, ast.Name) and n.func.id in F._DUNDER_OF and len(n.args) == 1 \
                    and isinstance(n.args[0], ast.Name) and n.args[0].id in roots:
                fields.add(F._DUNDER_OF[n.func.id])
            if isinstance(n, ast.FormattedValue) and isinstance(n.value, ast.Name) and n.value.id in roots:
                fields.add("__repr__" if n.conversion == 114 else "__str__")
            fields |= _fields_through_template(n, roots)
    out: Set[str] = set()

    def follow(m: FuncInfo, tag: str) -> Set[str]:
        seen.add((m.qn, tag))
        try:
            fm = fn_of(repo, m)
        except Exception:
            fm = m
        selfname = fm.params[0] if fm.params else "self"
        return slice_fields(repo, fm, selfname, m.cls, control, depth + 1, seen)

    for fld in fields:
        m = repo.find_method(cls, fld) if cls else None
        if m is not None and depth < 3 and (m.qn, fld) not in seen:
            out |= follow(m, fld)
        else:
            out.add(fld)
    for e in relexprs:
        for n in ast.walk(e):
            if isinstance(n, ast.Call) and isinstance(n.func, ast.Attribute) and isinstance(n.func.value, ast.Call) and \
                    isinstance(n.func.value.func, ast.Name) and n.func.value.func.id == "super" and cls and root == (f.self_name or "self"):
                for b in repo.classes[cls].bases:
                    m = repo.find_method(b, n.func.attr)
                    if m is not None and depth < 3 and (m.qn, "super") not in seen:
                        out |= follow(m, "super")
    return out


# =============================================================================================== valuations: final values, sizes
def _simple_def(st: ast.AST) -> bool:
    return (isinstance(st, ast.AnnAssign) and st.value is not None and isinstance(st.target, ast.Name)) or \
           (isinstance(st, ast.Assign) and len(st.targets) == 1 and isinstance(st.targets[0], ast.Name))


def final_values(G: "L.Guards", valuation: Dict[str, bool], seen: Optional[Set[int]] = None) -> List[Tuple[ast.AST, int]]:
    """The expressions whose value the function can return under the valuation: the operands of the reachable `return`s, with plain local
    names followed back through the definitions that reach along the edges the valuation leaves open (an inlined helper hands its result
    over in such names) and conditional expressions resolved by the valuation.  -> [(expression, CFG node where it is evaluated)].
    A `return` without a value is reported as (None, node); a name that may be a parameter / is not bound by a plain assignment stays."""
    g = G.g
    rd = L.rd_of(G.f)
    if seen is None:
        seen = G.reach(valuation)
    vkey = G._vkey(valuation)
    val = G._val(valuation, seen)
    out: List[Tuple[ast.AST, int]] = []
    done: Set[int] = set()

    def follow(e: ast.AST, at: int, depth: int) -> None:
        if id(e) in done:
            return
        done.add(id(e))
        if isinstance(e, ast.Name) and isinstance(e.ctx, ast.Load) and depth < 16:
            defs = G._defs(rd, at, e.id, seen, vkey)
            if defs and all(d != g.entry and _simple_def(g.stmt[d]) for d in defs):
                for d in sorted(defs):
                    follow(g.stmt[d].value, d, depth + 1)
                return
        if isinstance(e, ast.IfExp):
            t = C.eval3(e.test, val)
            if t is not False:
                follow(e.body, at, depth + 1)
            if t is not True:
                follow(e.orelse, at, depth + 1)
            return
        out.append((e, at))

    for n in sorted(seen):
        if g.kind[n] == "return":
            v = g.stmt[n].value
            if v is None:
                out.append((None, n))
            else:
                follow(v, n, 0)
    return out


def falls_off_end(f: FuncInfo) -> bool:
    """can control reach the end of the function body without a `return` / `raise` (the caller then gets None)?"""
    g = C.cfg_of(f.node)
    seen = C.reachable_from(g, g.entry)
    return any(a in seen and g.kind[a] not in ("return", "raise") for a, _l in g.pred[g.exit])


def branches_under(sh, val, limit: int = 64) -> List[S.Shape]:
    """`strshape.branches` with the alternatives that the valuation decides taken that way only"""
    if isinstance(sh, S.Alt):
        t = C.eval3(sh.test, val) if val is not None else None
        if t is True:
            return branches_under(sh.a, val, limit)
        if t is False:
            return branches_under(sh.b, val, limit)
        return (branches_under(sh.a, val, limit) + branches_under(sh.b, val, limit))[:limit]
    if isinstance(sh, S.Cat):
        outs: List[List[S.Shape]] = [[]]
        for part in sh.parts:
            bs = branches_under(part, val, limit)
            outs = [o + [b] for o in outs for b in bs][:limit]
        return [S.Cat(o) for o in outs]
    if isinstance(sh, S.Rep):
        return [S.Rep(b, sh.sep, sh.loop) for b in branches_under(sh.body, val, limit)]
    return [sh]


_SIZE_OPS = {ast.Eq: "==", ast.NotEq: "!=", ast.Gt: ">", ast.GtE: ">=", ast.Lt: "<", ast.LtE: "<="}
_SIZE_SWAP = {"==": "==", "!=": "!=", ">": "<", ">=": "<=", "<": ">", "<=": ">="}
_SAME_SIZE_CALLS = ("list", "tuple", "sorted", "reversed", "iter")
_SAME_SIZE_METHODS = ("values", "items", "keys", "copy")


def size_matcher(f: FuncInfo, p, roots: Dict[tuple, str]):
    """Atom function for `L.Guards`: tests on the SIZE of a collection that is identified by its provenance path (`roots`: path -> label,
    e.g. ('param:domain', 'attr:constants') -> 'constants').  Atoms are named '<label>|<op>|<n>' (the size `op` n).  Recognised:
    `len(X) op n` / `n op len(X)`, the truth value of X (`if X`, `not X`, `bool(X)`), `X == []` / `X != ""`, where X is the collection,
    an alias, a same-size view of it (`.values()`, `list(..)`, `sorted(..)`, a comprehension over it without a filter), a local bound once
    to one of these, or (truth value only) the text obtained by joining such a view.  `size_valuation` turns a size into a valuation."""
    rd = L.rd_of(f)
    g = C.cfg_of(f.node)
    memo: Dict[int, Optional[Tuple[str, bool]]] = {}

    def root_of(e: ast.AST, depth: int = 0) -> Optional[Tuple[str, bool]]:
        """(label, exact): exact = the size of e IS the size of the collection; otherwise only emptiness agrees"""
        if depth > 6:
            return None
        k = id(e)
        if k in memo:
            return memo[k]
        memo[k] = None
        out = None
        try:
            tr = p.trace(e)
        except (KeyError, RecursionError):
            tr = set()
        if tr and len(tr) == 1 and next(iter(tr)) in roots:
            out = (roots[next(iter(tr))], True)
        elif isinstance(e, ast.Call) and isinstance(e.func, ast.Name) and e.func.id in _SAME_SIZE_CALLS and len(e.args) == 1 and not e.keywords:
            out = root_of(e.args[0], depth + 1)
        elif isinstance(e, ast.Call) and isinstance(e.func, ast.Name) and e.func.id in ("set", "frozenset") and len(e.args) == 1 and not e.keywords:
            r_ = root_of(e.args[0], depth + 1)
            out = (r_[0], False) if r_ else None
        elif isinstance(e, ast.Call) and isinstance(e.func, ast.Attribute) and e.func.attr in _SAME_SIZE_METHODS and not e.args and not e.keywords:
            out = root_of(e.func.value, depth + 1)
        elif isinstance(e, ast.Call) and isinstance(e.func, ast.Attribute) and e.func.attr == "join" and len(e.args) == 1 and not e.keywords:
            r_ = root_of(e.args[0], depth + 1)
            out = (r_[0], False) if r_ else None
        elif isinstance(e, (ast.ListComp, ast.GeneratorExp)) and len(e.generators) == 1 and not e.generators[0].ifs:
            out = root_of(e.generators[0].iter, depth + 1)
        elif isinstance(e, ast.SetComp) and len(e.generators) == 1 and not e.generators[0].ifs:
            r_ = root_of(e.generators[0].iter, depth + 1)
            out = (r_[0], False) if r_ else None
        elif isinstance(e, ast.Name) and isinstance(e.ctx, ast.Load):
            n = g.node_containing(e)
            defs = rd.defs_reaching(n, e.id) if n is not None else set()
            if len(defs) == 1:
                d = next(iter(defs))
                st = g.stmt[d]
                if d != g.entry and _simple_def(st) and not any(
                        isinstance(c, ast.Call) and isinstance(c.func, ast.Attribute) and isinstance(c.func.value, ast.Name) and c.func.value.id == e.id
                        and c.func.attr in MUTATORS for c in ast.walk(f.node)):
                    out = root_of(st.value, depth + 1)
        memo[k] = out
        return out

    def is_len(e: ast.AST, depth: int = 0) -> Optional[Tuple[str, bool]]:
        if isinstance(e, ast.Call) and isinstance(e.func, ast.Name) and e.func.id == "len" and len(e.args) == 1 and not e.keywords:
            return root_of(e.args[0])
        if isinstance(e, ast.Name) and isinstance(e.ctx, ast.Load) and depth < 3:
            # a local bound once to the count
            n = g.node_containing(e)
            defs = rd.defs_reaching(n, e.id) if n is not None else set()
            if len(defs) == 1:
                d = next(iter(defs))
                if d != g.entry and _simple_def(g.stmt[d]):
                    return is_len(g.stmt[d].value, depth + 1)
        return None

    def int_const(e: ast.AST) -> Optional[int]:
        return e.value if isinstance(e, ast.Constant) and isinstance(e.value, int) and not isinstance(e.value, bool) else None

    def empty_display(e: ast.AST) -> bool:
        return (isinstance(e, (ast.List, ast.Tuple, ast.Set)) and not e.elts) or (isinstance(e, ast.Dict) and not e.keys) or \
               (isinstance(e, ast.Constant) and e.value == "")

    def matcher(e: ast.AST) -> Optional[str]:
        if isinstance(e, ast.Compare) and len(e.ops) == 1 and type(e.ops[0]) in _SIZE_OPS:
            a, b, op = e.left, e.comparators[0], _SIZE_OPS[type(e.ops[0])]
            for x, y, o in ((a, b, op), (b, a, _SIZE_SWAP[op])):
                r_, c = is_len(x), int_const(y)
                if r_ is not None and c is not None:
                    if r_[1]:
                        return f"{r_[0]}|{o}|{c}"
                    # only emptiness carries over
                    if (o, c) in ((">", 0), (">=", 1), ("!=", 0)):
                        return f"{r_[0]}|>|0"
                    if (o, c) in (("==", 0), ("<", 1), ("<=", 0)):
                        return f"!{r_[0]}|>|0"
                    return None
                if o in ("==", "!=") and empty_display(y) and not isinstance(x, ast.Constant):
                    r2 = root_of(x)
                    if r2 is not None:
                        return (f"!{r2[0]}|>|0") if o == "==" else f"{r2[0]}|>|0"
            return None
        if isinstance(e, (ast.Name, ast.Attribute, ast.Call)) and isinstance(getattr(e, "ctx", ast.Load()), ast.Load):
            if isinstance(e, ast.Call) and isinstance(e.func, ast.Name) and e.func.id in ("bool", "len"):
                return None
            r_ = root_of(e)
            if r_ is not None:
                return f"{r_[0]}|>|0"
        return None

    return matcher


def size_valuation(atoms_seen: Set[str], label: str, size: int) -> Dict[str, bool]:
    """the valuation of the size atoms of one collection for a size: 0, 1, or 2 (= two or more: only the tests that have the same outcome
    for every size >= 2 are decided)"""
    import operator
    ops = {"==": operator.eq, "!=": operator.ne, ">": operator.gt, ">=": operator.ge, "<": operator.lt, "<=": operator.le}
    out: Dict[str, bool] = {}
    for a in atoms_seen:
        parts = a.split("|")
        if len(parts) != 3 or parts[0] != label or parts[1] not in ops:
            continue
        try:
            c = int(parts[2])
        except ValueError:
            continue
        if size < 2:
            out[a] = ops[parts[1]](size, c)
        else:
            v1, v2 = ops[parts[1]](2, c), ops[parts[1]](10 ** 9, c)
            if v1 == v2 and ops[parts[1]](3, c) == v1:
                out[a] = v1
    return out


def may_be_unbound(f: FuncInfo, name: ast.Name) -> bool:
    """is there a way from the function's entry to this use of a LOCAL name that passes no binding of it?  (the result name of an inlined
    helper whose body can end without `return`: the helper then gives None)"""
    g = C.cfg_of(f.node)
    at = g.node_containing(name)
    if at is None or name.id in f.params:
        return False
    defs = {n for n in g.nodes() if n != g.entry and g.stmt[n] is not None and name.id in C.defs_of(g.stmt[n])}
    if not defs or at in defs:
        return False
    return at in C.reachable_from(g, g.entry, avoid=defs) and consistent_path(f, {at}, avoid=defs) is True


def unbound_under(G: "L.Guards", valuation: Dict[str, bool], seen: Optional[Set[int]] = None) -> List[ast.Name]:
    """reads of a local name on a statement that the valuation reaches, for which NO binding of the name reaches along the edges the
    valuation leaves open (`if c: x = a` ... `use(x)` under c == False): the statement raises UnboundLocalError on every such run"""
    f, g = G.f, G.g
    rd = L.rd_of(f)
    if seen is None:
        seen = G.reach(valuation)
    vkey = G._vkey(valuation)
    bound_somewhere: Set[str] = set()
    for n in g.nodes():
        if n != g.entry and g.stmt[n] is not None:
            bound_somewhere |= set(C.defs_of(g.stmt[n]))
    bound_somewhere -= set(f.params)
    pm = L.parents_of(f)
    out: List[ast.Name] = []
    for n in sorted(seen):
        st = g.stmt[n]
        h = C.header(st) if st is not None else None
        if h is None:
            continue
        for x in ast.walk(h):
            if not (isinstance(x, ast.Name) and isinstance(x.ctx, ast.Load) and x.id in bound_somewhere):
                continue
            # a name bound by an enclosing comprehension / lambda is not the local
            cur, shadowed = x, False
            while cur in pm and not isinstance(cur, ast.stmt):
                cur = pm[cur]
                if isinstance(cur, COMPS) and any(x.id in C.target_names(gen.target) for gen in cur.generators):
                    shadowed = True
                if isinstance(cur, ast.Lambda) and x.id in {a.arg for a in cur.args.args + cur.args.kwonlyargs}:
                    shadowed = True
            if shadowed:
                continue
            if not rd.defs_reaching(n, x.id):
                continue        # never bound before on any path: not a question of the valuation (globals, builtins shadowed later ...)
            if not G._defs(rd, n, x.id, seen, vkey):
                out.append(x)
    return out


def consistent_path(f: FuncInfo, targets: Set[int], avoid: Set[int] = frozenset(), budget: int = 20000) -> Optional[bool]:
    """Is there a way from the entry to one of the `targets` CFG nodes, around `avoid`, on which no test is taken both ways?  Two branch
    nodes ask the same test when their tests are the same expression (`not` stripped, outcome flipped) over the same reaching definitions
    of the names in it (`if c: return a` ... `if not c: return b` leaves no way to the end of the body).  True / False; None when the
    search runs out of budget."""
    g = C.cfg_of(f.node)
    rd = L.rd_of(f)
    steps = [0]

    def key_of(n: int):
        t = g.stmt[n].test
        flip = False
        while isinstance(t, ast.UnaryOp) and isinstance(t.op, ast.Not):
            t, flip = t.operand, not flip
        names = sorted({x.id for x in ast.walk(t) if isinstance(x, ast.Name)})
        return (ast.dump(t), tuple((nm, tuple(sorted(rd.defs_reaching(n, nm)))) for nm in names)), flip

    def dfs(n: int, assumed: Dict[object, bool], onpath: Set[int]) -> Optional[bool]:
        steps[0] += 1
        if steps[0] > budget:
            return None
        if n in targets:
            return True
        out: Optional[bool] = False
        for m, l in g.succ[n]:
            if m in avoid or m in onpath and g.kind[m] != "loop":
                continue
            if m in onpath:
                continue
            nxt = assumed
            if g.kind[n] == "if" and isinstance(l, bool) and not getattr(g.stmt[n], "_inline_block", False):
                k, flip = key_of(n)
                want = (not l) if flip else l
                if k in assumed and assumed[k] != want:
                    continue
                if k not in assumed:
                    nxt = dict(assumed)
                    nxt[k] = want
            r_ = dfs(m, nxt, onpath | {m})
            if r_ is True:
                return True
            if r_ is None:
                out = None
        return out

    import sys
    old = sys.getrecursionlimit()
    sys.setrecursionlimit(max(old, 10000))
    try:
        return dfs(g.entry, {}, {g.entry})
    finally:
        sys.setrecursionlimit(old)
