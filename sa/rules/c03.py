"""C03 -- applying an action yields the PDDL successor state."""
from __future__ import annotations

import ast
import itertools
from typing import List, Optional, Set

from .. import cfg as C
from .. import lib as L
from ..core import AnalysisError, FuncInfo, Repo, unparse
from ..prov import callee_name
from ..report import Finding, RuleResult
from . import c12

EXPLANATION = (
    "C03.antecedent: finite valuation of the guard in Operator.apply / _apply_universal_effects over the atoms "
    "(skip_validation, antecedents_hold(pre-state), is_applicable, allow_inapplicable_actions): an effect group is applied iff its "
    "antecedents hold in the pre-state parameter. C03.copy: def-use provenance shows that every state handed to an effect for "
    "mutation is the .copy() of the pre-state parameter and that this copy is what is returned. C03.delete_add: in the discrete "
    "effect applier no insertion into the predicate map can precede a removal (CFG reachability) and the removal / insertion loops "
    "are filtered by negative / positive polarity. C03.assign: symbolic execution of assign/increase/decrease. C03.prestate_rhs: "
    "the fluent environment used to evaluate numeric right-hand sides derives from the pre-state at the call sites in Operator. "
    "C03.universal: the universal-effect pass dominates the return of apply and receives (pre-state, copy); its type filter is a "
    "subtype test (C06.conform). C03.escape: a fluent object owned by the operator's expression trees is not stored into the "
    "returned state without a copy."
)
UNDECIDED = ("the frame (that nothing else changes) and full successor equality for all states; consistency side conditions of "
             "simultaneously firing effects; correctness of grounding (C20) and of condition evaluation (C02)")

OP = "models.pddl_operator"
GE = "models.grounded_effect"


def _apply_matcher(prestate: str):
    def m(e):
        if isinstance(e, ast.Name) and e.id == "skip_validation":
            return "skip"
        if isinstance(e, ast.Name) and e.id == "allow_inapplicable_actions":
            return "allow"
        if isinstance(e, ast.Call) and isinstance(e.func, ast.Attribute):
            if e.func.attr == "antecedents_hold":
                return "hold"
            if e.func.attr == "is_applicable":
                return "applicable"
        return None

    return m


def _effect_apply_calls(repo: Repo, f: FuncInfo) -> List[ast.Call]:
    """calls X.apply(...) that resolve to GroundedEffect.apply"""
    out = []
    for c in L.calls_in(f.node):
        if isinstance(c.func, ast.Attribute) and c.func.attr == "apply":
            cat, tg = repo.resolve_call(f, c)
            if any(t is not None and t.cls == "GroundedEffect" for _k, t, _c in tg):
                out.append(c)
    return out


def _is_copy_of_param(paths, param: str) -> bool:
    good = [p for p in paths if p[0] == f"param:{param}" and "call:copy" in p]
    bad = [p for p in paths if not (p[0] == f"param:{param}" and "call:copy" in p)]
    return bool(good) and not bad


def rule_antecedent(repo: Repo) -> RuleResult:
    r = RuleResult("C03.antecedent", "a conditional / universal effect group is applied iff its antecedents hold in the pre-state",
                   "PDDL conditional effects")
    for fname in ("Operator.apply", "Operator._apply_universal_effects"):
        f = repo.func(fname)
        prestate = "previous_state"
        if prestate not in f.params:
            raise AnalysisError(f"{fname}: pre-state parameter 'previous_state' not found")
        G = L.Guards(f, _apply_matcher(prestate))
        p = L.prov(repo, f)
        applies = _effect_apply_calls(repo, f)
        holds = [c for c in L.calls_in(f.node) if callee_name(c) == "antecedents_hold"]
        if not applies:
            raise AnalysisError(f"{fname}: no call of GroundedEffect.apply found")
        if not holds:
            raise AnalysisError(f"{fname}: no call of antecedents_hold found (guard idiom not recognised)")
        for h in holds:
            r.site(L.site(f, h, "antecedent test"))
            tr = p.trace(h.args[0]) if h.args else set()
            if tr and all(x == (f"param:{prestate}",) for x in tr):
                r.ok({"function": f.qn, "antecedents_evaluated_on": "pre-state parameter"})
            else:
                r.fail(Finding("C03.antecedent", f, "antecedent-state", f"antecedents are evaluated on {sorted(tr)[:3]}, not on the pre-state parameter", node=h))
            if len(h.args) > 1 or h.keywords:
                extra = h.args[1] if len(h.args) > 1 else h.keywords[0].value
                if not (isinstance(extra, ast.Constant) and extra.value is False):
                    r.fail(Finding("C03.antecedent", f, "antecedent-bypass", f"antecedents_hold is called with a bypass flag {unparse(extra)}", node=h))
        for a in applies:
            r.site(L.site(f, a, "effect application"))
            node = G.node_of_expr(a)
            table = {}
            for skip, hold in itertools.product([False, True], repeat=2):
                val = {"hold": hold, "applicable": True, "allow": False}
                if "skip" in G.atoms_seen:
                    val["skip"] = skip
                table[(skip, hold)] = node in G.reach(val)
            sample = {"function": f.qn, "apply_reachable": {f"skip={s},hold={h}": v for (s, h), v in table.items()}}
            bad = [(s, h) for (s, h), v in table.items() if v != h]
            if not bad:
                r.ok(sample)
            else:
                r.fail(Finding("C03.antecedent", f, "guard:effect.apply",
                               f"effect.apply reachability differs from 'antecedents hold' for (skip_validation, hold) in {bad}", node=a), sample)
    r.require_sites(4)
    return r


def rule_copy(repo: Repo) -> RuleResult:
    r = RuleResult("C03.copy", "effects are applied to previous_state.copy(), never to the parameter; the copy is returned",
                   "the successor is a new state")
    f = repo.func("Operator.apply")
    p = L.prov(repo, f)
    for a in _effect_apply_calls(repo, f):
        r.site(L.site(f, a, "mutated state argument"))
        tr = p.trace(a.args[0]) if a.args else set()
        if _is_copy_of_param(tr, "previous_state"):
            r.ok({"call": unparse(a), "state": "previous_state.copy()"})
        else:
            r.fail(Finding("C03.copy", f, "mutated-arg:effect.apply", f"state handed to effect.apply derives from {sorted(tr)[:3]}", node=a))
    ucalls = [c for c in L.calls_in(f.node) if callee_name(c) == "_apply_universal_effects"]
    for u in ucalls:
        r.site(L.site(f, u, "universal pass"))
        if len(u.args) >= 2:
            t0, t1 = p.trace(u.args[0]), p.trace(u.args[1])
            if all(x == ("param:previous_state",) for x in t0) and t0 and _is_copy_of_param(t1, "previous_state"):
                r.ok({"call": unparse(u), "args": "(pre-state, copy)"})
            else:
                r.fail(Finding("C03.copy", f, "args:_apply_universal_effects", f"universal pass receives {sorted(t0)[:2]} / {sorted(t1)[:2]}; expected (pre-state, copy)", node=u))
    for ret in L.func_returns(f):
        r.site(L.site(f, ret, "return"))
        tr = p.trace(ret.value) if ret.value is not None else set()
        if _is_copy_of_param(tr, "previous_state"):
            r.ok({"returns": "previous_state.copy()"})
        else:
            r.fail(Finding("C03.copy", f, "return", f"apply returns {sorted(tr)[:3]} instead of the copy", node=ret))
    # is_init of the successor is False
    g = C.cfg_of(f.node)
    found = False
    for n in ast.walk(f.node):
        if isinstance(n, ast.Assign) and any(isinstance(t, ast.Attribute) and t.attr == "is_init" for t in n.targets):
            found = found or (isinstance(n.value, ast.Constant) and n.value.value is False)
    r.site(f.qn + " [is_init reset]")
    if found:
        r.ok({"is_init": False})
    else:
        r.fail(Finding("C03.copy", f, "is_init", "the successor's is_init flag is not reset to False"))
    r.require_sites(4)
    return r


MUT_REMOVE = {"discard", "remove", "pop", "difference_update", "clear", "popitem"}
MUT_INSERT = {"add", "update", "append", "setdefault", "extend", "insert"}


def _polarity_allowed(repo: Repo, f: FuncInfo, loop: ast.For, mut_node: ast.AST) -> Optional[Set[bool]]:
    """for which values of <elem>.is_positive can the mutation inside `loop` execute?"""
    p = L.prov(repo, f)
    g = C.cfg_of(f.node)
    allowed = set()

    def atom(e):
        if isinstance(e, ast.Attribute) and e.attr == "is_positive":
            return "pos"
        return None

    # comprehension filter feeding the loop
    filt: List[ast.AST] = []
    it = loop.iter
    cands = [it]
    if isinstance(it, ast.Name):
        for d in p.rd.defs_reaching(p.node_of(it), it.id):
            st = g.stmt[d]
            if isinstance(st, ast.Assign):
                cands.append(st.value)
    for c in cands:
        if isinstance(c, (ast.ListComp, ast.SetComp, ast.GeneratorExp)):
            for gen in c.generators:
                filt.extend(gen.ifs)
        if isinstance(c, ast.Call) and callee_name(c) == "filter" and c.args and isinstance(c.args[0], ast.Lambda):
            filt.append(c.args[0].body)
    for pos in (False, True):
        val = lambda e, pos=pos: (pos if atom(e) else None)
        passes = all(C.eval3(x, val) is not False for x in filt)
        if not passes:
            continue
        seen = C.reach_under(g, val, start=g.node_of(loop))
        mn = g.node_containing(mut_node)
        if mn in seen:
            allowed.add(pos)
    return allowed


def rule_delete_add(repo: Repo) -> RuleResult:
    r = RuleResult("C03.delete_add", "unconditional effects delete then add; deletions come from negative, additions from positive literals",
                   "PDDL delete-then-add semantics")
    f = repo.func("GroundedEffect._apply_discrete_effects")
    target_param = [x for x in f.params if x != f.self_name]
    if not target_param:
        raise AnalysisError("GroundedEffect._apply_discrete_effects: predicate-map parameter not found")
    tp = target_param[0]
    p = L.prov(repo, f)
    g = C.cfg_of(f.node)
    removes, inserts = [], []
    for c in L.calls_in(f.node):
        if isinstance(c.func, ast.Attribute):
            tr = p.trace(c.func.value)
            derived = any(x[0] == f"param:{tp}" for x in tr)
            if derived and c.func.attr in MUT_REMOVE:
                removes.append(c)
            elif derived and c.func.attr in MUT_INSERT:
                inserts.append(c)
    for n in ast.walk(f.node):
        if isinstance(n, ast.Assign):
            for t in n.targets:
                if isinstance(t, ast.Subscript) and any(x[0] == f"param:{tp}" for x in p.trace(t.value)):
                    inserts.append(n)
        if isinstance(n, ast.Delete):
            for t in n.targets:
                if isinstance(t, ast.Subscript) and any(x[0] == f"param:{tp}" for x in p.trace(t.value)):
                    removes.append(n)
    if not removes or not inserts:
        raise AnalysisError(f"_apply_discrete_effects: removal/insertion idiom not recognised (removes={len(removes)}, inserts={len(inserts)})")
    # an `add` on a set obtained with .get(k, set()) that is then stored back counts as an insertion too
    for c in L.calls_in(f.node):
        if isinstance(c.func, ast.Attribute) and c.func.attr in MUT_INSERT and c not in inserts:
            tr = p.trace(c.func.value)
            if any(x[0] == f"param:{tp}" for x in tr):
                inserts.append(c)
    ins_nodes = {g.node_containing(x) if not isinstance(x, ast.stmt) else g.node_of(x) for x in inserts}
    rem_nodes = {g.node_containing(x) if not isinstance(x, ast.stmt) else g.node_of(x) for x in removes}
    r.site(f.qn + " [ordering]")
    after_insert = set()
    for n in ins_nodes:
        after_insert |= C.reachable_from(g, n) - {n}
    late = rem_nodes & (after_insert | (ins_nodes & rem_nodes))
    if not late:
        r.ok({"removals": len(rem_nodes), "insertions": len(ins_nodes), "removal_reachable_after_insertion": False})
    else:
        st = g.stmt[sorted(late)[0]]
        r.fail(Finding("C03.delete_add", f, "order:remove-after-insert", "a removal from the predicate map can execute after an insertion (add-then-delete)", node=st))
    parents = {}
    for par in ast.walk(f.node):
        for ch in ast.iter_child_nodes(par):
            parents[ch] = par

    def enclosing_for(n):
        cur = n
        while cur in parents:
            cur = parents[cur]
            if isinstance(cur, ast.For):
                # outermost for loop over effects: keep climbing to the top-level one
                top = cur
                c2 = cur
                while c2 in parents:
                    c2 = parents[c2]
                    if isinstance(c2, ast.For):
                        top = c2
                return top
        return None

    for kind, muts, want in (("removal", removes, {False}), ("insertion", inserts, {True})):
        for mnode in muts:
            loop = enclosing_for(mnode)
            r.site(L.site(f, mnode, f"{kind} polarity"))
            if loop is None:
                r.fail(Finding("C03.delete_add", f, f"polarity:{kind}", f"{kind} is not inside a loop over the effects; polarity filter not found", node=mnode))
                continue
            allowed = _polarity_allowed(repo, f, loop, mnode)
            if allowed == want:
                r.ok({"kind": kind, "executes_for_is_positive": sorted(allowed)})
            else:
                r.fail(Finding("C03.delete_add", f, f"polarity:{kind}", f"{kind} executes for is_positive in {sorted(allowed)}; expected {sorted(want)}", node=mnode))
    r.require_sites(3)
    return r


def rule_frame(repo: Repo) -> RuleResult:
    r = RuleResult("C03.frame", "a delete effect removes only the fact with the same ground text; an add effect inserts the effect's own fact under its predicate's key",
                   "every other fact is unchanged")
    f = repo.func("GroundedEffect._apply_discrete_effects")
    p = L.prov(repo, f)
    g = C.cfg_of(f.node)
    tp = [x for x in f.params if x != f.self_name][0]
    discards = [c for c in L.calls_in(f.node) if isinstance(c.func, ast.Attribute) and c.func.attr in MUT_REMOVE and
                any(x[0] == f"param:{tp}" for x in p.trace(c.func.value))]
    r.site(f.qn + " [removal guard]")
    if not discards:
        raise AnalysisError("_apply_discrete_effects: removal call not recognised")
    ok = True
    why = ""
    for d in discards:
        # the removal is dominated by an equality test between the ground text of the state fact and of the (positive copy of the) effect
        dn = g.node_containing(d)
        dom = C.dominators(g)
        guards = []
        for n in dom[dn]:
            st = g.stmt[n]
            if isinstance(st, ast.If):
                for cmp_ in ast.walk(st.test):
                    if isinstance(cmp_, ast.Compare) and len(cmp_.ops) == 1 and isinstance(cmp_.ops[0], ast.Eq):
                        a, b = ast.unparse(cmp_.left), ast.unparse(cmp_.comparators[0])
                        if a.endswith(".untyped_representation") and b.endswith(".untyped_representation") and a != b:
                            guards.append((n, cmp_))
        if not guards:
            ok, why = False, "no dominating equality of the two ground texts"
            continue
        # the removed element is the compared state fact, and the branch taken is the 'equal' one
        n, cmp_ = guards[-1]
        seen_eq = C.reach_under(g, lambda e, c=cmp_: True if e is c else None, start=n)
        seen_ne = C.reach_under(g, lambda e, c=cmp_: False if e is c else None, start=n)
        if not (dn in seen_eq and dn not in seen_ne):
            ok, why = False, "the removal is not confined to the branch where the texts are equal"
        arg = d.args[0] if d.args else None
        sides = {ast.unparse(cmp_.left).rsplit(".", 1)[0], ast.unparse(cmp_.comparators[0]).rsplit(".", 1)[0]}
        if arg is None or ast.unparse(arg) not in sides:
            ok, why = False, f"the removed element {unparse(arg) if arg is not None else None} is not the fact that was compared"
        recv_key = [x for x in p.trace(d.func.value, keys=True) if "askey" in x]
        if not any("attr:lifted_untyped_representation" in x for x in recv_key):
            ok, why = False, "the set the fact is removed from is not the one keyed by the effect's lifted predicate text"
    if ok:
        r.ok({"removal": "discard(state_fact) only when state_fact.untyped_representation == positive(effect).untyped_representation"})
    else:
        r.fail(Finding("C03.frame", f, "removal-guard", f"delete effects can remove other facts: {why}", node=discards[0]))
    r.site(f.qn + " [insertion key]")
    stores = [n for n in ast.walk(f.node) if isinstance(n, ast.Assign) and len(n.targets) == 1 and isinstance(n.targets[0], ast.Subscript) and
              any(x[0] == f"param:{tp}" for x in p.trace(n.targets[0].value))]
    adds = [c for c in L.calls_in(f.node) if isinstance(c.func, ast.Attribute) and c.func.attr == "add"]
    ok = bool(adds)
    for a in adds:
        at = p.trace(a.args[0]) if a.args else set()
        ok = ok and all(x[-1] == "elem" or "call:copy" in x for x in at if x[0] == "self") and any(x[0] == "self" and "attr:grounded_discrete_effects" in x for x in at)
    for s_ in stores:
        kt = p.trace(s_.targets[0].slice)
        ok = ok and any(x[-1] == "attr:lifted_untyped_representation" and "attr:grounded_discrete_effects" in x for x in kt)
    gets = [c for c in L.calls_in(f.node) if isinstance(c.func, ast.Attribute) and c.func.attr in ("get", "setdefault") and
            any(x[0] == f"param:{tp}" for x in p.trace(c.func.value))]
    for c in gets:
        kt = p.trace(c.args[0]) if c.args else set()
        ok = ok and any(x[-1] == "attr:lifted_untyped_representation" for x in kt)
    if ok:
        r.ok({"insertion": "map[effect.lifted_untyped_representation] (existing set or a new one) .add(effect)"})
    else:
        r.fail(Finding("C03.frame", f, "insertion-key", "an add effect is not inserted as itself under its own predicate's key"))
    r.require_sites(2)
    return r


def _fluent_env_params(repo: Repo, f: FuncInfo, depth: int = 0) -> Set[str]:
    """parameters of f from which the `state_fluents` argument of set_expression_value derives (one helper level)."""
    p = L.prov(repo, f)
    out: Set[str] = set()
    for c in L.calls_in(f.node):
        cn = callee_name(c)
        if cn == "set_expression_value":
            arg = L.arg_of(c, repo.func_opt("models.numerical_expression::set_expression_value"), "state_fluents", 1)
            if arg is not None:
                for pth in p.trace(arg):
                    if pth[0].startswith("param:"):
                        out.add(pth[0][6:])
        elif depth < 2:
            cat, tg = repo.resolve_call(f, c)
            for _k, t, _c in tg:
                if t is None or t.qn == f.qn or t.mod.short not in (GE, OP):
                    continue
                inner = _fluent_env_params(repo, t, depth + 1)
                for ip in inner:
                    arg = L.arg_of(c, t, ip)
                    if arg is not None:
                        for pth in p.trace(arg):
                            if pth[0].startswith("param:"):
                                out.add(pth[0][6:])
    return out


def rule_prestate_rhs(repo: Repo) -> RuleResult:
    r = RuleResult("C03.prestate_rhs", "numeric right-hand sides are evaluated on the fluents of the state before the action",
                   "PDDL: effects are evaluated in the pre-state; result independent of processing order")
    ga = repo.func("GroundedEffect.apply")
    env_params = _fluent_env_params(repo, ga)
    mutated = "state"
    r.site(ga.qn + " [fluent environment]")
    for fname in ("Operator.apply", "Operator._apply_universal_effects"):
        f = repo.func(fname)
        p = L.prov(repo, f)
        for a in _effect_apply_calls(repo, f):
            r.site(L.site(f, a, "evaluation state"))
            ok = False
            seen = {}
            for ep in env_params:
                arg = L.arg_of(a, ga, ep)
                if arg is None:
                    continue
                tr = p.trace(arg)
                seen[ep] = sorted(tr)[:2]
                if tr and all(x == ("param:previous_state",) for x in tr):
                    ok = True
            if ok:
                r.ok({"call": unparse(a), "evaluation_state": "pre-state parameter"})
            else:
                r.fail(Finding("C03.prestate_rhs", f, "rhs-env:effect.apply",
                               f"numeric right-hand sides of this effect group are evaluated on {seen or 'the state being modified'} "
                               f"(GroundedEffect.apply reads fluents from parameter(s) {sorted(env_params)}); with two firing groups the "
                               f"result depends on set iteration order", node=a))
    # inside one group: all evaluations precede all stores
    p = L.prov(repo, ga)
    g = C.cfg_of(ga.node)
    stores = []
    for n in ast.walk(ga.node):
        if isinstance(n, ast.Assign):
            for t in n.targets:
                if isinstance(t, ast.Subscript) and any("attr:state_fluents" in x for x in p.trace(t.value)):
                    stores.append(n)
        if isinstance(n, ast.Expr) and isinstance(n.value, ast.Call) and isinstance(n.value.func, ast.Attribute) and \
                n.value.func.attr in ("update", "__setitem__", "setdefault") and any("attr:state_fluents" in x for x in p.trace(n.value.func.value)):
            stores.append(n)
    evals = [c for c in L.calls_in(ga.node) if callee_name(c) in ("_update_single_numeric_expression", "set_expression_value", "evaluate_expression")]
    r.site(ga.qn + " [evaluate-then-store]")
    if not stores or not evals:
        raise AnalysisError("GroundedEffect.apply: evaluation / store idiom not recognised")
    st_nodes = {g.node_of(s) for s in stores}
    after = set()
    for s in st_nodes:
        after |= C.reachable_from(g, s) - {s}
    ev_nodes = {g.node_containing(e) for e in evals}
    # an evaluation inside the very statement that stores (e.g. update({...: evaluate(...)})) builds all values before storing
    ev_nodes = {n for n in ev_nodes if not (n in st_nodes and isinstance(g.stmt[n], ast.Expr))}
    if ev_nodes & (after | st_nodes):
        r.fail(Finding("C03.prestate_rhs", ga, "order:eval-after-store", "a numeric effect can be evaluated after another one of the same group was stored", node=stores[0]))
    else:
        r.ok({"evaluations_precede_stores": True})
    r.require_sites(4)
    return r


def rule_universal(repo: Repo) -> RuleResult:
    r = RuleResult("C03.universal", "the universal-effect pass runs on every normal path of apply before it returns",
                   "forall effects are part of the successor")
    f = repo.func("Operator.apply")
    g = C.cfg_of(f.node)
    ucalls = [c for c in L.calls_in(f.node) if callee_name(c) == "_apply_universal_effects"]
    r.site(f.qn)
    if not ucalls:
        r.fail(Finding("C03.universal", f, "missing:_apply_universal_effects", "apply never runs the universal-effect pass"))
        return r
    dom = C.dominators(g)
    un = {g.node_containing(c) for c in ucalls}
    rets = [n for n in g.nodes() if g.kind[n] == "return"]
    bad = [n for n in rets if not (dom[n] & un)]
    if bad:
        r.fail(Finding("C03.universal", f, "path:return-without-universal", "a return of apply is reachable without the universal-effect pass", node=g.stmt[bad[0]]))
    else:
        r.ok({"returns": len(rets), "dominated_by_universal_pass": True})
    # the pass iterates over all problem objects and all universal effects of the action
    u = repo.func("Operator._apply_universal_effects")
    p = L.prov(repo, u)
    loops = [n for n in ast.walk(u.node) if isinstance(n, ast.For)]
    srcs = set()
    for lp in loops:
        for pth in p.trace(lp.iter):
            srcs.add("/".join(s for s in pth if s.startswith(("self", "attr:"))))
    r.site(u.qn + " [ranges]")
    need = {"problem_objects": any("attr:problem_objects" in s for s in srcs),
            "universal_effects": any("attr:lifted_universal_effects" in s or "attr:universal_effects" in s for s in srcs),
            "conditional_effects": any("attr:conditional_effects" in s for s in srcs)}
    if all(need.values()):
        r.ok({"loops_over": sorted(k for k, v in need.items() if v)})
    else:
        r.fail(Finding("C03.universal", u, "range:loops", f"the universal pass does not range over {[k for k, v in need.items() if not v]}"))
    r.require_sites(2)
    return r


def rules(repo: Repo, tier: str) -> List[RuleResult]:
    from . import c06, c07
    out = [rule_antecedent(repo), rule_copy(repo), rule_delete_add(repo), rule_frame(repo), c12.rule_assign(repo, "C03.assign"),
           rule_prestate_rhs(repo), rule_universal(repo)]
    out.append(c06.rule_range(repo, "C03.range", "Operator._apply_universal_effects", ("GroundedEffect",)))
    out.append(c06.rule_conform(repo, "C03.conform", only_funcs=("Operator._apply_universal_effects",), floor=0))
    out.append(c07.rule_escape(repo, "C03.escape"))
    return out
