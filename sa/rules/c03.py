"""C03 -- applying an action yields the PDDL successor state."""
from __future__ import annotations

import ast
import itertools
from typing import List, Optional, Set

from .. import cfg as C
from .. import lib as L
from ..core import AnalysisError, FuncInfo, Repo, unparse
from ..prov import callee_name
from ..report import Finding, RuleResult
from . import c12

EXPLANATION = (
    "C03.antecedent: finite valuation of the guard in Operator.apply / _apply_universal_effects over the atoms "
    "(skip_validation, antecedents_hold(pre-state), is_applicable, allow_inapplicable_actions): an effect group is applied iff its "
    "antecedents hold in the pre-state parameter. C03.copy: def-use provenance shows that every state handed to an effect for "
    "mutation is the .copy() of the pre-state parameter and that this copy is what is returned. C03.delete_add: in the discrete "
    "effect applier no insertion into the predicate map can precede a removal (CFG reachability) and the removal / insertion loops "
    "are filtered by negative / positive polarity. C03.assign: symbolic execution of assign/increase/decrease. C03.prestate_rhs: "
    "the fluent environment used to evaluate numeric right-hand sides derives from the pre-state at the call sites in Operator. "
    "C03.universal: the universal-effect pass dominates the return of apply and receives (pre-state, copy); its type filter is a "
    "subtype test (C06.conform). C03.escape: a fluent object owned by the operator's expression trees is not stored into the "
    "returned state without a copy."
)
UNDECIDED = ("the frame (that nothing else changes) and full successor equality for all states; consistency side conditions of "
             "simultaneously firing effects; correctness of grounding (C20) and of condition evaluation (C02)")

OP = "models.pddl_operator"
GE = "models.grounded_effect"


APPLY = "Operator.apply"          # public anchors; private helpers are analysed in place (sa.inline)
EFFECT_APPLY = "GroundedEffect.apply"


def _apply_matcher(prestate: str, hold_calls=None):
    """atoms of the guard of Operator.apply; `hold_calls`: {id(call): atom} to distinguish antecedent tests by receiver"""
    def m(e):
        if isinstance(e, ast.Name) and e.id.split("__i")[0] == "skip_validation":
            return "skip"
        if isinstance(e, ast.Name) and e.id.split("__i")[0] == "allow_inapplicable_actions":
            return "allow"
        if isinstance(e, ast.Call) and isinstance(e.func, ast.Attribute):
            if e.func.attr == "antecedents_hold":
                if hold_calls is not None:
                    return hold_calls.get(id(e), "hold:other")
                return "hold"
            if e.func.attr == "is_applicable":
                return "applicable"
        return None

    return m


def _effect_apply_calls(repo: Repo, f: FuncInfo) -> List[ast.Call]:
    """calls X.apply(...) that resolve to GroundedEffect.apply"""
    out = []
    for c in L.calls_in(f.node):
        if isinstance(c.func, ast.Attribute) and c.func.attr == "apply":
            cat, tg = repo.resolve_call(f, c)
            if any(t is not None and t.cls == "GroundedEffect" for _k, t, _c in tg):
                out.append(c)
    return out


def _is_copy_of_param(paths, param: str) -> bool:
    good = [p for p in paths if p[0] == f"param:{param}" and "call:copy" in p]
    bad = [p for p in paths if not (p[0] == f"param:{param}" and "call:copy" in p)]
    return bool(good) and not bad


def _apply_anchor(repo: Repo) -> FuncInfo:
    f = L.fn(repo, APPLY)
    if "previous_state" not in f.params:
        raise AnalysisError(f"{APPLY}: pre-state parameter 'previous_state' not found")
    return f


def _kind_of_apply(p, a: ast.Call) -> str:
    """'universal' when the applied effect object was built inside apply (the forall pass), else 'group'"""
    tr = p.trace(a.func.value)
    return "universal" if any(x[0].startswith("fresh:") for x in tr) else "group"


def rule_antecedent(repo: Repo) -> RuleResult:
    r = RuleResult("C03.antecedent", "a conditional / universal effect group is applied iff its antecedents hold in the pre-state",
                   "PDDL conditional effects")
    f = _apply_anchor(repo)
    prestate = "previous_state"
    p = L.prov(repo, f)
    applies = _effect_apply_calls(repo, f)
    holds = [c for c in L.calls_in(f.node) if callee_name(c) == "antecedents_hold" and isinstance(c.func, ast.Attribute)]
    if not applies:
        raise AnalysisError(f"{APPLY}: no call of GroundedEffect.apply found")
    if not holds:
        raise AnalysisError(f"{APPLY}: no call of antecedents_hold found (guard idiom not recognised)")
    for h in holds:
        r.site(L.site(f, h, "antecedent test"))
        tr = p.trace(h.args[0]) if h.args else (p.trace(h.keywords[0].value) if h.keywords else set())
        if tr and all(x == (f"param:{prestate}",) for x in tr):
            r.ok({"function": f.qn, "antecedents_evaluated_on": "pre-state parameter"})
        else:
            r.fail(Finding("C03.antecedent", f, "antecedent-state", f"antecedents are evaluated on {sorted(tr)[:3]}, not on the pre-state parameter", node=h))
        extra = h.args[1] if len(h.args) > 1 else next((k.value for k in h.keywords if k.arg == "allow_inapplicable_actions"), None)
        if extra is not None and not (isinstance(extra, ast.Constant) and extra.value is False):
            r.fail(Finding("C03.antecedent", f, "antecedent-bypass", f"antecedents_hold is called with a bypass flag {unparse(extra)}", node=h))
    recv_of = {id(h): frozenset(p.trace(h.func.value)) for h in holds}
    for a in applies:
        r.site(L.site(f, a, "effect application"))
        mine = frozenset(p.trace(a.func.value))
        hold_atoms = {hid: ("hold" if tr == mine else "hold:other") for hid, tr in recv_of.items()}
        G = L.Guards(f, _apply_matcher(prestate, hold_atoms))
        table = {}
        for skip, hold in itertools.product([False, True], repeat=2):
            val = {"hold": hold, "applicable": True, "allow": False}
            if "skip" in G.atoms_seen:
                val["skip"] = skip
            table[(skip, hold)] = G.reaches_expr(val, a)
        sample = {"function": f.qn, "apply_reachable": {f"skip={s},hold={h}": v for (s, h), v in table.items()}}
        bad = [(s, h) for (s, h), v in table.items() if v != h]
        if "hold" not in hold_atoms.values():
            r.fail(Finding("C03.antecedent", f, "guard:effect.apply", f"{unparse(a, 60)} is not guarded by the antecedents of the effect it applies", node=a), sample)
        elif not bad:
            r.ok(sample)
        else:
            r.fail(Finding("C03.antecedent", f, "guard:effect.apply",
                           f"effect.apply reachability differs from 'antecedents hold' for (skip_validation, hold) in {bad}", node=a), sample)
    r.require_sites(4)
    return r


def rule_copy(repo: Repo) -> RuleResult:
    r = RuleResult("C03.copy", "effects are applied to previous_state.copy(), never to the parameter; the copy is returned",
                   "the successor is a new state")
    f = _apply_anchor(repo)
    p = L.prov(repo, f)
    ga = repo.func(EFFECT_APPLY)
    for a in _effect_apply_calls(repo, f):
        r.site(L.site(f, a, "mutated state argument"))
        st = L.arg_of(a, ga, "state")
        tr = p.trace(st) if st is not None else set()
        if _is_copy_of_param(tr, "previous_state"):
            r.ok({"call": unparse(a), "state": "previous_state.copy()"})
        else:
            role = "mutated-arg:effect.apply" if _kind_of_apply(p, a) == "group" else "args:_apply_universal_effects"
            r.fail(Finding("C03.copy", f, role, f"state handed to effect.apply derives from {sorted(tr)[:3]}", node=a))
    for ret in L.func_returns(f):
        r.site(L.site(f, ret, "return"))
        tr = p.trace(ret.value) if ret.value is not None else set()
        if _is_copy_of_param(tr, "previous_state"):
            r.ok({"returns": "previous_state.copy()"})
        else:
            r.fail(Finding("C03.copy", f, "return", f"apply returns {sorted(tr)[:3]} instead of the copy", node=ret))
    # is_init of the successor is False
    found = False
    for n in ast.walk(f.node):
        if isinstance(n, ast.Assign) and any(isinstance(t, ast.Attribute) and t.attr == "is_init" and _is_copy_of_param(p.trace(t.value), "previous_state")
                                             for t in n.targets):
            found = found or (isinstance(n.value, ast.Constant) and n.value.value is False)
    r.site(f.qn + " [is_init reset]")
    if found:
        r.ok({"is_init": False})
    else:
        r.fail(Finding("C03.copy", f, "is_init", "the successor's is_init flag is not reset to False"))
    r.require_sites(4)
    return r


MUT_REMOVE = {"discard", "remove", "pop", "difference_update", "clear", "popitem"}
MUT_INSERT = {"add", "update", "append", "setdefault", "extend", "insert"}


def _predicate_map_mutations(repo: Repo, f: FuncInfo):
    """(removals, insertions) on the predicate map of the state parameter of GroundedEffect.apply (flattened)"""
    p = L.prov(repo, f)

    def in_map(e) -> bool:
        return any(x[0] == "param:state" and "attr:state_predicates" in x for x in p.trace(e))

    removes, inserts = [], []
    for c in L.calls_in(f.node):
        if isinstance(c.func, ast.Attribute) and in_map(c.func.value):
            if c.func.attr in MUT_REMOVE:
                removes.append(c)
            elif c.func.attr in MUT_INSERT:
                # map.setdefault(k, set()) without a following .add is a lookup, the insertion is the .add on its result
                inserts.append(c)
    for n in ast.walk(f.node):
        if isinstance(n, ast.Assign):
            for t in n.targets:
                if isinstance(t, ast.Subscript) and in_map(t.value):
                    inserts.append(n)
        if isinstance(n, ast.Delete):
            for t in n.targets:
                if isinstance(t, ast.Subscript) and in_map(t.value):
                    removes.append(n)
    return removes, inserts


def _is_lookup_only(c) -> bool:
    """`m.setdefault(k, set())` / `m.get(k, set())`: creates at most an empty entry"""
    return isinstance(c, ast.Call) and isinstance(c.func, ast.Attribute) and c.func.attr == "setdefault" and len(c.args) == 2 \
        and isinstance(c.args[1], ast.Call) and not c.args[1].args and callee_name(c.args[1]) in ("set", "list")


def rule_delete_add(repo: Repo) -> RuleResult:
    r = RuleResult("C03.delete_add", "unconditional effects delete then add; deletions come from negative, additions from positive literals",
                   "PDDL delete-then-add semantics")
    f = L.fn(repo, EFFECT_APPLY)
    if "state" not in f.params:
        raise AnalysisError(f"{EFFECT_APPLY}: parameter 'state' not found")
    g = C.cfg_of(f.node)
    removes, inserts = _predicate_map_mutations(repo, f)
    inserts = [x for x in inserts if not _is_lookup_only(x)]
    if not removes or not inserts:
        raise AnalysisError(f"{EFFECT_APPLY}: removal/insertion idiom on state.state_predicates not recognised (removes={len(removes)}, inserts={len(inserts)})")
    ins_nodes = {g.node_containing(x) if not isinstance(x, ast.stmt) else g.node_of(x) for x in inserts}
    rem_nodes = {g.node_containing(x) if not isinstance(x, ast.stmt) else g.node_of(x) for x in removes}
    r.site(f.qn + " [ordering]")
    after_insert = set()
    for n in ins_nodes:
        after_insert |= C.reachable_from(g, n) - {n}
    late = rem_nodes & (after_insert | (ins_nodes & rem_nodes))
    if not late:
        r.ok({"removals": len(rem_nodes), "insertions": len(ins_nodes), "removal_reachable_after_insertion": False})
    else:
        st = g.stmt[sorted(late)[0]]
        r.fail(Finding("C03.delete_add", f, "order:remove-after-insert", "a removal from the predicate map can execute after an insertion (add-then-delete)", node=st))

    def atom(e):
        if isinstance(e, ast.Attribute) and e.attr == "is_positive" and isinstance(e.ctx, ast.Load):
            return "pos"
        return None

    G = L.Guards(f, atom)
    reach = {pos: G.reach({"pos": pos}) for pos in (False, True)}
    for kind, muts, want in (("removal", removes, {False}), ("insertion", inserts, {True})):
        for mnode in muts:
            r.site(L.site(f, mnode, f"{kind} polarity"))
            anchor = mnode if not isinstance(mnode, ast.stmt) else (mnode.value if isinstance(mnode, ast.Assign) else mnode)
            allowed = set()
            for pos in (False, True):
                if isinstance(anchor, ast.stmt):
                    ok = g.node_of(anchor) in reach[pos]
                else:
                    ok = G.reaches_expr({"pos": pos}, anchor, seen=reach[pos])
                if ok:
                    allowed.add(pos)
            if allowed == want:
                r.ok({"kind": kind, "executes_for_is_positive": sorted(allowed)})
            else:
                r.fail(Finding("C03.delete_add", f, f"polarity:{kind}", f"{kind} executes for is_positive in {sorted(allowed)}; expected {sorted(want)}", node=mnode))
    r.require_sites(3)
    return r


def rule_frame(repo: Repo) -> RuleResult:
    r = RuleResult("C03.frame", "a delete effect removes only the fact with the same ground text; an add effect inserts the effect's own fact under its predicate's key",
                   "every other fact is unchanged")
    f = L.fn(repo, EFFECT_APPLY)
    p = L.prov(repo, f)
    g = C.cfg_of(f.node)
    removes, inserts = _predicate_map_mutations(repo, f)
    discards = [c for c in removes if isinstance(c, ast.Call)]
    r.site(f.qn + " [removal guard]")
    if not discards:
        raise AnalysisError(f"{EFFECT_APPLY}: removal call not recognised")

    def is_state_fact(tr) -> bool:
        # a direct path into the map of the state (content that other statements put into aliases of the map does not count)
        return any(x[0] == "param:state" and "attr:state_predicates" in x and not any(s.startswith("in:") for s in x) for x in tr)

    def is_effect(tr) -> bool:
        return any(x[0] == "self" and "attr:grounded_discrete_effects" in x for x in tr) and not is_state_fact(tr)

    def text_of(e):
        """(kind, receiver paths) when e is <x>.untyped_representation of the effect / of a state fact"""
        tr = p.trace(e)
        pths = {x[:-1] for x in tr if x and x[-1] == "attr:untyped_representation"}
        if not pths or len(pths) != len(tr):
            return None, pths
        if is_state_fact(pths):
            return "fact", pths
        if is_effect(pths):
            return "effect", pths
        return None, pths

    ok = True
    why = ""
    # the equality tests between the ground text of a state fact and that of the effect, wherever they are; the removal must be
    # executed only when one of them held (decided by valuation: flags, sentinels and early exits in between are followed)
    tests: Dict[int, Tuple[ast.Compare, set]] = {}
    for cmp_ in ast.walk(f.node):
        if isinstance(cmp_, ast.Compare) and len(cmp_.ops) == 1 and isinstance(cmp_.ops[0], (ast.Eq, ast.NotEq)):
            try:
                (ka, pa), (kb, pb) = text_of(cmp_.left), text_of(cmp_.comparators[0])
            except KeyError:
                continue
            if {ka, kb} == {"effect", "fact"}:
                tests[id(cmp_)] = (cmp_, pa if ka == "fact" else pb)

    def matcher(e):
        if id(e) in tests:
            return "same" if isinstance(e.ops[0], ast.Eq) else "!same"
        return None

    G = L.Guards(f, matcher)
    seen_eq, seen_ne = G.reach({"same": True}), G.reach({"same": False})
    for d in discards:
        dn = g.node_containing(d)
        if not tests:
            ok, why = False, "no equality test of the ground texts of the state fact and of the effect"
            continue
        fact_paths = set().union(*[fp for _c, fp in tests.values()])
        if not (dn in seen_eq and dn not in seen_ne):
            ok, why = False, "the removal is not confined to the case where the texts are equal"
        arg = d.args[0] if d.args else None
        removed = {x for x in p.trace(arg)} - {("const:None",)} if arg is not None else set()     # discarding None removes nothing
        if arg is None or removed != set(fact_paths):
            ok, why = False, f"the removed element {unparse(arg) if arg is not None else None} is not the fact that was compared"
        recv_key = [x for x in p.trace(d.func.value, keys=True) if "askey" in x]
        if not any("attr:lifted_untyped_representation" in x for x in recv_key):
            ok, why = False, "the set the fact is removed from is not the one keyed by the effect's lifted predicate text"
    if ok:
        r.ok({"removal": "discard(state_fact) only when state_fact.untyped_representation == positive(effect).untyped_representation"})
    else:
        r.fail(Finding("C03.frame", f, "removal-guard", f"delete effects can remove other facts: {why}", node=discards[0]))
    r.site(f.qn + " [insertion key]")
    ok = False
    why = "no insertion of the effect's fact found"
    for x in inserts:
        if isinstance(x, ast.Call) and x.func.attr in ("add", "append") and x.args:
            at = p.trace(x.args[0])
            if not is_effect(at):
                continue
            ok = True
            if not all(pth[-1] == "elem" or "call:copy" in pth for pth in at if pth[0] == "self"):
                ok, why = False, "the inserted object is not the effect's own fact"
            kt = [pth for pth in p.trace(x.func.value, keys=True) if "askey" in pth]
            # the set was obtained by map[k] / map.get(k, ..) / map.setdefault(k, ..): k must be the effect's lifted text
            keyed = any("attr:lifted_untyped_representation" in pth and "attr:grounded_discrete_effects" in pth for pth in kt)
            for c in L.calls_in(f.node):
                if isinstance(c.func, ast.Attribute) and c.func.attr in ("get", "setdefault") and c.args and \
                        any(q[0] == "param:state" and "attr:state_predicates" in q for q in p.trace(c.func.value)):
                    k = p.trace(c.args[0])
                    if any(q[-1] == "attr:lifted_untyped_representation" and "attr:grounded_discrete_effects" in q for q in k):
                        keyed = True
                    else:
                        ok, why = False, "the set an add effect goes into is looked up under another key than its lifted predicate text"
            if not keyed:
                ok, why = False, "the set an add effect goes into is not the one keyed by its lifted predicate text"
    for s_ in inserts:
        if isinstance(s_, ast.Assign):
            kt = p.trace(s_.targets[0].slice)
            if not any(x[-1] == "attr:lifted_untyped_representation" and "attr:grounded_discrete_effects" in x for x in kt):
                ok, why = False, "the predicate map is stored under another key than the effect's lifted predicate text"
    if ok:
        r.ok({"insertion": "map[effect.lifted_untyped_representation] (existing set or a new one) .add(effect)"})
    else:
        r.fail(Finding("C03.frame", f, "insertion-key", f"an add effect is not inserted as itself under its own predicate's key: {why}"))
    r.require_sites(2)
    return r


def _fluent_env_params(repo: Repo, f: FuncInfo, depth: int = 0) -> Set[str]:
    """parameters of f from which the `state_fluents` argument of set_expression_value derives (one helper level)."""
    p = L.prov(repo, f)
    out: Set[str] = set()
    for c in L.calls_in(f.node):
        cn = callee_name(c)
        if cn == "set_expression_value":
            arg = L.arg_of(c, repo.func_opt("models.numerical_expression::set_expression_value"), "state_fluents", 1)
            if arg is not None:
                for pth in p.trace(arg):
                    if pth[0].startswith("param:"):
                        out.add(pth[0][6:])
        elif depth < 2:
            cat, tg = repo.resolve_call(f, c)
            for _k, t, _c in tg:
                if t is None or t.qn == f.qn or t.mod.short not in (GE, OP) or t.name in getattr(f, "inlined_names", ()):
                    continue
                inner = _fluent_env_params(repo, t, depth + 1)
                for ip in inner:
                    arg = L.arg_of(c, t, ip)
                    if arg is not None:
                        for pth in p.trace(arg):
                            if pth[0].startswith("param:"):
                                out.add(pth[0][6:])
    return out


def rule_prestate_rhs(repo: Repo) -> RuleResult:
    r = RuleResult("C03.prestate_rhs", "numeric right-hand sides are evaluated on the fluents of the state before the action",
                   "PDDL: effects are evaluated in the pre-state; result independent of processing order")
    ga = L.fn(repo, EFFECT_APPLY)
    env_params = _fluent_env_params(repo, ga)
    r.site(ga.qn + " [fluent environment]")
    f = _apply_anchor(repo)
    p = L.prov(repo, f)
    for a in _effect_apply_calls(repo, f):
        r.site(L.site(f, a, "evaluation state"))
        ok = False
        seen = {}
        for ep in env_params:
            arg = L.arg_of(a, ga, ep)
            if arg is None:
                continue
            tr = p.trace(arg)
            seen[ep] = sorted(tr)[:2]
            if tr and all(x == ("param:previous_state",) for x in tr):
                ok = True
        if ok:
            r.ok({"call": unparse(a), "evaluation_state": "pre-state parameter"})
        else:
            r.fail(Finding("C03.prestate_rhs", f, "rhs-env:effect.apply",
                           f"numeric right-hand sides of this effect group are evaluated on {seen or 'the state being modified'} "
                           f"(GroundedEffect.apply reads fluents from parameter(s) {sorted(env_params)}); with two firing groups the "
                           f"result depends on set iteration order", node=a))
    # inside one group: all evaluations precede all stores
    p = L.prov(repo, ga)
    g = C.cfg_of(ga.node)

    def fluent_map(e) -> bool:
        return any(x[0] == "param:state" and "attr:state_fluents" in x for x in p.trace(e))

    stores = []
    for n in ast.walk(ga.node):
        if isinstance(n, ast.Assign):
            for t in n.targets:
                if isinstance(t, ast.Subscript) and fluent_map(t.value):
                    stores.append(n)
        if isinstance(n, ast.Expr) and isinstance(n.value, ast.Call) and isinstance(n.value.func, ast.Attribute) and \
                n.value.func.attr in ("update", "__setitem__", "setdefault") and fluent_map(n.value.func.value):
            stores.append(n)
    evals = L.calls_reaching(repo, ga, ("set_expression_value", "evaluate_expression"))
    r.site(ga.qn + " [evaluate-then-store]")
    if not stores or not evals:
        raise AnalysisError(f"{EFFECT_APPLY}: evaluation / store idiom not recognised (stores={len(stores)}, evaluations={len(evals)})")
    st_nodes = {g.node_of(s) for s in stores}
    after = set()
    for s in st_nodes:
        after |= C.reachable_from(g, s) - {s}
    ev_nodes = {g.node_containing(e) for e in evals}
    # an evaluation inside the very statement that stores (e.g. update({...: evaluate(...)})) builds all values before storing
    ev_nodes = {n for n in ev_nodes if not (n in st_nodes and isinstance(g.stmt[n], ast.Expr))}
    if ev_nodes & (after | st_nodes):
        r.fail(Finding("C03.prestate_rhs", ga, "order:eval-after-store", "a numeric effect can be evaluated after another one of the same group was stored", node=stores[0]))
    else:
        r.ok({"evaluations_precede_stores": True})
    r.require_sites(4)
    return r


def _enclosing_loops(f: FuncInfo, node: ast.AST) -> List[ast.For]:
    pm = L.parents_of(f)
    out, cur = [], node
    while cur in pm:
        cur = pm[cur]
        if isinstance(cur, ast.For):
            out.append(cur)
    return out


def rule_universal(repo: Repo) -> RuleResult:
    r = RuleResult("C03.universal", "the universal-effect pass runs on every normal path of apply before it returns",
                   "forall effects are part of the successor")
    f = _apply_anchor(repo)
    g = C.cfg_of(f.node)
    p = L.prov(repo, f)
    r.site(f.qn)
    uni = [a for a in _effect_apply_calls(repo, f) if _kind_of_apply(p, a) == "universal"]
    if not uni:
        r.fail(Finding("C03.universal", f, "missing:_apply_universal_effects", "apply never runs the universal-effect pass"))
        return r
    a = uni[0]
    loops = _enclosing_loops(f, a)
    obj_loops = [lp for lp in loops if any("attr:problem_objects" in x for x in p.trace(lp.iter))]

    def atom(e):
        if isinstance(e, ast.Compare) and len(e.ops) == 1 and isinstance(e.ops[0], (ast.Is, ast.IsNot, ast.Eq, ast.NotEq)) and \
                isinstance(e.comparators[0], ast.Constant) and e.comparators[0].value is None and \
                any("attr:problem_objects" in x for x in p.trace(e.left)):
            return "noobjects" if isinstance(e.ops[0], (ast.Is, ast.Eq)) else "!noobjects"
        m = _apply_matcher("previous_state")(e)
        return m

    if not obj_loops:
        r.fail(Finding("C03.universal", f, "range:loops", "the universal pass does not range over the problem objects"))
        r.site(f.qn + " [ranges]")
        return r
    head = g.node_of(obj_loops[-1])
    G = L.Guards(f, atom)
    bad = None
    for allow, skip in itertools.product([False, True], repeat=2):
        val = {"noobjects": False, "allow": allow, "skip": skip}
        seen = G.reach(val, avoid=[head])
        if g.exit in seen:
            bad = (allow, skip)
    if bad is not None:
        r.fail(Finding("C03.universal", f, "path:return-without-universal",
                       f"apply can return without the universal-effect pass although the problem objects are known (allow_inapplicable_actions, skip_validation = {bad})", node=obj_loops[-1]))
    else:
        r.ok({"every_return_passes_the_loop_over_problem_objects": True})
    # the pass iterates over all problem objects and all universal effects of the action
    srcs = set()
    for lp in loops:
        for pth in p.trace(lp.iter):
            srcs.add("/".join(s for s in pth if s.startswith(("self", "attr:"))))
    r.site(f.qn + " [ranges]")
    need = {"problem_objects": any("attr:problem_objects" in s for s in srcs),
            "universal_effects": any("attr:lifted_universal_effects" in s or "attr:universal_effects" in s for s in srcs),
            "conditional_effects": any("attr:conditional_effects" in s for s in srcs)}
    if all(need.values()):
        r.ok({"loops_over": sorted(k for k, v in need.items() if v)})
    else:
        r.fail(Finding("C03.universal", f, "range:loops", f"the universal pass does not range over {[k for k, v in need.items() if not v]}"))
    r.require_sites(2)
    return r


# classes whose instances the transition keeps in SETS (Operator.grounded_effects, Action.conditional_effects / universal_effects,
# UniversalEffect.conditional_effects): a value equality that ignores a component merges distinct effects, and the one that is dropped
# never fires.  Each line: class -> the components an equality has to distinguish (one field of every group).
SET_MEMBERS = {
    "GroundedEffect": [{"grounded_antecedents"}, {"grounded_discrete_effects", "_lifted_discrete_effects"},
                       {"grounded_numeric_effects", "_lifted_numeric_effects"}],
    "ConditionalEffect": [{"antecedents"}, {"discrete_effects"}, {"numeric_effects"}],
    "UniversalEffect": [{"quantified_parameter"}, {"quantified_type"}, {"conditional_effects"}],
}


def rule_setmembers(repo: Repo, rid: str = "C03.setmembers") -> RuleResult:
    from .. import fields as F
    r = RuleResult(rid, "effect objects collected in sets are distinguished by identity, or by an equality that reads every component (condition and consequents)",
                   "every conditional effect of the action takes part in the transition; two effects with the same consequent but different conditions stay two effects")
    for cname, groups in SET_MEMBERS.items():
        if cname not in repo.classes:
            raise AnalysisError(f"{rid}: class {cname} not found")
        r.site(f"{cname}.__eq__")
        eq = repo.find_method(cname, "__eq__")
        if eq is None:
            r.ok({"class": cname, "equality": "identity"})
            continue
        f = L.fn(repo, f"{eq.cls}.__eq__")
        got = F.slice_fields(repo, f, f.self_name or f.params[0], cname)
        missing = [sorted(gp) for gp in groups if not (gp & got)]
        if missing:
            r.fail(Finding(rid, f, f"coarse-equality:{cname}", f"{cname}.__eq__ does not depend on {missing}: instances that differ only there are equal, "
                           f"and the set that holds them keeps one of them", node=f.node), {"fields_compared": sorted(got)})
        else:
            r.ok({"class": cname, "equality_reads": sorted(got)})
    r.require_sites(3)
    return r


def rules(repo: Repo, tier: str) -> List[RuleResult]:
    from . import c06, c07
    out = [rule_antecedent(repo), rule_copy(repo), rule_delete_add(repo), rule_frame(repo), c12.rule_assign(repo, "C03.assign"),
           rule_prestate_rhs(repo), rule_universal(repo), rule_setmembers(repo)]
    out.append(c06.rule_range(repo, "C03.range", APPLY, ("GroundedEffect",)))
    out.append(c06.rule_conform(repo, "C03.conform", only_funcs=(APPLY,), floor=0))
    out.append(c07.rule_escape(repo, "C03.escape"))
    # every effect group of the schema is instantiated (a `when` group with only numeric consequents is an effect group too)
    from . import c20
    out.append(c20.rule_complete(repo).as_rule("C03.ground.complete"))
    return out
