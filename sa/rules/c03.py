"""C03 -- applying an action yields the PDDL successor state."""
from __future__ import annotations

import ast
import itertools
from typing import Dict, List, Optional, Set, Tuple

from .. import cfg as C
from .. import lib as L
from ..core import AnalysisError, FuncInfo, Repo, is_logging_call, unparse
from ..prov import callee_name
from ..report import Finding, RuleResult
from . import c12

EXPLANATION = (
    "C03.antecedent: finite valuation of the guard in Operator.apply / _apply_universal_effects over the atoms "
    "(skip_validation, antecedents_hold(pre-state), is_applicable, allow_inapplicable_actions): an effect group is applied iff its "
    "antecedents hold in the pre-state parameter. C03.copy: def-use provenance shows that every state handed to an effect for "
    "mutation is the .copy() of the pre-state parameter and that this copy is what is returned. C03.delete_add: in the discrete "
    "effect applier no insertion into the predicate map can precede a removal (CFG reachability) and the removal / insertion loops "
    "are filtered by negative / positive polarity. C03.assign: symbolic execution of assign/increase/decrease. C03.prestate_rhs: "
    "the fluent environment used to evaluate numeric right-hand sides derives from the pre-state at the call sites in Operator. "
    "C03.universal: the universal-effect pass dominates the return of apply and receives (pre-state, copy); its type filter is a "
    "subtype test (C06.conform). C03.escape: a fluent object owned by the operator's expression trees is not stored into the "
    "returned state without a copy. "
    "Necessary conditions added after the mutation campaign (each decided on all paths of the flattened public function): C03.grounded: with "
    "the 'grounded' flag false, no read of the effect groups is reachable around the statements that instantiate them (also with validation "
    "skipped). C03.walk: no turn of a loop over effect groups / objects / universal effects / discrete and numeric effects can end the loop. "
    "C03.noobjects: with the optional object table absent it is not dereferenced. C03.universal.ground: the per-object group of a forall is "
    "grounded, with the positional binding plus quantified parameter -> object, before it is tested / applied. C03.delete.positive: the texts "
    "a delete effect is looked up by are read from a copy made positive. C03.predmap: no lookup of an absent predicate key, the removal is "
    "reached for a present key, a possibly new set of an add effect is stored. C03.evalstate: with a pre-state given the fluent environment of "
    "the right-hand sides is the pre-state's."
)
UNDECIDED = ("the frame (that nothing else changes) and full successor equality for all states; consistency side conditions of "
             "simultaneously firing effects; correctness of grounding (C20) and of condition evaluation (C02)")

OP = "models.pddl_operator"
GE = "models.grounded_effect"


APPLY = "Operator.apply"          # public anchors; private helpers are analysed in place (sa.inline)
EFFECT_APPLY = "GroundedEffect.apply"


def _apply_matcher(prestate: str, hold_calls=None):
    """atoms of the guard of Operator.apply; `hold_calls`: {id(call): atom} to distinguish antecedent tests by receiver"""
    def m(e):
        if isinstance(e, ast.Name) and e.id.split("__i")[0] == "skip_validation":
            return "skip"
        if isinstance(e, ast.Name) and e.id.split("__i")[0] == "allow_inapplicable_actions":
            return "allow"
        if isinstance(e, ast.Call) and isinstance(e.func, ast.Attribute):
            if e.func.attr == "antecedents_hold":
                if hold_calls is not None:
                    return hold_calls.get(id(e), "hold:other")
                return "hold"
            if e.func.attr == "is_applicable":
                return "applicable"
        return None

    return m


def _effect_apply_calls(repo: Repo, f: FuncInfo) -> List[ast.Call]:
    """calls X.apply(...) that resolve to GroundedEffect.apply"""
    out = []
    for c in L.calls_in(f.node):
        if isinstance(c.func, ast.Attribute) and c.func.attr == "apply":
            cat, tg = repo.resolve_call(f, c)
            if any(t is not None and t.cls == "GroundedEffect" for _k, t, _c in tg):
                out.append(c)
    return out


def _is_copy_of_param(paths, param: str) -> bool:
    good = [p for p in paths if p[0] == f"param:{param}" and "call:copy" in p]
    bad = [p for p in paths if not (p[0] == f"param:{param}" and "call:copy" in p)]
    return bool(good) and not bad


def _apply_anchor(repo: Repo) -> FuncInfo:
    f = L.fn(repo, APPLY)
    if "previous_state" not in f.params:
        raise AnalysisError(f"{APPLY}: pre-state parameter 'previous_state' not found")
    return f


def _kind_of_apply(p, a: ast.Call) -> str:
    """'universal' when the applied effect object was built inside apply (the forall pass), else 'group'"""
    tr = p.trace(a.func.value)
    return "universal" if any(x[0].startswith("fresh:") for x in tr) else "group"


def _same_object(paths) -> frozenset:
    """provenance of an object up to the sequences it was moved through: an element of `[e for e in xs if ..]` / of a list filled by
    append is the element of xs"""
    out = set()
    for x in paths:
        if len(x) == 1 and x[0] in ("fresh:comp", "fresh:list"):
            continue
        y = []
        for st in x:
            if st == "elem" and y and (y[-1] == "in:elt" or y[-1].startswith("in:append@")):
                y.pop()
                continue
            y.append(st)
        out.add(tuple(y))
    return frozenset(out)


def rule_antecedent(repo: Repo) -> RuleResult:
    r = RuleResult("C03.antecedent", "a conditional / universal effect group is applied iff its antecedents hold in the pre-state",
                   "PDDL conditional effects")
    f = _apply_anchor(repo)
    prestate = "previous_state"
    p = L.prov(repo, f)
    applies = _effect_apply_calls(repo, f)
    holds = [c for c in L.calls_in(f.node) if callee_name(c) == "antecedents_hold" and isinstance(c.func, ast.Attribute)]
    if not applies:
        raise AnalysisError(f"{APPLY}: no call of GroundedEffect.apply found")
    if not holds:
        raise AnalysisError(f"{APPLY}: no call of antecedents_hold found (guard idiom not recognised)")
    for h in holds:
        r.site(L.site(f, h, "antecedent test"))
        tr = p.trace(h.args[0]) if h.args else (p.trace(h.keywords[0].value) if h.keywords else set())
        if tr and all(x == (f"param:{prestate}",) for x in tr):
            r.ok({"function": f.qn, "antecedents_evaluated_on": "pre-state parameter"})
        else:
            r.fail(Finding("C03.antecedent", f, "antecedent-state", f"antecedents are evaluated on {sorted(tr)[:3]}, not on the pre-state parameter", node=h))
        extra = h.args[1] if len(h.args) > 1 else next((k.value for k in h.keywords if k.arg == "allow_inapplicable_actions"), None)
        if extra is not None and not (isinstance(extra, ast.Constant) and extra.value is False):
            r.fail(Finding("C03.antecedent", f, "antecedent-bypass", f"antecedents_hold is called with a bypass flag {unparse(extra)}", node=h))
    recv_of = {id(h): _same_object(p.trace(h.func.value)) for h in holds}
    for a in applies:
        r.site(L.site(f, a, "effect application"))
        mine = _same_object(p.trace(a.func.value))
        hold_atoms = {hid: ("hold" if tr == mine else "hold:other") for hid, tr in recv_of.items()}
        G = L.Guards(f, _apply_matcher(prestate, hold_atoms))
        table = {}
        for skip, hold in itertools.product([False, True], repeat=2):
            val = {"hold": hold, "applicable": True, "allow": False}
            if "skip" in G.atoms_seen:
                val["skip"] = skip
            table[(skip, hold)] = G.reaches_expr(val, a)
        sample = {"function": f.qn, "apply_reachable": {f"skip={s},hold={h}": v for (s, h), v in table.items()}}
        bad = [(s, h) for (s, h), v in table.items() if v != h]
        if "hold" not in hold_atoms.values():
            r.fail(Finding("C03.antecedent", f, "guard:effect.apply", f"{unparse(a, 60)} is not guarded by the antecedents of the effect it applies", node=a), sample)
        elif not bad:
            r.ok(sample)
        else:
            r.fail(Finding("C03.antecedent", f, "guard:effect.apply",
                           f"effect.apply reachability differs from 'antecedents hold' for (skip_validation, hold) in {bad}", node=a), sample)
    r.require_sites(4)
    return r


def rule_copy(repo: Repo) -> RuleResult:
    r = RuleResult("C03.copy", "effects are applied to previous_state.copy(), never to the parameter; the copy is returned",
                   "the successor is a new state")
    f = _apply_anchor(repo)
    p = L.prov(repo, f)
    ga = repo.func(EFFECT_APPLY)
    for a in _effect_apply_calls(repo, f):
        r.site(L.site(f, a, "mutated state argument"))
        st = L.arg_of(a, ga, "state")
        tr = p.trace(st) if st is not None else set()
        if _is_copy_of_param(tr, "previous_state"):
            r.ok({"call": unparse(a), "state": "previous_state.copy()"})
        else:
            role = "mutated-arg:effect.apply" if _kind_of_apply(p, a) == "group" else "args:_apply_universal_effects"
            r.fail(Finding("C03.copy", f, role, f"state handed to effect.apply derives from {sorted(tr)[:3]}", node=a))
    for ret in L.func_returns(f):
        r.site(L.site(f, ret, "return"))
        tr = p.trace(ret.value) if ret.value is not None else set()
        if _is_copy_of_param(tr, "previous_state"):
            r.ok({"returns": "previous_state.copy()"})
        else:
            r.fail(Finding("C03.copy", f, "return", f"apply returns {sorted(tr)[:3]} instead of the copy", node=ret))
    # is_init of the successor is False
    found = False
    for n in ast.walk(f.node):
        if isinstance(n, ast.Assign) and any(isinstance(t, ast.Attribute) and t.attr == "is_init" and _is_copy_of_param(p.trace(t.value), "previous_state")
                                             for t in n.targets):
            found = found or (isinstance(n.value, ast.Constant) and n.value.value is False)
    r.site(f.qn + " [is_init reset]")
    if found:
        r.ok({"is_init": False})
    else:
        r.fail(Finding("C03.copy", f, "is_init", "the successor's is_init flag is not reset to False"))
    r.require_sites(4)
    return r


MUT_REMOVE = {"discard", "remove", "pop", "difference_update", "clear", "popitem"}
MUT_INSERT = {"add", "update", "append", "setdefault", "extend", "insert"}


def _predicate_map_mutations(repo: Repo, f: FuncInfo):
    """(removals, insertions) on the predicate map of the state parameter of GroundedEffect.apply (flattened)"""
    p = L.prov(repo, f)

    def in_map(e) -> bool:
        return any(x[0] == "param:state" and "attr:state_predicates" in x for x in p.trace(e))

    removes, inserts = [], []
    for c in L.calls_in(f.node):
        if isinstance(c.func, ast.Attribute) and in_map(c.func.value):
            if c.func.attr in MUT_REMOVE:
                removes.append(c)
            elif c.func.attr in MUT_INSERT:
                # map.setdefault(k, set()) without a following .add is a lookup, the insertion is the .add on its result
                inserts.append(c)
    for n in ast.walk(f.node):
        if isinstance(n, ast.Assign):
            for t in n.targets:
                if isinstance(t, ast.Subscript) and in_map(t.value):
                    inserts.append(n)
        if isinstance(n, ast.Delete):
            for t in n.targets:
                if isinstance(t, ast.Subscript) and in_map(t.value):
                    removes.append(n)
    return removes, inserts


def _is_lookup_only(c) -> bool:
    """`m.setdefault(k, set())` / `m.get(k, set())`: creates at most an empty entry"""
    return isinstance(c, ast.Call) and isinstance(c.func, ast.Attribute) and c.func.attr == "setdefault" and len(c.args) == 2 \
        and isinstance(c.args[1], ast.Call) and not c.args[1].args and callee_name(c.args[1]) in ("set", "list")


def rule_delete_add(repo: Repo) -> RuleResult:
    r = RuleResult("C03.delete_add", "unconditional effects delete then add; deletions come from negative, additions from positive literals",
                   "PDDL delete-then-add semantics")
    f = L.fn(repo, EFFECT_APPLY)
    if "state" not in f.params:
        raise AnalysisError(f"{EFFECT_APPLY}: parameter 'state' not found")
    g = C.cfg_of(f.node)
    removes, inserts = _predicate_map_mutations(repo, f)
    inserts = [x for x in inserts if not _is_lookup_only(x)]
    if not removes or not inserts:
        raise AnalysisError(f"{EFFECT_APPLY}: removal/insertion idiom on state.state_predicates not recognised (removes={len(removes)}, inserts={len(inserts)})")
    ins_nodes = {g.node_containing(x) if not isinstance(x, ast.stmt) else g.node_of(x) for x in inserts}
    rem_nodes = {g.node_containing(x) if not isinstance(x, ast.stmt) else g.node_of(x) for x in removes}
    r.site(f.qn + " [ordering]")
    after_insert = set()
    for n in ins_nodes:
        after_insert |= C.reachable_from(g, n) - {n}
    late = rem_nodes & (after_insert | (ins_nodes & rem_nodes))
    if not late:
        r.ok({"removals": len(rem_nodes), "insertions": len(ins_nodes), "removal_reachable_after_insertion": False})
    else:
        st = g.stmt[sorted(late)[0]]
        r.fail(Finding("C03.delete_add", f, "order:remove-after-insert", "a removal from the predicate map can execute after an insertion (add-then-delete)", node=st))

    def atom(e):
        if isinstance(e, ast.Attribute) and e.attr == "is_positive" and isinstance(e.ctx, ast.Load):
            return "pos"
        return None

    G = L.Guards(f, atom)
    reach = {pos: G.reach({"pos": pos}) for pos in (False, True)}
    for kind, muts, want in (("removal", removes, {False}), ("insertion", inserts, {True})):
        for mnode in muts:
            r.site(L.site(f, mnode, f"{kind} polarity"))
            anchor = mnode if not isinstance(mnode, ast.stmt) else (mnode.value if isinstance(mnode, ast.Assign) else mnode)
            allowed = set()
            for pos in (False, True):
                if isinstance(anchor, ast.stmt):
                    ok = g.node_of(anchor) in reach[pos]
                else:
                    ok = G.reaches_expr({"pos": pos}, anchor, seen=reach[pos])
                if ok:
                    allowed.add(pos)
            if allowed == want:
                r.ok({"kind": kind, "executes_for_is_positive": sorted(allowed)})
            else:
                r.fail(Finding("C03.delete_add", f, f"polarity:{kind}", f"{kind} executes for is_positive in {sorted(allowed)}; expected {sorted(want)}", node=mnode))
    r.require_sites(3)
    return r


def rule_frame(repo: Repo) -> RuleResult:
    r = RuleResult("C03.frame", "a delete effect removes only the fact with the same ground text; an add effect inserts the effect's own fact under its predicate's key",
                   "every other fact is unchanged")
    f = L.fn(repo, EFFECT_APPLY)
    p = L.prov(repo, f)
    g = C.cfg_of(f.node)
    removes, inserts = _predicate_map_mutations(repo, f)
    discards = [c for c in removes if isinstance(c, ast.Call)]
    r.site(f.qn + " [removal guard]")
    if not discards:
        raise AnalysisError(f"{EFFECT_APPLY}: removal call not recognised")

    def is_state_fact(tr) -> bool:
        # a direct path into the map of the state (content that other statements put into aliases of the map does not count)
        return any(x[0] == "param:state" and "attr:state_predicates" in x and not any(s.startswith("in:") for s in x) for x in tr)

    def is_effect(tr) -> bool:
        return any(x[0] == "self" and "attr:grounded_discrete_effects" in x for x in tr) and not is_state_fact(tr)

    def text_of(e):
        """(kind, receiver paths) when e is <x>.untyped_representation of the effect / of a state fact"""
        tr = p.trace(e)
        pths = {x[:-1] for x in tr if x and x[-1] == "attr:untyped_representation"}
        if not pths or len(pths) != len(tr):
            return None, pths
        if is_state_fact(pths):
            return "fact", pths
        if is_effect(pths):
            return "effect", pths
        return None, pths

    ok = True
    why = ""
    # the equality tests between the ground text of a state fact and that of the effect, wherever they are; the removal must be
    # executed only when one of them held (decided by valuation: flags, sentinels and early exits in between are followed)
    tests: Dict[int, Tuple[ast.Compare, set]] = {}
    for cmp_ in ast.walk(f.node):
        if isinstance(cmp_, ast.Compare) and len(cmp_.ops) == 1 and isinstance(cmp_.ops[0], (ast.Eq, ast.NotEq)):
            try:
                (ka, pa), (kb, pb) = text_of(cmp_.left), text_of(cmp_.comparators[0])
            except KeyError:
                continue
            if {ka, kb} == {"effect", "fact"}:
                tests[id(cmp_)] = (cmp_, pa if ka == "fact" else pb)

    def matcher(e):
        if id(e) in tests:
            return "same" if isinstance(e.ops[0], ast.Eq) else "!same"
        return None

    G = L.Guards(f, matcher)
    seen_eq, seen_ne = G.reach({"same": True}), G.reach({"same": False})
    for d in discards:
        dn = g.node_containing(d)
        if not tests:
            ok, why = False, "no equality test of the ground texts of the state fact and of the effect"
            continue
        fact_paths = set().union(*[fp for _c, fp in tests.values()])
        if not (dn in seen_eq and dn not in seen_ne):
            ok, why = False, "the removal is not confined to the case where the texts are equal"
        arg = d.args[0] if d.args else None
        removed = {x for x in p.trace(arg)} - {("const:None",)} if arg is not None else set()     # discarding None removes nothing
        if arg is None or removed != set(fact_paths):
            ok, why = False, f"the removed element {unparse(arg) if arg is not None else None} is not the fact that was compared"
        recv_key = [x for x in p.trace(d.func.value, keys=True) if "askey" in x]
        if not any("attr:lifted_untyped_representation" in x for x in recv_key):
            ok, why = False, "the set the fact is removed from is not the one keyed by the effect's lifted predicate text"
    if ok:
        r.ok({"removal": "discard(state_fact) only when state_fact.untyped_representation == positive(effect).untyped_representation"})
    else:
        r.fail(Finding("C03.frame", f, "removal-guard", f"delete effects can remove other facts: {why}", node=discards[0]))
    r.site(f.qn + " [insertion key]")
    ok = False
    why = "no insertion of the effect's fact found"
    for x in inserts:
        if isinstance(x, ast.Call) and x.func.attr in ("add", "append") and x.args:
            at = p.trace(x.args[0])
            if not is_effect(at):
                continue
            ok = True
            if not all(pth[-1] == "elem" or "call:copy" in pth for pth in at if pth[0] == "self"):
                ok, why = False, "the inserted object is not the effect's own fact"
            kt = [pth for pth in p.trace(x.func.value, keys=True) if "askey" in pth]
            # the set was obtained by map[k] / map.get(k, ..) / map.setdefault(k, ..): k must be the effect's lifted text
            keyed = any("attr:lifted_untyped_representation" in pth and "attr:grounded_discrete_effects" in pth for pth in kt)
            for c in L.calls_in(f.node):
                if isinstance(c.func, ast.Attribute) and c.func.attr in ("get", "setdefault") and c.args and \
                        any(q[0] == "param:state" and "attr:state_predicates" in q for q in p.trace(c.func.value)):
                    k = p.trace(c.args[0])
                    if any(q[-1] == "attr:lifted_untyped_representation" and "attr:grounded_discrete_effects" in q for q in k):
                        keyed = True
                    else:
                        ok, why = False, "the set an add effect goes into is looked up under another key than its lifted predicate text"
            if not keyed:
                ok, why = False, "the set an add effect goes into is not the one keyed by its lifted predicate text"
    for s_ in inserts:
        if isinstance(s_, ast.Assign):
            kt = p.trace(s_.targets[0].slice)
            if not any(x[-1] == "attr:lifted_untyped_representation" and "attr:grounded_discrete_effects" in x for x in kt):
                ok, why = False, "the predicate map is stored under another key than the effect's lifted predicate text"
    if ok:
        r.ok({"insertion": "map[effect.lifted_untyped_representation] (existing set or a new one) .add(effect)"})
    else:
        r.fail(Finding("C03.frame", f, "insertion-key", f"an add effect is not inserted as itself under its own predicate's key: {why}"))
    r.require_sites(2)
    return r


def _fluent_env_params(repo: Repo, f: FuncInfo, depth: int = 0) -> Set[str]:
    """parameters of f from which the `state_fluents` argument of set_expression_value derives (one helper level)."""
    p = L.prov(repo, f)
    out: Set[str] = set()
    for c in L.calls_in(f.node):
        cn = callee_name(c)
        if cn == "set_expression_value":
            arg = L.arg_of(c, repo.func_opt("models.numerical_expression::set_expression_value"), "state_fluents", 1)
            if arg is not None:
                for pth in p.trace(arg):
                    if pth[0].startswith("param:"):
                        out.add(pth[0][6:])
        elif depth < 2:
            cat, tg = repo.resolve_call(f, c)
            for _k, t, _c in tg:
                if t is None or t.qn == f.qn or t.mod.short not in (GE, OP) or t.name in getattr(f, "inlined_names", ()):
                    continue
                inner = _fluent_env_params(repo, t, depth + 1)
                for ip in inner:
                    arg = L.arg_of(c, t, ip)
                    if arg is not None:
                        for pth in p.trace(arg):
                            if pth[0].startswith("param:"):
                                out.add(pth[0][6:])
    return out


def rule_prestate_rhs(repo: Repo) -> RuleResult:
    r = RuleResult("C03.prestate_rhs", "numeric right-hand sides are evaluated on the fluents of the state before the action",
                   "PDDL: effects are evaluated in the pre-state; result independent of processing order")
    ga = L.fn(repo, EFFECT_APPLY)
    env_params = _fluent_env_params(repo, ga)
    r.site(ga.qn + " [fluent environment]")
    f = _apply_anchor(repo)
    p = L.prov(repo, f)
    for a in _effect_apply_calls(repo, f):
        r.site(L.site(f, a, "evaluation state"))
        ok = False
        seen = {}
        for ep in env_params:
            arg = L.arg_of(a, ga, ep)
            if arg is None:
                continue
            tr = p.trace(arg)
            seen[ep] = sorted(tr)[:2]
            if tr and all(x == ("param:previous_state",) for x in tr):
                ok = True
        if ok:
            r.ok({"call": unparse(a), "evaluation_state": "pre-state parameter"})
        else:
            r.fail(Finding("C03.prestate_rhs", f, "rhs-env:effect.apply",
                           f"numeric right-hand sides of this effect group are evaluated on {seen or 'the state being modified'} "
                           f"(GroundedEffect.apply reads fluents from parameter(s) {sorted(env_params)}); with two firing groups the "
                           f"result depends on set iteration order", node=a))
    # inside one group: all evaluations precede all stores
    p = L.prov(repo, ga)
    g = C.cfg_of(ga.node)

    def fluent_map(e) -> bool:
        return any(x[0] == "param:state" and "attr:state_fluents" in x for x in p.trace(e))

    stores = []
    for n in ast.walk(ga.node):
        if isinstance(n, ast.Assign):
            for t in n.targets:
                if isinstance(t, ast.Subscript) and fluent_map(t.value):
                    stores.append(n)
        if isinstance(n, ast.Expr) and isinstance(n.value, ast.Call) and isinstance(n.value.func, ast.Attribute) and \
                n.value.func.attr in ("update", "__setitem__", "setdefault") and fluent_map(n.value.func.value):
            stores.append(n)
    evals = L.calls_reaching(repo, ga, ("set_expression_value", "evaluate_expression"))
    r.site(ga.qn + " [evaluate-then-store]")
    if not stores or not evals:
        raise AnalysisError(f"{EFFECT_APPLY}: evaluation / store idiom not recognised (stores={len(stores)}, evaluations={len(evals)})")
    st_nodes = {g.node_of(s) for s in stores}
    after = set()
    for s in st_nodes:
        after |= C.reachable_from(g, s) - {s}
    ev_nodes = {g.node_containing(e) for e in evals}
    # an evaluation inside the very statement that stores (e.g. update({...: evaluate(...)})) builds all values before storing
    ev_nodes = {n for n in ev_nodes if not (n in st_nodes and isinstance(g.stmt[n], ast.Expr))}
    if ev_nodes & (after | st_nodes):
        r.fail(Finding("C03.prestate_rhs", ga, "order:eval-after-store", "a numeric effect can be evaluated after another one of the same group was stored", node=stores[0]))
    else:
        r.ok({"evaluations_precede_stores": True})
    r.require_sites(4)
    return r


def _enclosing_loops(f: FuncInfo, node: ast.AST) -> List[ast.For]:
    pm = L.parents_of(f)
    out, cur = [], node
    while cur in pm:
        cur = pm[cur]
        if isinstance(cur, ast.For):
            out.append(cur)
    return out


def rule_universal(repo: Repo) -> RuleResult:
    r = RuleResult("C03.universal", "the universal-effect pass runs on every normal path of apply before it returns",
                   "forall effects are part of the successor")
    f = _apply_anchor(repo)
    g = C.cfg_of(f.node)
    p = L.prov(repo, f)
    r.site(f.qn)
    uni = [a for a in _effect_apply_calls(repo, f) if _kind_of_apply(p, a) == "universal"]
    if not uni:
        r.fail(Finding("C03.universal", f, "missing:_apply_universal_effects", "apply never runs the universal-effect pass"))
        return r
    a = uni[0]
    loops = _enclosing_loops(f, a)
    obj_loops = [lp for lp in loops if any("attr:problem_objects" in x for x in p.trace(lp.iter))]

    def atom(e):
        if isinstance(e, ast.Compare) and len(e.ops) == 1 and isinstance(e.ops[0], (ast.Is, ast.IsNot, ast.Eq, ast.NotEq)) and \
                isinstance(e.comparators[0], ast.Constant) and e.comparators[0].value is None and \
                any("attr:problem_objects" in x for x in p.trace(e.left)):
            return "noobjects" if isinstance(e.ops[0], (ast.Is, ast.Eq)) else "!noobjects"
        if isinstance(e, (ast.Name, ast.Attribute)) and isinstance(e.ctx, ast.Load) and not (isinstance(e, ast.Name) and e.id == f.self_name):
            try:
                tr = p.trace(e)
            except KeyError:
                tr = set()
            if tr and all(x == ("self", "attr:problem_objects") for x in tr):
                return "!noobjects"      # truth value of the object table (an empty table has nothing to range over)
        m = _apply_matcher("previous_state")(e)
        return m

    if not obj_loops:
        r.fail(Finding("C03.universal", f, "range:loops", "the universal pass does not range over the problem objects"))
        r.site(f.qn + " [ranges]")
        return r
    head = g.node_of(obj_loops[-1])
    G = L.Guards(f, atom)
    bad = None
    for allow, skip in itertools.product([False, True], repeat=2):
        val = {"noobjects": False, "allow": allow, "skip": skip}
        seen = G.reach(val, avoid=[head])
        if g.exit in seen:
            bad = (allow, skip)
    if bad is not None:
        r.fail(Finding("C03.universal", f, "path:return-without-universal",
                       f"apply can return without the universal-effect pass although the problem objects are known (allow_inapplicable_actions, skip_validation = {bad})", node=obj_loops[-1]))
    else:
        r.ok({"every_return_passes_the_loop_over_problem_objects": True})
    # the pass iterates over all problem objects and all universal effects of the action
    srcs = set()
    for lp in loops:
        for pth in p.trace(lp.iter):
            srcs.add("/".join(s for s in pth if s.startswith(("self", "attr:"))))
    r.site(f.qn + " [ranges]")
    need = {"problem_objects": any("attr:problem_objects" in s for s in srcs),
            "universal_effects": any("attr:lifted_universal_effects" in s or "attr:universal_effects" in s for s in srcs),
            "conditional_effects": any("attr:conditional_effects" in s for s in srcs)}
    if all(need.values()):
        r.ok({"loops_over": sorted(k for k, v in need.items() if v)})
    else:
        r.fail(Finding("C03.universal", f, "range:loops", f"the universal pass does not range over {[k for k, v in need.items() if not v]}"))
    r.require_sites(2)
    return r


# classes whose instances the transition keeps in SETS (Operator.grounded_effects, Action.conditional_effects / universal_effects,
# UniversalEffect.conditional_effects): a value equality that ignores a component merges distinct effects, and the one that is dropped
# never fires.  Each line: class -> the components an equality has to distinguish (one field of every group).
SET_MEMBERS = {
    "GroundedEffect": [{"grounded_antecedents"}, {"grounded_discrete_effects", "_lifted_discrete_effects"},
                       {"grounded_numeric_effects", "_lifted_numeric_effects"}],
    "ConditionalEffect": [{"antecedents"}, {"discrete_effects"}, {"numeric_effects"}],
    "UniversalEffect": [{"quantified_parameter"}, {"quantified_type"}, {"conditional_effects"}],
}


def rule_setmembers(repo: Repo, rid: str = "C03.setmembers") -> RuleResult:
    from .. import fields as F
    r = RuleResult(rid, "effect objects collected in sets are distinguished by identity, or by an equality that reads every component (condition and consequents)",
                   "every conditional effect of the action takes part in the transition; two effects with the same consequent but different conditions stay two effects")
    for cname, groups in SET_MEMBERS.items():
        if cname not in repo.classes:
            raise AnalysisError(f"{rid}: class {cname} not found")
        r.site(f"{cname}.__eq__")
        eq = repo.find_method(cname, "__eq__")
        if eq is None:
            r.ok({"class": cname, "equality": "identity"})
            continue
        f = L.fn(repo, f"{eq.cls}.__eq__")
        got = F.slice_fields(repo, f, f.self_name or f.params[0], cname)
        missing = [sorted(gp) for gp in groups if not (gp & got)]
        if missing:
            r.fail(Finding(rid, f, f"coarse-equality:{cname}", f"{cname}.__eq__ does not depend on {missing}: instances that differ only there are equal, "
                           f"and the set that holds them keeps one of them", node=f.node), {"fields_compared": sorted(got)})
        else:
            r.ok({"class": cname, "equality_reads": sorted(got)})
    r.require_sites(3)
    return r



# ------------------------------------------------------------------------------------------------ necessary conditions added in round 5
# (detection gaps found by the mutation campaign: each clause states what every correct implementation has to do on ALL paths)

GROUPS_FIELD = "grounded_effects"      # anchor state of the property: the effect groups that Operator.ground instantiates

# collections the transition has to walk completely (attribute of self -> semantic name used in the role of a finding)
OPERATOR_WALKS = {"grounded_effects": "effect-groups", "problem_objects": "problem-objects", "lifted_universal_effects": "universal-effects",
                  "universal_effects": "universal-effects", "conditional_effects": "quantified-conditional-effects"}
EFFECT_WALKS = {"grounded_discrete_effects": "discrete-effects", "grounded_numeric_effects": "numeric-effects"}
# steps that keep a value "the collection itself / its elements in another container" (no selection of one element, no field of an element)
_WALK_STEPS = ("elem", "in:elt", "call:values", "call:items", "call:copy")
_WALK_PREFIXES = ("in:append@", "arg0:list", "arg0:tuple", "arg0:sorted", "arg0:set", "arg0:frozenset", "arg0:reversed", "arg0:iter", "arg0:enumerate")

# the parameter map of the forall pass: action parameters paired with the call arguments position by position (same oracle as C20.zip)
MAP_KEY = ("self", "attr:action", "attr:signature", "zip0")
MAP_VALUE = ("self", "attr:grounded_call_objects", "zip1")

# texts of a grounded literal that depend on its polarity ('(not (p a))' for a negative literal): a delete effect is looked up in the
# state by the text of its POSITIVE form
POLARITY_TEXTS = ("untyped_representation", "lifted_untyped_representation")


def _no_atoms(_e):
    return None


def _is_self_attr(e: ast.AST, f: FuncInfo, attr: Optional[str] = None) -> bool:
    return isinstance(e, ast.Attribute) and isinstance(e.value, ast.Name) and e.value.id == f.self_name and (attr is None or e.attr == attr)


def _surely_evaluated(G: "L.Guards", val: dict, seen: Set[int], expr: ast.AST) -> bool:
    """when the statement that contains `expr` is executed under the valuation, is `expr` evaluated for sure (not behind an operand of
    and / or / a conditional expression that the valuation leaves open or decides the other way)?"""
    pm = L.parents_of(G.f)
    cur = expr
    while cur in pm and not isinstance(cur, ast.stmt):
        par = pm[cur]
        if isinstance(par, ast.IfExp) and cur is not par.test:
            if G.value(val, par.test, seen=seen) is not (cur is par.body):
                return False
        if isinstance(par, ast.BoolOp):
            i = next(k for k, v in enumerate(par.values) if v is cur)
            for prev in par.values[:i]:
                if G.value(val, prev, seen=seen) is not isinstance(par.op, ast.And):
                    return False
        if isinstance(par, (ast.ListComp, ast.SetComp, ast.GeneratorExp, ast.DictComp, ast.Lambda)):
            return False
        cur = par
    return True


def _ground_flags(repo: Repo, cls: str) -> Set[str]:
    """boolean fields of the operator that say 'the effect groups are instantiated': set to False by the constructor and to True by a
    method that stores the groups"""
    def stores(fi: Optional[FuncInfo], value: Optional[bool]) -> Set[str]:
        """fields of self the function assigns (value None: anything; else that boolean constant)"""
        out = set()
        if fi is None:
            return out
        for n in ast.walk(fi.node):
            if isinstance(n, (ast.Assign, ast.AnnAssign)) and n.value is not None and \
                    (value is None or (isinstance(n.value, ast.Constant) and n.value.value is value)):
                out |= {t.attr for t in (n.targets if isinstance(n, ast.Assign) else [n.target]) if _is_self_attr(t, fi)}
        return out

    lowered = stores(repo.find_method(cls, "__init__"), False)
    raised: Set[str] = set()
    for c in repo.mro(cls):
        for name in repo.classes[c].methods:
            m = repo.find_method(cls, name)
            if m is None or name == "__init__":
                continue
            if any(isinstance(n, ast.Assign) and any(_is_self_attr(t, m, GROUPS_FIELD) for t in n.targets) for n in ast.walk(m.node)):
                raised |= stores(m, None) - {GROUPS_FIELD}
    return lowered & raised


def _flag_matcher(f: FuncInfo, flags: Set[str], base=None):
    def m(e):
        if _is_self_attr(e, f) and e.attr in flags and isinstance(e.ctx, ast.Load):
            return "grounded"
        return base(e) if base is not None else None
    return m


def _grounding_nodes(repo: Repo, f: FuncInfo, G: "L.Guards", val: dict, flags: Set[str], memo: dict, depth: int) -> Set[int]:
    """CFG nodes of f that, executed with the flag False, leave the operator with its effect groups instantiated: a store to the groups
    field, or a call of a method of the same object that does so on every normal path"""
    g = G.g
    seen = G.reach(val)
    out: Set[int] = set()
    for n in ast.walk(f.node):
        if isinstance(n, ast.Assign) and any(_is_self_attr(t, f, GROUPS_FIELD) for t in n.targets):
            out.add(g.node_of(n))
        elif isinstance(n, ast.Call) and _is_self_attr(n.func, f) and f.cls and depth < 3:
            t = repo.find_method(f.cls, n.func.attr)
            if t is None or t.name == f.name or not _surely_evaluated(G, val, seen, n):
                continue
            if _instantiates_groups(repo, t, flags, memo, depth + 1):
                out.add(g.node_containing(n))
    out.discard(None)
    return out


def _instantiates_groups(repo: Repo, t: FuncInfo, flags: Set[str], memo: dict, depth: int) -> bool:
    """entered with the flag False, every normal path through method t instantiates the effect groups"""
    if t.qn in memo:
        return memo[t.qn]
    memo[t.qn] = False
    ft = L.fn(repo, f"{t.cls}.{t.name}")
    G = L.Guards(ft, _flag_matcher(ft, flags))
    val = {"grounded": False}
    nodes = _grounding_nodes(repo, ft, G, val, flags, memo, depth)
    memo[t.qn] = bool(nodes) and G.g.exit not in G.reach(val, avoid=nodes)
    return memo[t.qn]


def rule_grounded(repo: Repo) -> RuleResult:
    r = RuleResult("C03.grounded", "on every path of apply the effect groups are instantiated before they are walked, also for a fresh operator whose "
                   "validation is skipped", "the successor contains the unconditional and conditional effects of the action")
    f = _apply_anchor(repo)
    g = C.cfg_of(f.node)
    flags = _ground_flags(repo, f.cls)
    uses = [n for n in ast.walk(f.node) if _is_self_attr(n, f, GROUPS_FIELD) and isinstance(n.ctx, ast.Load)]
    if not uses:
        raise AnalysisError(f"{APPLY}: the walk over self.{GROUPS_FIELD} was not found")
    G = L.Guards(f, _flag_matcher(f, flags, _apply_matcher("previous_state")))
    r.site(f.qn + " [groups instantiated]")
    bad = []
    memo: dict = {}
    for skip, allow in itertools.product([True, False], repeat=2):
        val = {"grounded": False, "applicable": True, "allow": allow}
        if "skip" in G.atoms_seen:
            val["skip"] = skip
        nodes = _grounding_nodes(repo, f, G, val, flags, memo, 0)
        seen = G.reach(val, avoid=nodes)
        if any(g.node_containing(u) in seen for u in uses):
            bad.append((skip, allow))
    if bad:
        r.fail(Finding("C03.grounded", f, "ungrounded:effect-groups",
                       f"a not yet grounded operator walks its effect groups without instantiating them first (skip_validation, "
                       f"allow_inapplicable_actions = {bad[0]}): the groups are the empty set and no effect is applied", node=uses[0]),
               {"flag_fields": sorted(flags)})
    else:
        r.ok({"flag_fields": sorted(flags), "groups_instantiated_before_walk": True})
    r.require_sites(1)
    return r


def _walk_role(paths, table) -> Optional[str]:
    """the semantic name of the collection a loop ranges over, when its iterable is one of the collections of `table` (or its elements
    moved into another sequence)"""
    for x in sorted(paths):
        if x[0] != "self" or len(x) < 2:
            continue
        role = None
        for st in x[1:]:
            if st.startswith("attr:") and st[5:] in table:
                role = table[st[5:]]
            elif st in _WALK_STEPS or st.startswith(_WALK_PREFIXES):
                continue
            else:
                role = None
                break
        if role:
            return role
    return None


def rule_walks(repo: Repo) -> RuleResult:
    r = RuleResult("C03.walk", "the loops over the effect groups, the problem objects, the universal effects and the discrete / numeric effects of a "
                   "group visit every element: no turn can end the walk", "every effect takes part in the transition, whatever the iteration order")
    for spec, table in ((APPLY, OPERATOR_WALKS), (EFFECT_APPLY, EFFECT_WALKS)):
        f = L.fn(repo, spec)
        p = L.prov(repo, f)
        G = L.Guards(f, _no_atoms)
        for lp in [n for n in ast.walk(f.node) if isinstance(n, ast.For)]:
            try:
                tr = p.trace(lp.iter)
            except KeyError:
                continue
            role = _walk_role(tr, table)
            if role is None and spec == EFFECT_APPLY and tr and any(x[:2] == ("self", "attr:grounded_numeric_effects") for x in tr) and \
                    not any(x[0].startswith("param:") for x in tr):
                role = "numeric-results"          # the values computed from the numeric effects, stored in a second pass
            if role is None:
                continue
            r.site(L.site(f, lp.iter, f"walk over {role}"))
            if L.leaves_loop_early(G, {}, lp):
                r.fail(Finding("C03.walk", f, f"walk-left-early:{role}", f"one turn of the loop over the {role} can end the loop (break / return): "
                               f"the remaining elements are skipped, which ones depends on the iteration order", node=lp))
            else:
                r.ok({"function": f.qn, "walk": role, "left_early": False})
    r.require_sites(6)
    return r


def _objects_matcher(p, base=None):
    """`<problem objects> is None` (atom noobjects) and the truth value of the object table, over aliases"""
    def is_objects(e) -> bool:
        try:
            tr = p.trace(e)
        except KeyError:
            return False
        return bool(tr) and all(x == ("self", "attr:problem_objects") for x in tr)

    def m(e):
        if isinstance(e, ast.Compare) and len(e.ops) == 1 and isinstance(e.ops[0], (ast.Is, ast.IsNot, ast.Eq, ast.NotEq)) and \
                isinstance(e.comparators[0], ast.Constant) and e.comparators[0].value is None and is_objects(e.left):
            return "noobjects" if isinstance(e.ops[0], (ast.Is, ast.Eq)) else "!noobjects"
        if isinstance(e, (ast.Name, ast.Attribute)) and isinstance(e.ctx, ast.Load) and is_objects(e):
            return "!noobjects"
        return base(e) if base is not None else None

    m.is_objects = is_objects
    return m


def rule_noobjects(repo: Repo) -> RuleResult:
    r = RuleResult("C03.noobjects", "an operator built without the (optional) problem objects still returns the successor: the absent object table "
                   "is not dereferenced", "apply returns the successor for every operator the constructor accepts")
    f = _apply_anchor(repo)
    p = L.prov(repo, f)
    m = _objects_matcher(p, _apply_matcher("previous_state"))
    G = L.Guards(f, m)
    derefs = []
    for n in ast.walk(f.node):
        if isinstance(n, (ast.Attribute, ast.Subscript)) and isinstance(n.ctx, ast.Load) and m.is_objects(n.value):
            derefs.append(n)
        elif isinstance(n, (ast.For, ast.comprehension)) and m.is_objects(n.iter):
            derefs.append(n.iter)
    r.site(f.qn + " [absent object table]")
    bad = None
    for skip, allow in itertools.product([True, False], repeat=2):
        val = {"noobjects": True, "applicable": True, "allow": allow, "skip": skip}
        seen = G.reach(val)
        for d in derefs:
            if G.reaches_expr(val, d, seen=seen):
                bad = d
    if bad is not None:
        r.fail(Finding("C03.noobjects", f, "deref:absent-problem-objects", f"{unparse(bad, 60)} is evaluated although the operator has no problem "
                       f"objects (None): apply raises instead of returning the successor of an action without forall effects", node=bad))
    else:
        r.ok({"dereferences_of_the_object_table": len(derefs), "reachable_without_objects": False})
    r.require_sites(1)
    return r


def rule_universal_ground(repo: Repo) -> RuleResult:
    r = RuleResult("C03.universal.ground", "the effect group built for one object of a forall is grounded -- with the action's parameter binding plus "
                   "quantified parameter -> object -- on every path before its antecedents are tested and it is applied",
                   "a forall effect fires for every object of the type, with the action's own arguments")
    f = _apply_anchor(repo)
    p = L.prov(repo, f)
    g = C.cfg_of(f.node)
    G = L.Guards(f, _no_atoms)
    uni = [a for a in _effect_apply_calls(repo, f) if _kind_of_apply(p, a) == "universal"]
    ctors = [c for c in L.calls_in(f.node) if isinstance(c.func, ast.Name) and c.func.id == "GroundedEffect"]
    if not uni:
        raise AnalysisError(f"{APPLY}: the application of the per-object effect group was not found")

    def fresh(e) -> Set[tuple]:
        return {x for x in p.trace(e) if len(x) == 1 and x[0].startswith("fresh:")}

    grounds = [c for c in L.calls_in(f.node) if isinstance(c.func, ast.Attribute) and c.func.attr == "ground_conditional_effect"]
    gfn = repo.func_opt("GroundedEffect.ground_conditional_effect")
    for a in uni:
        r.site(L.site(f, a, "grounded before use"))
        mine = fresh(a.func.value)
        gs = [c for c in grounds if fresh(c.func.value) & mine]
        gnodes = {g.node_containing(c) for c in gs}
        users = {g.node_containing(a)} | {g.node_containing(h) for h in L.calls_in(f.node) if isinstance(h.func, ast.Attribute)
                                          and h.func.attr == "antecedents_hold" and fresh(h.func.value) & mine}
        reached = False
        starts = [g.node_containing(c) for c in ctors if fresh(c) & mine] or [g.entry]
        for st in starts:
            seen = G.reach({}, avoid=gnodes, start=st)
            reached = reached or bool(users & seen)
        if reached:
            r.fail(Finding("C03.universal.ground", f, "ungrounded:universal-effect", "the per-object effect group of a forall can be tested / applied "
                           "without having been grounded: its antecedents are vacuous and its effect sets empty", node=a))
        else:
            r.ok({"call": unparse(a, 60), "grounded_on_every_path": True})
        for c in gs:
            r.site(L.site(f, c, "parameter map"))
            marg = L.arg_of(c, gfn, "parameters_map", 0)
            ents = L.map_entries(p.trace(marg)) if marg is not None else set()
            keys = {e for k, e in ents if k == "key"}
            vals = {e for k, e in ents if k == "value"}
            whole = {e for k, e in ents if k == "whole"}
            quant_k = {e for e in keys if e[-1] == "attr:quantified_parameter"}
            quant_v = {e for e in vals if any("problem_objects" in s_ for s_ in e)}
            if MAP_KEY in keys and MAP_VALUE in vals and not (keys - quant_k - {MAP_KEY}) and not (vals - quant_v - {MAP_VALUE}) and not whole \
                    and quant_k and quant_v:
                r.ok({"map": "zip(action.signature, grounded_call_objects) + {quantified parameter: object}"})
            else:
                r.fail(Finding("C03.universal.ground", f, "parameter-map:universal-effect", f"the binding handed to the per-object effect group has keys "
                               f"from {sorted(keys)[:3]} and values from {sorted(vals | whole)[:3]}; expected the action's parameters paired with the "
                               f"call arguments in their own order, plus quantified parameter -> object", node=c))
    r.require_sites(1)
    return r


def _pure_effect_copy(tr) -> bool:
    """every source of the value is a copy of one of the group's discrete effects (constants handed to copy() do not count)"""
    tr = {x for x in tr if not x[0].startswith("const:")}
    return bool(tr) and all(x[0] == "self" and "attr:grounded_discrete_effects" in x and "call:copy" in x for x in tr)


def rule_delete_positive(repo: Repo) -> RuleResult:
    r = RuleResult("C03.delete.positive", "the fact a delete effect removes is looked up by the text of the POSITIVE form of the (negative) effect: "
                   "the copy whose texts are read was made positive on every path", "delete effects remove the atom they negate")
    f = L.fn(repo, EFFECT_APPLY)
    p = L.prov(repo, f)
    g = C.cfg_of(f.node)
    G0 = L.Guards(f, _no_atoms)

    def pos_atom(e):
        if isinstance(e, ast.Attribute) and e.attr == "is_positive" and isinstance(e.ctx, ast.Load):
            return "pos"
        return None

    GP = L.Guards(f, pos_atom)
    only_negative = GP.reach({"pos": False}) - GP.reach({"pos": True})
    copies = [c for c in L.calls_in(f.node) if isinstance(c.func, ast.Attribute) and c.func.attr == "copy" and _pure_effect_copy(p.trace(c))]
    setters = [n for n in ast.walk(f.node) if isinstance(n, ast.Assign) and
               any(isinstance(t, ast.Attribute) and t.attr == "is_positive" and _pure_effect_copy(p.trace(t.value)) for t in n.targets)]

    def negating(c: ast.Call):
        """True / False / None (not decided): copy(is_negated=<const>)"""
        a = next((k.value for k in c.keywords if k.arg == "is_negated"), c.args[0] if c.args else None)
        if a is None:
            return False
        return bool(a.value) if isinstance(a, ast.Constant) else None

    pm = L.parents_of(f)

    def in_log_message(e) -> bool:
        cur = e
        while cur in pm and not isinstance(cur, ast.stmt):
            cur = pm[cur]
            if isinstance(cur, ast.Call) and is_logging_call(cur):
                return True
        return False

    done = set()
    reported: Set[str] = set()
    for rd_ in [n for n in ast.walk(f.node) if isinstance(n, ast.Attribute) and n.attr in POLARITY_TEXTS and isinstance(n.ctx, ast.Load)]:
        try:
            tr = p.trace(rd_.value)
        except KeyError:
            continue
        rn = g.node_containing(rd_)
        if not _pure_effect_copy(tr) or rn is None or rn not in only_negative or rn in done or in_log_message(rd_):
            continue
        mine = [c for c in copies if p.trace(c) & tr]
        if not mine or any(negating(c) is None for c in mine):
            continue
        done.add(rn)
        r.site(L.site(f, rd_, "text of the removed fact"))
        sets = [s_ for s_ in setters if any(isinstance(t, ast.Attribute) and t.attr == "is_positive" and p.trace(t.value) & tr for t in s_.targets)]
        wrong = [s_ for s_ in sets if not (isinstance(s_.value, ast.Constant) and s_.value.value is True)]
        if wrong:
            if "polarity" not in reported:
                reported.add("polarity")
                r.fail(Finding("C03.delete.positive", f, "delete-form:polarity", f"{unparse(wrong[0], 60)} does not make the copy of the delete effect "
                               f"positive: its text '(not (p a))' never equals the text of a state fact and nothing is deleted", node=wrong[0]))
            continue
        snodes = {g.node_of(s_) for s_ in sets}
        bad = False
        for c in mine:
            if negating(c):
                continue                                  # the negated copy of a negative effect is its positive form
            cn = g.node_containing(c)
            if cn == rn or rn in G0.reach({}, avoid=snodes, start=cn):
                bad = True
        if bad and "positive" in reported:
            continue
        if bad:
            reported.add("positive")
            r.fail(Finding("C03.delete.positive", f, "delete-form:positive", f"{unparse(rd_, 60)} can be read from a copy of the delete effect that "
                           f"is still negative: its text '(not (p a))' never equals the text of a state fact and nothing is deleted", node=rd_))
        else:
            r.ok({"read": unparse(rd_, 60), "copy_is_positive": True})
    return r


def rule_predmap(repo: Repo) -> RuleResult:
    r = RuleResult("C03.predmap", "the predicate map of the state is a partial map: a delete effect whose predicate has no entry is a no-op (no lookup of "
                   "the absent key), one whose predicate has an entry reaches the removal, and the set an add effect goes into ends up in the map",
                   "delete / add effects act on the facts of their own predicate; states list only the predicates that have facts")
    f = L.fn(repo, EFFECT_APPLY)
    p = L.prov(repo, f)
    g = C.cfg_of(f.node)
    pm = L.parents_of(f)
    MAP = ("param:state", "attr:state_predicates")

    def is_map(e) -> bool:
        try:
            return MAP in p.trace(e)
        except KeyError:
            return False

    def paths(e) -> set:
        try:
            return p.trace(e)
        except KeyError:
            return set()

    def looked_up(e) -> bool:
        """the value of `map.get(key)` (no default): None exactly when the key is absent"""
        tr = paths(e)
        return MAP + ("call:get",) in tr and not any("arg1:get" in x for x in tr)

    def atom(e):
        if isinstance(e, ast.Compare) and len(e.ops) == 1 and isinstance(e.ops[0], (ast.In, ast.NotIn)) and \
                (is_map(e.comparators[0]) or MAP + ("call:keys",) in paths(e.comparators[0])):
            return "haskey" if isinstance(e.ops[0], ast.In) else "!haskey"
        if isinstance(e, ast.Compare) and len(e.ops) == 1 and isinstance(e.ops[0], (ast.Is, ast.IsNot, ast.Eq, ast.NotEq)) and \
                isinstance(e.comparators[0], ast.Constant) and e.comparators[0].value is None and looked_up(e.left):
            return "!haskey" if isinstance(e.ops[0], (ast.Is, ast.Eq)) else "haskey"
        if isinstance(e, (ast.Name, ast.Call)) and isinstance(getattr(e, "ctx", ast.Load()), ast.Load) and looked_up(e):
            return "haskey"              # truth value of the looked-up set: absent -> None -> false
        return None

    def guarded_by_handler(e) -> bool:
        cur = e
        while cur in pm:
            par = pm[cur]
            if isinstance(par, ast.Try) and par.handlers and any(cur is s_ for s_ in par.body):
                return True
            cur = par
        return False

    def effect_key(e) -> bool:
        tr = p.trace(e)
        return bool(tr) and any(x[0] == "self" and "attr:grounded_discrete_effects" in x for x in tr) and not any(x[0] == "param:state" for x in tr)

    G = L.Guards(f, atom)
    stores = {g.node_of(n) for n in ast.walk(f.node) if isinstance(n, ast.Assign) and any(isinstance(t, ast.Subscript) and is_map(t.value) for t in n.targets)}
    stores |= {g.node_containing(c) for c in L.calls_in(f.node) if isinstance(c.func, ast.Attribute) and c.func.attr in ("update", "__setitem__")
               and is_map(c.func.value)}
    stores.discard(None)
    loads = [n for n in ast.walk(f.node) if isinstance(n, ast.Subscript) and isinstance(n.ctx, ast.Load) and is_map(n.value)
             and effect_key(n.slice) and not guarded_by_handler(n)]
    r.site(f.qn + " [absent key]")
    absent = {"haskey": False}
    seen = G.reach(absent, avoid=stores)
    hit = [n for n in loads if g.node_containing(n) not in stores and G.reaches_expr(absent, n, seen=seen)]
    if hit:
        r.fail(Finding("C03.predmap", f, "lookup:absent-key", f"{unparse(hit[0], 60)} is evaluated although the predicate has no entry in the state's "
                       f"predicate map (states list only predicates that have facts): KeyError instead of a no-op", node=hit[0]))
    else:
        r.ok({"lookups_by_effect_key": len(loads), "reachable_for_absent_key": False})
    removes, inserts = _predicate_map_mutations(repo, f)
    r.site(f.qn + " [present key]")
    present = {"haskey": True}
    seen = G.reach(present)
    dead = [d for d in removes if isinstance(d, ast.Call) and not G.reaches_expr(present, d, seen=seen)]
    if dead:
        r.fail(Finding("C03.predmap", f, "removal:present-key", f"{unparse(dead[0], 60)} is not reached when the predicate of the delete effect has an "
                       f"entry in the state's predicate map: the fact is not deleted", node=dead[0]))
    else:
        r.ok({"removal_reachable_for_present_key": True})
    # an add effect put into a set that may be new: the set has to be stored under the predicate's key in the same turn
    G0 = L.Guards(f, _no_atoms)
    for x in inserts:
        if not (isinstance(x, ast.Call) and x.func.attr in ("add", "append") and x.args):
            continue
        maybe_new = [pth for pth in p.trace(x.func.value) if pth[0].startswith("fresh:") and
                     not any(s_.startswith(("in:setval@", "in:setitem@")) or s_ == "arg1:setdefault" for s_ in pth)]
        if not maybe_new:
            continue
        loops = _enclosing_loops(f, x)
        if not loops:
            continue
        r.site(L.site(f, x, "new set stored"))
        xn = g.node_containing(x)
        head = g.node_of(loops[0])
        inside = {g.node_of(s_) for s_ in ast.walk(loops[0]) if isinstance(s_, ast.stmt) and s_ is not loops[0]}
        after = G0.reach({}, avoid=stores, start=xn)
        lost_after = head in after or any(n not in inside and n != g.raise_ for n in after)
        before = set()
        for s_ in [m_ for m_, l_ in g.succ[head] if l_ == "iter"]:
            before |= G0.reach({}, avoid=stores | {head}, start=s_)
        if lost_after and xn in before:
            r.fail(Finding("C03.predmap", f, "insertion:new-set-not-stored", f"the set {unparse(x.func.value, 40)} an add effect is put into may be a new "
                           f"one (the predicate had no entry) and is not stored in the state's predicate map: the added fact is lost", node=x))
        else:
            r.ok({"insertion": unparse(x, 60), "set_stored_under_key": True})
    r.require_sites(2)
    return r


def rule_evalstate(repo: Repo) -> RuleResult:
    r = RuleResult("C03.evalstate", "when GroundedEffect.apply is handed the state before the action, the numeric right-hand sides read THAT state's "
                   "fluents (not those of the state being changed)", "right-hand sides are evaluated in the state before the action")
    f = L.fn(repo, EFFECT_APPLY)
    if "previous_state" not in f.params or "state" not in f.params:
        raise AnalysisError(f"{EFFECT_APPLY}: parameters 'state' / 'previous_state' not found")
    p = L.prov(repo, f)

    def atom(e):
        if isinstance(e, ast.Compare) and len(e.ops) == 1 and isinstance(e.ops[0], (ast.Is, ast.IsNot, ast.Eq, ast.NotEq)) and \
                isinstance(e.comparators[0], ast.Constant) and e.comparators[0].value is None and L.is_param(p, e.left, "previous_state"):
            return "!hasprev" if isinstance(e.ops[0], (ast.Is, ast.Eq)) else "hasprev"
        if isinstance(e, ast.Name) and L.is_param(p, e, "previous_state"):
            return "hasprev"
        return None

    G = L.Guards(f, atom)
    val = {"hasprev": True}
    seen = G.reach(val)
    under = G.under(val, seen)
    rd = L.rd_of(f)

    def roots(e: ast.AST, depth: int = 0) -> Set[str]:
        """parameters the value can come from under the valuation: conditional expressions take the decided branch, a local name is
        followed through the definitions that reach its use along the edges the valuation leaves open (an initial value that is
        overwritten on every such path does not count)"""
        if isinstance(e, ast.IfExp):
            t = G.value(val, e.test, seen=seen)
            if t is True or t is False:
                return roots(e.body if t else e.orelse, depth)
            return roots(e.body, depth) | roots(e.orelse, depth)
        if isinstance(e, ast.BoolOp):
            # `a or b` is the first operand that is true (`a and b`: the first that is false), else the last one
            out: Set[str] = set()
            stop = isinstance(e.op, ast.Or)
            for i, x in enumerate(e.values):
                t = G.value(val, x, seen=seen) if i < len(e.values) - 1 else stop
                if t is (not stop):
                    continue
                out |= roots(x, depth)
                if t is stop:
                    break
            return out
        if isinstance(e, ast.Attribute):
            return roots(e.value, depth)
        at = G.g.node_containing(e)
        if isinstance(e, ast.Name) and at is not None and depth < 8:
            out: Set[str] = set()
            for d in G._defs(rd, at, e.id, seen, G._vkey(val)):
                st = G.g.stmt[d]
                if d == G.g.entry:
                    out.add(f"param:{e.id}")
                elif isinstance(st, (ast.Assign, ast.AnnAssign)) and st.value is not None and \
                        isinstance(st.targets[0] if isinstance(st, ast.Assign) else st.target, ast.Name) and (isinstance(st, ast.AnnAssign) or len(st.targets) == 1):
                    out |= roots(st.value, depth + 1)
                else:
                    out |= {x[0] for x in p.trace(e, under=under)}
            if out:
                return out
        return {x[0] for x in p.trace(e, under=under)}

    sev = repo.func_opt("models.numerical_expression::set_expression_value")
    for c in L.calls_named(f, "set_expression_value"):
        arg = L.arg_of(c, sev, "state_fluents", 1)
        if arg is None or not G.reaches_expr(val, c, seen=seen):
            continue
        r.site(L.site(f, c, "fluent environment when the pre-state is given"))
        got = {x for x in roots(arg) if x.startswith("param:")}
        if got == {"param:previous_state"}:
            r.ok({"call": unparse(c, 60), "environment": "previous_state.state_fluents"})
        elif "param:state" in got:
            r.fail(Finding("C03.evalstate", f, "rhs-env:pre-state-ignored", f"with a pre-state given, {unparse(c, 60)} reads the fluents of "
                           f"{sorted(got)}: right-hand sides see the updates of effect groups processed earlier (order dependent result)", node=c))
    return r


def rules(repo: Repo, tier: str) -> List[RuleResult]:
    from . import c06, c07
    out = [rule_antecedent(repo), rule_copy(repo), rule_delete_add(repo), rule_frame(repo), c12.rule_assign(repo, "C03.assign"),
           rule_prestate_rhs(repo), rule_universal(repo), rule_setmembers(repo)]
    out.append(c06.rule_range(repo, "C03.range", APPLY, ("GroundedEffect",)))
    out.append(c06.rule_conform(repo, "C03.conform", only_funcs=(APPLY,), floor=0))
    out.append(c07.rule_escape(repo, "C03.escape"))
    # every effect group of the schema is instantiated (a `when` group with only numeric consequents is an effect group too)
    from . import c20
    out.append(c20.rule_complete(repo).as_rule("C03.ground.complete"))
    out += [rule_grounded(repo), rule_walks(repo), rule_noobjects(repo), rule_universal_ground(repo), rule_delete_positive(repo),
            rule_predmap(repo), rule_evalstate(repo)]
    return out
