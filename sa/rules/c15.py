"""C15 -- sequential-to-joint plan conversion keeps actions, agent order and outcome (thin claim)."""
from __future__ import annotations

import ast
from typing import Dict, List, Optional, Set, Tuple

from .. import cfg as C
from .. import lib as L
from ..core import AnalysisError, FuncInfo, Repo, unparse
from ..prov import callee_name
from ..report import Finding, RuleResult

PC = "PlanConverter"

EXPLANATION = (
    "Thin claim: conservation, per-agent order and final-state equality over all plans are not decided. Decided: C15.guard -- every "
    "store into a joint-action slot after the first one of a step sits under the while-test _validate_well_defined_joint_action; that "
    "function returns anything but False only through the interference test, never when the agent's slot is occupied and never when "
    "the candidate is inapplicable in the step's pre-state parameter (finite valuation); the interference function returns the "
    "negation of a disjunction that contains the six required intersections (add/delete both ways, precondition/delete, numeric "
    "write/write, numeric read/write both ways), each identified by the provenance of its operands. C15.once -- every outer "
    "iteration appends exactly one JointActionCall built from the slot list; every popped action is stored into the slot of its "
    "agent (agent_names.index); the slot list starts as nop for every agent in the given order. C15.thread -- the step pre-state is "
    "the initial state or apply_actions(domain, previous, non-nop members). C15.extract -- actions are read in match order, "
    "lower-cased, name first."
)
UNDECIDED = "that every action is kept exactly once, per-agent order, and equality of the final states, for all plans"


def rule_guard(repo: Repo) -> RuleResult:
    r = RuleResult("C15.guard", "an action joins a step only after the well-definedness test: slot free, applicable in the step's pre-state, no interference",
                   "groups only actions that are applicable in the step's pre-state and do not interfere")
    f = repo.func(f"{PC}._create_joint_actions")
    p = L.prov(repo, f)
    g = C.cfg_of(f.node)
    stores = [n for n in ast.walk(f.node) if isinstance(n, ast.Assign) and len(n.targets) == 1 and isinstance(n.targets[0], ast.Subscript)
              and isinstance(n.targets[0].value, ast.Name) and n.targets[0].value.id == "joint_action"]
    if len(stores) < 2:
        raise AnalysisError("_create_joint_actions: slot stores not recognised")
    whiles = [n for n in ast.walk(f.node) if isinstance(n, ast.While) and isinstance(n.test, ast.Call) and callee_name(n.test) == "_validate_well_defined_joint_action"]
    outer = [n for n in ast.walk(f.node) if isinstance(n, ast.While) and n not in whiles]
    first_seen = False
    for s in stores:
        r.site(L.site(f, s, "slot store"))
        guarded = any(any(s is x for x in C.stmts_in(w.body)) for w in whiles)
        if guarded:
            r.ok({"store": unparse(s, 70), "guarded_by": "_validate_well_defined_joint_action"})
        elif not first_seen:
            first_seen = True
            r.ok({"store": unparse(s, 70), "role": "first action of the step"})
        else:
            r.fail(Finding("C15.guard", f, "unguarded-slot-store", f"{unparse(s, 70)} adds an action to the step without the well-definedness test", node=s))
    # the guard receives the step's pre-state and the candidate that is then popped
    for w in whiles:
        r.site(L.site(f, w.test, "guard arguments"))
        v = repo.func(f"{PC}._validate_well_defined_joint_action")
        a_state, a_joint, a_next = (L.arg_of(w.test, v, k) for k in ("current_state", "combined_actions", "next_action"))
        ok = a_state is not None and a_joint is not None and a_next is not None
        if ok:
            ts = p.trace(a_state)
            ok = all(any(s.endswith("create_initial_state") or s.endswith("apply_actions") for s in x) for x in ts) and bool(ts)
            ok = ok and isinstance(a_joint, ast.Name) and a_joint.id == "joint_action"
            ok = ok and any(x[0] == "param:plan_actions" and "item:0" in x for x in p.trace(a_next))
        if ok:
            r.ok({"guard": "(_step pre-state_, joint_action, plan_actions[0])"})
        else:
            r.fail(Finding("C15.guard", f, "guard-arguments", "the guard is not evaluated on (step pre-state, current slots, head of the remaining plan)", node=w.test))
    # the validator
    v = repo.func(f"{PC}._validate_well_defined_joint_action")
    pv = L.prov(repo, v)
    gv = C.cfg_of(v.node)

    def matcher(e):
        if isinstance(e, ast.Compare) and len(e.ops) == 1 and isinstance(e.comparators[0], ast.Name) and e.comparators[0].id == "NOP_ACTION" and "combined_actions" in ast.unparse(e.left):
            return "occupied" if isinstance(e.ops[0], ast.NotEq) else "!occupied"
        if isinstance(e, ast.Call) and callee_name(e) == "is_applicable":
            return "applicable"
        return None

    G = L.Guards(v, matcher)
    r.site(v.qn + " [validator]")
    if not {"occupied", "applicable"} <= G.atoms_seen:
        r.fail(Finding("C15.guard", v, "validator-tests", f"the validator lacks the slot / applicability tests (found {sorted(G.atoms_seen)})"))
    else:
        def nonfalse(seen):
            return [gv.stmt[n] for n in seen if gv.kind[n] == "return" and not (isinstance(gv.stmt[n].value, ast.Constant) and gv.stmt[n].value.value is False)]
        bad = []
        if nonfalse(G.reach({"occupied": True})):
            bad.append("slot occupied")
        if nonfalse(G.reach({"occupied": False, "applicable": False})):
            bad.append("inapplicable in the pre-state")
        final = nonfalse(G.reach({"occupied": False, "applicable": True}))
        if not final or not all(isinstance(x.value, ast.Call) and callee_name(x.value) == "_validate_well_defined_action_insertion" for x in final):
            bad.append("result is not the interference test")
        app = [c for c in L.calls_in(v.node) if callee_name(c) == "is_applicable"]
        if not app or not all(x == ("param:current_state",) for x in pv.trace(app[0].args[0])):
            bad.append("applicability not tested on the step's pre-state")
        else:
            rc = pv.trace(app[0].func.value)
            if not any(x[0] == "fresh:Operator" for x in rc):
                bad.append("applicability not asked of the candidate's operator")
        if bad:
            r.fail(Finding("C15.guard", v, "validator-logic", f"the validator can accept although: {bad}"))
        else:
            r.ok({"validator": "False if slot occupied / inapplicable; otherwise the interference test"})
    # interference pairs
    h = repo.func(f"{PC}._validate_well_defined_action_insertion")
    ph = L.prov(repo, h)
    r.site(h.qn + " [interference]")
    rets = L.func_returns(h)
    mains = [x for x in rets if isinstance(x.value, ast.UnaryOp) and isinstance(x.value.op, ast.Not) and isinstance(x.value.operand, ast.BoolOp)
             and isinstance(x.value.operand.op, ast.Or)]
    if len(mains) != 1:
        raise AnalysisError("_validate_well_defined_action_insertion: one `return not (a or b ...)` expected")
    e = mains[0].value
    shortcuts = [x for x in rets if x is not mains[0] and not (isinstance(x.value, ast.Constant) and x.value.value is False)]
    if shortcuts:
        r.fail(Finding("C15.guard", h, "interference-bypassed", f"`{unparse(shortcuts[0], 60)}` accepts an insertion without running the interference test "
                       f"(e.g. two actions writing the same fluent end up in one step)", node=shortcuts[0]))

    def role(expr) -> str:
        tr = ph.trace(expr)
        who = "next" if any(x[0] == "param:next_action" for x in tr) and not any("elem" in x and x[0] == "param:combined_actions" for x in tr) else "acc"
        kinds = set()
        for x in tr:
            for i, s in enumerate(x):
                if s.endswith(":_extract_grounded_effects") or s == "call:_extract_grounded_effects":
                    for s2 in x[i + 1:]:
                        if s2.startswith("unpack:"):
                            kinds.add({"0": "add", "1": "del", "2": "num"}[s2[7:]])
                            break
                if s.endswith(":_extract_grounded_preconditions") or s == "call:_extract_grounded_preconditions":
                    for s2 in x[i + 1:]:
                        if s2.startswith("unpack:"):
                            kinds.add({"0": "pre", "1": "numpre"}[s2[7:]])
                            break
        return who + "." + "/".join(sorted(kinds))

    pairs = set()
    for d in e.operand.values:
        inter = [c for c in L.calls_in(d) if callee_name(c) == "intersection" and isinstance(c.func, ast.Attribute) and c.args]
        gt0 = isinstance(d, ast.Compare) and isinstance(d.ops[0], ast.Gt) and isinstance(d.comparators[0], ast.Constant) and d.comparators[0].value == 0
        if inter and gt0:
            pairs.add(frozenset([role(inter[0].func.value), role(inter[0].args[0])]))
    need = [("acc.add", "next.del"), ("acc.del", "next.add"), ("acc.pre", "next.del"), ("acc.num", "next.num"), ("acc.numpre", "next.num"), ("acc.num", "next.numpre")]
    missing = [pr for pr in need if frozenset(pr) not in pairs]
    if missing:
        r.fail(Finding("C15.guard", h, f"interference-missing:{';'.join('&'.join(m) for m in missing)}", f"the interference test does not intersect {missing}"),
               {"pairs_found": sorted(sorted(x) for x in pairs)})
    else:
        r.ok({"pairs_found": sorted(sorted(x) for x in pairs)})
    r.require_sites(5)
    return r


def rule_once(repo: Repo) -> RuleResult:
    r = RuleResult("C15.once", "one JointActionCall per step built from the slot list; every popped action lands in its agent's slot; slots start as nop per agent",
                   "every action exactly once, one slot per agent in the given agent order")
    f = repo.func(f"{PC}._create_joint_actions")
    p = L.prov(repo, f)
    g = C.cfg_of(f.node)
    outer = [n for n in ast.walk(f.node) if isinstance(n, ast.While) and not (isinstance(n.test, ast.Call) and callee_name(n.test) == "_validate_well_defined_joint_action")]
    if len(outer) != 1:
        raise AnalysisError("_create_joint_actions: outer loop not recognised")
    loop = outer[0]
    head = g.node_of(loop)
    apps = [c for c in L.calls_in(loop) if isinstance(c.func, ast.Attribute) and c.func.attr == "append" and c.args and isinstance(c.args[0], ast.Call)
            and callee_name(c.args[0]) == "JointActionCall"]
    r.site(L.site(f, loop, "one joint action per step"))
    app_nodes = {g.node_containing(a) for a in apps}
    paths = C.acyclic_paths(g, head, lambda n: False)
    counts = {sum(1 for n, _ in pt[1:] if n in app_nodes) for pt in paths if len(pt) > 1 and pt[0][1] == "iter"}
    built_from_slots = all(isinstance(a.args[0].args[0], ast.Name) and a.args[0].args[0].id == "joint_action" for a in apps if a.args[0].args)
    rets = {x.value.id for x in L.func_returns(f) if isinstance(x.value, ast.Name)}
    tg = {a.func.value.id for a in apps if isinstance(a.func.value, ast.Name)}
    if counts == {1} and built_from_slots and rets == tg and len(tg) == 1:
        r.ok({"appends_per_step": sorted(counts), "built_from": "joint_action"})
    else:
        r.fail(Finding("C15.once", f, "one-joint-action-per-step", f"JointActionCall appends per step: {sorted(counts)}; built from slots: {built_from_slots}"))
    # slots initialised to nop for every agent
    r.site(f.qn + " [slot initialisation]")
    ok = False
    for n in ast.walk(loop):
        if isinstance(n, ast.Assign) and any(isinstance(t, ast.Name) and t.id == "joint_action" for t in n.targets) and isinstance(n.value, ast.ListComp):
            lc = n.value
            it = p.trace(lc.generators[0].iter)
            elt = lc.elt
            ok = all(x == ("param:agent_names",) for x in it) and isinstance(elt, ast.Call) and callee_name(elt) == "ActionCall" and elt.args and \
                isinstance(elt.args[0], ast.Name) and elt.args[0].id == "NOP_ACTION" and not lc.generators[0].ifs
    if ok:
        r.ok({"slots": "[ActionCall(NOP_ACTION, []) for _ in agent_names]"})
    else:
        r.fail(Finding("C15.once", f, "slot-init", "the slot list of a step is not initialised to nop for every agent in the given order"))
    # every pop lands in the slot of the agent that executes it
    pops = [c for c in L.calls_in(f.node) if isinstance(c.func, ast.Attribute) and c.func.attr == "pop" and isinstance(c.func.value, ast.Name) and c.func.value.id == "plan_actions"]
    stores = [n for n in ast.walk(f.node) if isinstance(n, ast.Assign) and len(n.targets) == 1 and isinstance(n.targets[0], ast.Subscript)
              and isinstance(n.targets[0].value, ast.Name) and n.targets[0].value.id == "joint_action"]
    r.site(f.qn + " [popped actions stored]")
    ok = len(pops) == len(stores) and all(isinstance(c.args[0], ast.Constant) and c.args[0].value == 0 for c in pops if c.args) and bool(pops)
    for s in stores:
        idx = s.targets[0].slice
        ok = ok and isinstance(idx, ast.Call) and callee_name(idx) == "index" and all(x == ("param:agent_names",) for x in p.trace(idx.func.value))
        ok = ok and any(x[0] == "param:plan_actions" and "call:pop" in x for x in p.trace(s.value))
        # the agent used for the slot belongs to the popped action
        agent = idx.args[0] if isinstance(idx, ast.Call) and idx.args else None
        if agent is not None:
            at = p.trace(agent)
            ok = ok and any(x[0] == "param:plan_actions" and (x[-1] in ("unpack:1", "item:1")) for x in at)
    if ok:
        r.ok({"pops": len(pops), "stores": len(stores), "slot": "agent_names.index(<agent of the popped action>)"})
    else:
        r.fail(Finding("C15.once", f, "pop-store", "a popped action is not stored into the slot of its executing agent (or is dropped)"))
    r.require_sites(3)
    return r


def rule_thread(repo: Repo) -> RuleResult:
    r = RuleResult("C15.thread", "step pre-state = initial state, then apply_actions(domain, previous pre-state, non-nop members of the step)",
                   "executing the joint plan reaches the same final state")
    f = repo.func(f"{PC}._create_joint_actions")
    p = L.prov(repo, f)
    r.site(f.qn)
    calls = [c for c in L.calls_in(f.node) if callee_name(c) == "apply_actions"]
    ok = False
    if len(calls) == 1:
        c = calls[0]
        aa = repo.func("multi_agent.common::apply_actions")
        d, s, j = (L.arg_of(c, aa, k) for k in ("domain", "current_state", "joint_action"))
        ts = p.trace(s)
        ok = all(x == ("self", "attr:ma_domain") for x in p.trace(d)) and \
            all(any(st.endswith("create_initial_state") or st.endswith("apply_actions") for st in x) for x in ts) and bool(ts)
        if isinstance(j, ast.ListComp):
            it = j.generators[0]
            cond = it.ifs[0] if len(it.ifs) == 1 else None
            ok = ok and isinstance(it.iter, ast.Name) and it.iter.id == "joint_action" and cond is not None and \
                isinstance(cond, ast.Compare) and isinstance(cond.ops[0], ast.NotEq) and "NOP_ACTION" in ast.unparse(cond)
        else:
            ok = ok and isinstance(j, ast.Name) and j.id == "joint_action"
        # result assigned back to the state variable used by the guard
        ok = ok and any(isinstance(n, ast.Assign) and n.value is c and isinstance(n.targets[0], ast.Name) and isinstance(s, ast.Name) and n.targets[0].id == s.id
                        for n in ast.walk(f.node))
    init = [c for c in L.calls_in(f.node) if callee_name(c) == "create_initial_state"]
    ok = ok and len(init) == 1 and all(x == ("param:problem",) for x in p.trace(init[0].args[0]))
    if ok:
        r.ok({"state": "create_initial_state(problem) -> apply_actions(ma_domain, state, [a for a in joint_action if a.name != nop])"})
    else:
        r.fail(Finding("C15.thread", f, "state-threading", "the step pre-state is not threaded through apply_actions on the non-nop members"))
    r.require_sites(1)
    return r


def rule_agent(repo: Repo) -> RuleResult:
    r = RuleResult("C15.agent", "the executing agent of an action is the first of ITS parameters that is an agent name",
                   "each agent's actions stay in that agent's slot")
    f = repo.func(f"{PC}._extract_plan_actions")
    p = L.prov(repo, f)
    r.site(f.qn)
    apps = [c for c in L.calls_in(f.node) if isinstance(c.func, ast.Attribute) and c.func.attr == "append"]
    ok = False
    why = "executing agent expression not recognised"
    if apps and isinstance(apps[0].args[0], ast.Tuple) and len(apps[0].args[0].elts) == 2:
        agent = apps[0].args[0].elts[1]
        src = agent
        if isinstance(agent, ast.Name):
            for n in ast.walk(f.node):
                if isinstance(n, ast.Assign) and any(isinstance(t, ast.Name) and t.id == agent.id for t in n.targets):
                    src = n.value
        comp = None
        first = False
        if isinstance(src, ast.Subscript) and isinstance(src.slice, ast.Constant) and src.slice.value == 0 and isinstance(src.value, (ast.ListComp, ast.GeneratorExp)):
            comp, first = src.value, True
        if isinstance(src, ast.Call) and callee_name(src) == "next" and src.args and isinstance(src.args[0], (ast.GeneratorExp, ast.ListComp)):
            comp, first = src.args[0], True
        if comp is not None and first:
            gen = comp.generators[0]
            it = p.trace(gen.iter)
            over_params = any("call:split" in x and any(s.startswith("slice:1") for s in x) for x in it) and not any(x == ("param:agent_names",) for x in it)
            cond = gen.ifs[0] if len(gen.ifs) == 1 else None
            member = isinstance(cond, ast.Compare) and isinstance(cond.ops[0], ast.In) and all(x == ("param:agent_names",) for x in p.trace(cond.comparators[0]))
            elt_is_var = isinstance(comp.elt, ast.Name) and isinstance(gen.target, ast.Name) and comp.elt.id == gen.target.id
            ok = over_params and member and elt_is_var
            if not over_params:
                why = "the search runs over the agent list (first agent in agent_names that occurs in the action), not over the action's parameters"
            elif not member:
                why = "the filter is not membership in agent_names"
    if ok:
        r.ok({"executing_agent": "[p for p in action_parameters if p in agent_names][0]"})
    else:
        r.fail(Finding("C15.agent", f, "executing-agent", f"executing agent: {why}"))
    r.require_sites(1)
    return r


def rule_extract(repo: Repo) -> RuleResult:
    r = RuleResult("C15.extract", "plan actions are read in match order, lower-cased; name = first token, parameters = the rest, agent = a parameter that is an agent name",
                   "keeps every action and each agent's relative order")
    f = repo.func(f"{PC}._extract_plan_actions")
    p = L.prov(repo, f)
    r.site(f.qn)
    apps = [c for c in L.calls_in(f.node) if isinstance(c.func, ast.Attribute) and c.func.attr == "append"]
    ok = False
    if len(apps) == 1 and isinstance(apps[0].args[0], ast.Tuple):
        call, agent = apps[0].args[0].elts
        tr = p.trace(call)
        ok = isinstance(call, ast.Call) and callee_name(call) == "ActionCall" and \
            any("call:lower" in x and "call:split" in x and x[-1].startswith("arg0:ActionCall") and "item:0" in x for x in tr) and \
            any("slice:1:" in x and x[-1].startswith("arg1:ActionCall") for x in tr) and \
            not any(any(s.startswith(("arg0:sorted", "arg0:reversed", "arg0:set")) for s in x) for x in tr)
        loops = [n for n in ast.walk(f.node) if isinstance(n, ast.For)]
        ok = ok and bool(loops) and not any(isinstance(s, (ast.Continue, ast.Break)) for s in C.stmts_in(loops[0].body))
    if ok:
        r.ok({"actions": "ActionCall(tokens[0], tokens[1:]) per match, in order"})
    else:
        r.fail(Finding("C15.extract", f, "extraction", "plan actions are not extracted one per match, in order, as (name, parameters)"))
    r.require_sites(1)
    return r


def rules(repo: Repo, tier: str) -> List[RuleResult]:
    return [rule_guard(repo), rule_once(repo), rule_thread(repo), rule_agent(repo), rule_extract(repo)]
