"""C15 -- sequential-to-joint plan conversion keeps actions, agent order and outcome (thin claim)."""
from __future__ import annotations

import ast
from typing import Dict, List, Optional, Set, Tuple

from .. import cfg as C
from .. import lib as L
from ..core import AnalysisError, Repo, unparse
from ..prov import callee_name
from ..report import Finding, RuleResult
from . import _c15_util as U

PC = "PlanConverter"

EXPLANATION = (
    "Thin claim: conservation, per-agent order and final-state equality over all plans are not decided. All rules are anchored on the "
    "public PlanConverter.convert_plan: its two private steps (plan text + agent names -> action sequence; problem + sequence + agent "
    "names -> joint actions) are found by the provenance of the arguments they receive, analysed with every private helper inlined "
    "(also the well-definedness test in the `while` condition), and identified by def-use provenance, never by names of helpers or "
    "locals. Before the analysis the flattened copy is brought into a normal form: generator helpers are expanded, map / filter / "
    "operator-module functions / attrgetter / methodcaller / lambdas / module-level dispatch tables are read as the expressions they compute, "
    "`a and self._helper()` is split into statements, NamedTuple / dataclass records and dicts used with constant keys are replaced by one local "
    "per field / key (record methods and properties inlined -- also when called through the class, Rec.merge(a, b) --, loops over zip(record, record) and "
    "Rec(*(.. for .. in zip(a, b))) unrolled), functools.partial objects bound once are applied, any / all / for loops over tables of rows (module-level "
    "tables of attrgetter pairs or field names, tuples of pairs of locals, also with break / else) are written out row by row. Decided: C15.guard -- the slot list of a step is the list handed to JointActionCall; every store into it that can follow "
    "another store of the same step is unreachable (finite valuation of the guards, propagated through helper results and boolean "
    "locals) in each of the scenarios: the slot tested for the candidate is occupied, the candidate is inapplicable, one of the six "
    "required set pairs (add/delete both ways, precondition/delete, numeric write/write, numeric read/write both ways) has a common "
    "element. The set tests are recognised in any spelling (len(a.intersection(b)) > 0, a & b, not a.isdisjoint(b), all(.. for .. in "
    "table of pairs), intermediate variables); the role of an operand is the provenance of its elements: which operator fields the "
    "extracting helper reads (discrete effects split by is_positive, numeric effect / precondition targets, discrete preconditions) "
    "and whether the operator was built from the head of the remaining plan or from a member of the slot list; a set that is the union of "
    "several kinds stands for each of them. The applicability "
    "test is asked of the candidate's operator on the step's pre-state. A test that sits inside the walk over the members (one member at a time, early "
    "return) counts like one on accumulated sets; with should_validate_concurrency_constraint set (the flag is the public parameter, followed through "
    "helpers / partial) a candidate one of whose parameters is a parameter of a member of the step is rejected too: the test compares ALL parameters of "
    "the head of the remaining plan (no slice, no single position) with the parameters of ALL members (JointActionCall(<slot list>).joint_parameters or "
    "collected member by member). A test inside the walk counts like one on accumulated sets: in a scenario where two sets share an element some non-nop member is walked. C15.members -- every "
    "walk over the members of the slot list (or over a container filled member by member) that builds operators / extracts their effects is complete: no "
    "slice / islice, no filter but the nop test, not left early while all tests pass, every non-nop member's iteration builds the operator, extracts and "
    "hands on; the accumulated sets are not overwritten per member. C15.footprint -- no effect group of an operator is skipped when its add / delete / "
    "numeric effects are collected. C15.once -- every outer iteration appends exactly one "
    "JointActionCall built from the slot list to the returned list; every popped head is stored into the slot agent_names.index(<agent of "
    "a plan entry>); the slot list starts as nop for every agent in the given order. C15.thread -- the step pre-state is the initial "
    "state of the problem, advanced by apply_actions(domain, pre-state, non-nop members of the slot list). C15.agent / C15.extract -- "
    "actions are read in match order, lower-cased, name first, parameters the rest; the executing agent is the first parameter of the "
    "action that is an agent name; the plan text is the text the regular expression scans (re.<scan>(pattern, text) / <compiled>.<scan>(text)), "
    "never the pattern. C15.members also: a slot that holds a nop is skipped, it does not end the walk over the members. C15.drain -- the "
    "remaining plan only shrinks (pop), so emptiness is stable: under the valuation `not empty` of every emptiness / length test (len(plan) <op> c, "
    "truth value, == [], locals that hold the length or a test of it, with the number of pops in between taken into account) no normal return is "
    "reachable (no action is left behind), and from the entry and from behind every pop, under `empty from here on` (after a pop that filled a "
    "further slot of the step: and the candidate's slot occupied, until the next slot list is created), no plan[0] / plan.pop() is reachable "
    "(a valid plan does not make the conversion raise). C15.once counts joint actions per turn that pops the first action of a step (a turn that "
    "only finds the plan empty appends nothing)."
)
UNDECIDED = "that every action is kept exactly once, per-agent order, and equality of the final states, for all plans"


# --------------------------------------------------------------------------------------------------------------- shared context
class _Ctx:
    def __init__(self, repo: Repo):
        self.repo = repo
        self.c, self.E, self.K = U.discover(repo)
        self.ex = U.Extractors(repo, self.K.raw)
        self.kf = U.flatten_full(repo, self.K.raw, self.ex.qns)
        self.p = L.prov(repo, self.kf)
        self.g = C.cfg_of(self.kf.node)
        self.plan = self.K.param("PLAN")
        self.agents = self.K.param("AGENTS")
        self.problem = self.K.param("PROBLEM")
        self.nop = U.module_const(repo, "models.action_call", "NOP_ACTION")
        # the slot list(s): what joint actions are built from
        self.slot_nodes: List[ast.AST] = []
        for c in L.calls_in(self.kf.node):
            if callee_name(c) == "JointActionCall" and isinstance(c.func, ast.Name):
                a = L.arg_of(c, repo.find_method("JointActionCall", "__init__"), "actions", 0)
                if a is None:
                    continue
                for o in U.origins(self.p, a):
                    if not isinstance(o, ast.arg) and all(o is not x for x in self.slot_nodes):
                        self.slot_nodes.append(o)
        if not self.slot_nodes:
            raise AnalysisError(f"{self.K.raw.qn}: no JointActionCall is built from a local slot list")
        self.slot_ids = {id(o) for o in self.slot_nodes}
        self.V = U.Verdict(repo, self.kf, self.plan, self.slot_ids, self.ex, self.nop)
        self.V.flag_param = self.K.roles.get("FLAG")
        # walks over the members of a step (C15.members; the guard scenarios use them too)
        self.M = U.Members(repo, self.kf, self.p, self.g, self.slot_ids, self.V, self.ex, self.agents)
        self.V.member_walks = [(self.g.node_of(w.node), self.M.nop_atom(w), self.M.body_nodes(w)) for w in self.M.walks
                               if w.relevant and w.kind == "for" and w.status == "complete"]
        self.stores = [n for n in ast.walk(self.kf.node) if isinstance(n, ast.Assign) and len(n.targets) == 1 and isinstance(n.targets[0], ast.Subscript)
                       and U.same_object(self.p, n.targets[0].value, self.slot_ids)]
        self.stores.sort(key=lambda n: (n.lineno, n.col_offset))
        # private helpers the inliner had to leave as calls (decorated, ambiguous, starred arguments ...): their effect on the
        # guards is unknown, so a guard that seems to be missing cannot be told from one that hides in such a helper
        self.opaque = sorted({callee_name(c) for c in L.calls_in(self.kf.node) if U.is_private(callee_name(c))
                              and (lambda t: t is not None and t.qn not in self.ex.qns and t.qn != self.K.raw.qn)(U.unique_target(repo, self.kf, c))})
        # record-valued locals (NamedTuple / dataclass) that could not be split into their fields: what they carry is unknown too
        self.opaque += [f"<record {r}>" for r in getattr(self.kf, "unsplit_records", [])]
        # extraction step
        self.ef = U.flatten_full(repo, self.E.raw)
        self.pe = L.prov(repo, self.ef)
        self.ge = C.cfg_of(self.ef.node)

    def site(self, node: Optional[ast.AST], what: str) -> str:
        return L.site(self.c, node, what)

    def is_nop(self, e: ast.AST) -> bool:
        return self.V.is_nop(e)

    def only(self, e: ast.AST, path: tuple, p=None) -> bool:
        try:
            tr = (p or self.p).trace(e)
        except KeyError:
            return False
        return bool(tr) and all(x == path for x in tr)


_ctx_cache: Dict[int, _Ctx] = {}


def _ctx(repo: Repo) -> _Ctx:
    if id(repo) not in _ctx_cache:
        _ctx_cache[id(repo)] = _Ctx(repo)
    return _ctx_cache[id(repo)]


def _is_prestate(paths) -> bool:
    """every way the value is produced goes through create_initial_state / apply_actions"""
    paths = U.short(paths)
    return bool(paths) and all(any(s.endswith((":create_initial_state", ":apply_actions")) for s in x) for x in paths)


def _is_advanced(paths) -> bool:
    """the state is the initial state on the first step and the result of apply_actions afterwards"""
    paths = U.short(paths)
    return any(any(s.endswith(":apply_actions") for s in x) for x in paths) and \
        any(any(s.endswith(":create_initial_state") for s in x) and not any(s.endswith(":apply_actions") for s in x) for x in paths)


def _enclosing_loops(g: C.CFG, n: int) -> List[int]:
    out = []
    cur = g.loop_of.get(n)
    while cur is not None and cur not in out:
        out.append(cur)
        cur = g.loop_of.get(cur)
    return out


# --------------------------------------------------------------------------------------------------------------- C15.guard
def rule_guard(repo: Repo) -> RuleResult:
    r = RuleResult("C15.guard", "an action joins a step only after the well-definedness test: slot free, applicable in the step's pre-state, no interference",
                   "groups only actions that are applicable in the step's pre-state and do not interfere")
    x = _ctx(repo)
    g, p, V = x.g, x.p, x.V
    if not x.stores:
        raise AnalysisError(f"{x.K.raw.qn}: no store into the slot list of a step found")
    creation = {g.node_containing(o) for o in x.slot_nodes} - {None}
    node = {id(s): g.node_of(s) for s in x.stores}
    later: Set[int] = set()
    for s in x.stores:
        after: Set[int] = set()
        for m, _l in g.succ[node[id(s)]]:
            after |= C.reachable_from(g, m, avoid=creation)
        later |= {n for n in node.values() if n in after}
    if not later:
        raise AnalysisError(f"{x.K.raw.qn}: no store into a slot that follows another store of the same step (packing loop not recognised)")
    scenarios: List[Tuple[str, Dict[str, bool]]] = [("slot-occupied", {"occupied": True}), ("inapplicable", {"applicable": False})]
    for a, b in U.REQUIRED_PAIRS:
        scenarios.append((f"interference:{a}&{b}", {"pair:" + U.pair_name(a, b): True, "nonempty:" + a: True, "nonempty:" + b: True}))
    # the shared-object concurrency constraint: with the flag set, a candidate one of whose parameters is a parameter of a member of the step
    scenarios.append(("shared-object", {"pair:" + U.pair_name("acc.params", "next.params"): True, "flag": True}))
    reach = {name: V.reach(sc) for name, sc in scenarios}
    good = V.reach({"occupied": False, "applicable": True, "pair:*": False})
    if x.opaque and any(n in reach[name] for n in later for name, _sc in scenarios):
        raise AnalysisError(f"{x.K.raw.qn}: the private helper(s) {x.opaque} could not be inlined; the guards of the packing loop cannot be interpreted")
    for s in x.stores:
        r.site(x.site(s, "slot store"))
        n = node[id(s)]
        if n not in later:
            r.ok({"store": unparse(s, 70), "role": "first action of the step"})
            continue
        bad = [name for name, _sc in scenarios if n in reach[name]]
        if not bad:
            r.ok({"store": unparse(s, 70), "unreachable_when": [name for name, _ in scenarios], "reachable_when_all_tests_pass": n in good})
        elif len(bad) == len(scenarios):
            r.fail(Finding("C15.guard", x.c, "unguarded-slot-store", f"{unparse(s, 70)} adds an action to the step without the well-definedness test", node=s))
        else:
            for b in bad:
                r.fail(Finding("C15.guard", x.c, f"slot-store-despite:{b}",
                               f"{unparse(s, 70)} can add a further action to the step although: {b} "
                               f"(tests recognised: {sorted(V.pairs_seen)}; e.g. "
                               + ("two actions of different agents that work on the same object end up in one step although the concurrency constraint is on: the test "
                                  "must compare ALL parameters of the candidate with ALL parameters of the members, under the caller's flag)" if b == "shared-object"
                                  else "two actions writing the same fluent end up in one step)"), node=s),
                       {"pairs_found": sorted(V.pairs_seen)})
    # the applicability test: candidate's operator, step pre-state
    isapp = repo.find_method("Operator", "is_applicable")
    for c in L.calls_in(x.kf.node):
        if V.atom(c) != ("applicable", True):
            continue
        r.site(x.site(c, "applicability test"))
        st = L.arg_of(c, isapp, "state", 0)
        why = []
        if st is None or not _is_prestate(p.trace(st)):
            why.append("it is not evaluated on the step's pre-state")
        tr = U.short(p.trace(c.func.value))
        who = {V.who_of(t) for t in tr if t[-1].endswith(":Operator")} - {None}
        if not any(t[0] == "fresh:Operator" for t in tr) or who != {"next"}:
            why.append("it is not asked of the operator of the head of the remaining plan")
        if why:
            r.fail(Finding("C15.guard", x.c, "applicability-operands", f"{unparse(c, 60)}: {'; '.join(why)}", node=c))
        else:
            r.ok({"applicability": "Operator(<head of the remaining plan>).is_applicable(<step pre-state>)"})
    r.site(x.c.qn + " [interference pairs]")
    if all(U.pair_name(a, b) in V.pairs_seen for a, b in U.REQUIRED_PAIRS):
        r.ok({"pairs_found": sorted(V.pairs_seen)})
    r.require_sites(3)
    return r


# --------------------------------------------------------------------------------------------------------------- C15.once
def _nop_call(x: _Ctx, e: ast.AST) -> bool:
    if not (isinstance(e, ast.Call) and callee_name(e) == "ActionCall" and isinstance(e.func, ast.Name)):
        return False
    nm = L.arg_of(e, x.repo.find_method("ActionCall", "__init__"), "name", 0)
    return nm is not None and x.is_nop(nm)


def _per_agent(x: _Ctx, it: ast.AST, len_only: bool = False) -> bool:
    """`agent_names` / `range(len(agent_names))` (len_only: `len(agent_names)`)"""
    try:
        tr = x.p.trace(it)
    except KeyError:
        return False
    allowed = [(f"param:{x.agents}", "arg0:len")] if len_only else [(f"param:{x.agents}",), (f"param:{x.agents}", "arg0:len", "arg0:range")]
    return bool(tr) and all(t in allowed for t in tr)


def _nop_per_agent(x: _Ctx, o: ast.AST) -> bool:
    if (isinstance(o, ast.List) and not o.elts) or (isinstance(o, ast.Call) and isinstance(o.func, ast.Name) and o.func.id == "list" and not o.args and not o.keywords):
        # slots = []; for _ in agent_names: slots.append(ActionCall(nop, []))
        me = {id(o)}
        muts = [c for c in L.calls_in(x.kf.node) if isinstance(c.func, ast.Attribute) and c.func.attr in ("append", "extend", "insert", "pop", "remove", "clear", "sort", "reverse")
                and U.same_object(x.p, c.func.value, me)]
        if len(muts) != 1 or muts[0].func.attr != "append" or len(muts[0].args) != 1:
            return False
        vals = U.origins(x.p, muts[0].args[0])
        if not (len(vals) == 1 and _nop_call(x, vals[0])):
            return False
        n = x.g.node_containing(muts[0])
        loops = _enclosing_loops(x.g, n)
        mine = [h for h in loops if h not in _enclosing_loops(x.g, x.g.node_containing(o))]
        if len(mine) != 1 or not isinstance(x.g.stmt[mine[0]], ast.For) or not _per_agent(x, x.g.stmt[mine[0]].iter):
            return False
        at_least, at_most = U.per_iteration(x.g, mine[0], {n})
        return at_least and at_most
    if isinstance(o, ast.Call) and isinstance(o.func, ast.Name) and o.func.id == "list" and len(o.args) == 1:
        o = o.args[0]
    if isinstance(o, (ast.ListComp, ast.GeneratorExp)):
        elts = U.origins(x.p, o.elt)
        return len(o.generators) == 1 and not o.generators[0].ifs and not o.generators[0].is_async and _per_agent(x, o.generators[0].iter) \
            and len(elts) == 1 and _nop_call(x, elts[0])
    if isinstance(o, ast.BinOp) and isinstance(o.op, ast.Mult):
        for lst, cnt in ((o.left, o.right), (o.right, o.left)):
            if isinstance(lst, ast.List) and len(lst.elts) == 1 and _nop_call(x, lst.elts[0]) and _per_agent(x, cnt, len_only=True):
                return True
    return False


def rule_once(repo: Repo) -> RuleResult:
    r = RuleResult("C15.once", "one JointActionCall per step built from the slot list; every popped action lands in its agent's slot; slots start as nop per agent",
                   "every action exactly once, one slot per agent in the given agent order")
    x = _ctx(repo)
    g, p = x.g, x.p
    rets = [n for n in ast.walk(x.kf.node) if isinstance(n, ast.Return) and n.value is not None]
    result_ids = {id(o) for ret in rets for o in U.origins(p, ret.value)}
    heads = {(_enclosing_loops(g, g.node_containing(o)) or [None])[0] for o in x.slot_nodes}
    if len(heads) != 1 or None in heads:
        raise AnalysisError(f"{x.K.raw.qn}: the loop that builds one slot list per step was not recognised")
    head = next(iter(heads))
    r.site(x.site(g.stmt[head], "one joint action per step"))
    apps = [c for c in L.calls_in(x.kf.node) if isinstance(c.func, ast.Attribute) and c.func.attr == "append" and len(c.args) == 1
            and U.same_object(p, c.func.value, result_ids)]

    def from_slots(e: ast.AST) -> bool:
        os_ = U.origins(p, e)
        if len(os_) != 1 or not (isinstance(os_[0], ast.Call) and callee_name(os_[0]) == "JointActionCall"):
            return False
        a = L.arg_of(os_[0], repo.find_method("JointActionCall", "__init__"), "actions", 0)
        return a is not None and U.same_object(p, a, x.slot_ids)

    app_nodes = {g.node_containing(a) for a in apps}
    in_loop = all(head in _enclosing_loops(g, n) for n in app_nodes)
    at_least, at_most = U.per_iteration(g, head, app_nodes)
    if not at_least and app_nodes:
        # a turn that takes nothing from the plan (the loop's own end test written as `while True: if not plan: break`, or behind an inlined
        # helper) appends nothing and loses nothing: what counts is that every turn that pops the first action of a step appends a joint action
        _creation, node_of_store, later = _packing_stores(x)
        stored_later = [s for s in x.stores if node_of_store[id(s)] in later]
        first_pops = [c for c in L.calls_in(x.kf.node) if isinstance(c.func, ast.Attribute) and c.func.attr == "pop" and x.only(c.func.value, (f"param:{x.plan}",))
                      and not any(any(q is c for q in U.flows_from(p, s.value)) for s in stored_later)]
        pop_nodes = {g.node_containing(c) for c in first_pops} - {None}
        if pop_nodes and all(head in _enclosing_loops(g, n) for n in pop_nodes):
            free: Set[int] = set()
            for n in pop_nodes:
                for m, _l in g.succ[n]:
                    if m not in app_nodes and m != head:
                        free |= C.reachable_from(g, m, avoid=set(app_nodes) | {head})
            before: Set[int] = set()
            for m in [m for m, l in g.succ[head] if l == "iter"]:
                before |= C.reachable_from(g, m, avoid=pop_nodes | {head})
            at_least = g.exit not in free and not any(m == head for n in free for m, _l in g.succ[n]) and not (before & app_nodes)
    built = bool(apps) and all(from_slots(a.args[0]) for a in apps)
    if at_least and at_most and built and in_loop:
        r.ok({"appends_per_step": 1, "built_from": "the slot list of the step"})
    else:
        r.fail(Finding("C15.once", x.c, "one-joint-action-per-step", f"JointActionCall appends to the result per step: at least one: {at_least}, at most one: {at_most}; "
                       f"built from the slot list: {built}; inside the step loop: {in_loop}", node=g.stmt[head]))
    # slots initialised to nop for every agent
    r.site(x.c.qn + " [slot initialisation]")
    if all(_nop_per_agent(x, o) for o in x.slot_nodes):
        r.ok({"slots": "one ActionCall(nop) per agent name, in the given order"})
    else:
        r.fail(Finding("C15.once", x.c, "slot-init", "the slot list of a step is not initialised to nop for every agent in the given order", node=x.slot_nodes[0]))
    # every pop lands in the slot of the agent that executes it
    r.site(x.c.qn + " [popped actions stored]")
    pops = [c for c in L.calls_in(x.kf.node) if isinstance(c.func, ast.Attribute) and c.func.attr == "pop" and x.only(c.func.value, (f"param:{x.plan}",))]
    ok = bool(pops) and all(len(c.args) == 1 and isinstance(c.args[0], ast.Constant) and c.args[0].value == 0 and not c.keywords for c in pops)
    stored_values = [n for s in x.stores for n in U.flows_from(p, s.value)]
    for c in pops:
        ok = ok and any(n is c for n in stored_values)
    ok = ok and bool(x.stores)
    for s in x.stores:
        idxs = U.origins(p, s.targets[0].slice)
        idx = idxs[0] if len(idxs) == 1 else None
        good_idx = isinstance(idx, ast.Call) and isinstance(idx.func, ast.Attribute) and idx.func.attr == "index" and len(idx.args) == 1 \
            and x.only(idx.func.value, (f"param:{x.agents}",))
        if good_idx:
            at = U.short(p.trace(idx.args[0]))
            good_idx = any(t[0] == f"param:{x.plan}" and t[-1] in ("unpack:1", "item:1") for t in at)
        vt = U.short(p.trace(s.value))
        good_val = any(t[0] == f"param:{x.plan}" and "call:pop" in t and t[-1] in ("unpack:0", "item:0") for t in vt)
        ok = ok and good_idx and good_val
    if ok:
        r.ok({"pops": len(pops), "stores": len(x.stores), "slot": "agent_names.index(<agent of the plan entry>)"})
    else:
        r.fail(Finding("C15.once", x.c, "pop-store", "a popped action is not stored into the slot of its executing agent (or is dropped)"))
    r.require_sites(3)
    return r


# --------------------------------------------------------------------------------------------------------------- C15.thread
def _non_nop_members(x: _Ctx, j: Optional[ast.AST]) -> bool:
    """the slot list, or its members filtered by `member.name != nop`"""
    if j is None:
        return False
    p = x.p
    if U.same_object(p, j, x.slot_ids):
        return True
    os_ = U.origins(p, j)
    if len(os_) != 1:
        return False
    o = os_[0]
    if isinstance(o, ast.Call) and isinstance(o.func, ast.Name) and o.func.id == "list" and len(o.args) == 1:
        o = o.args[0]
    if isinstance(o, (ast.ListComp, ast.GeneratorExp)) and len(o.generators) == 1:
        gen = o.generators[0]
        if not (isinstance(gen.target, ast.Name) and isinstance(o.elt, ast.Name) and o.elt.id == gen.target.id and U.same_object(p, gen.iter, x.slot_ids)):
            return False
        if not gen.ifs:
            return True
        if len(gen.ifs) != 1:
            return False
        c, neg = gen.ifs[0], False
        while isinstance(c, ast.UnaryOp) and isinstance(c.op, ast.Not):
            c, neg = c.operand, not neg
        if isinstance(c, ast.Compare) and len(c.ops) == 1 and isinstance(c.ops[0], (ast.Eq, ast.Is) if neg else (ast.NotEq, ast.IsNot)):
            for a, b in ((c.left, c.comparators[0]), (c.comparators[0], c.left)):
                if isinstance(a, ast.Attribute) and a.attr == "name" and isinstance(a.value, ast.Name) and a.value.id == gen.target.id and x.is_nop(b):
                    return True
        return False
    if (isinstance(o, ast.List) and not o.elts) or (isinstance(o, ast.Call) and isinstance(o.func, ast.Name) and o.func.id == "list" and not o.args):
        # executed = []; for m in slots: if m.name != nop: executed.append(m)
        adds = [c for c in L.calls_in(x.kf.node) if isinstance(c.func, ast.Attribute) and c.func.attr in ("append", "add", "extend", "insert", "update")
                and U.same_object(p, c.func.value, {id(o)})]
        others = [n for n in ast.walk(x.kf.node) if isinstance(n, (ast.Assign, ast.AugAssign)) and any(
            isinstance(t, ast.Subscript) and U.same_object(p, t.value, {id(o)}) for t in (n.targets if isinstance(n, ast.Assign) else [n.target]))]
        if len(adds) != 1 or others or adds[0].func.attr != "append" or len(adds[0].args) != 1:
            return False
        src = U.origins(p, adds[0].args[0])
        if not (len(src) == 1 and isinstance(src[0], ast.For) and isinstance(src[0].target, ast.Name) and U.same_object(p, src[0].iter, x.slot_ids)):
            return False

        def nop_test(e):
            if isinstance(e, ast.Compare) and len(e.ops) == 1 and isinstance(e.ops[0], (ast.Eq, ast.NotEq, ast.Is, ast.IsNot)):
                for a, b in ((e.left, e.comparators[0]), (e.comparators[0], e.left)):
                    if isinstance(a, ast.Attribute) and a.attr == "name" and x.is_nop(b):
                        oa = U.origins(p, a.value)
                        if len(oa) == 1 and oa[0] is src[0]:
                            return "nop" if isinstance(e.ops[0], (ast.Eq, ast.Is)) else "!nop"
            return None

        G = L.Guards(x.kf, nop_test)
        n = x.g.node_containing(adds[0])
        if "nop" not in G.atoms_seen:
            return n in G.reach({})
        return n in G.reach({"nop": False}) and n not in G.reach({"nop": True})
    if isinstance(o, ast.Attribute) and o.attr == "operational_actions":
        # JointActionCall(slots).operational_actions: the library's own non-nop filter
        inner = U.origins(p, o.value)
        if len(inner) == 1 and isinstance(inner[0], ast.Call) and callee_name(inner[0]) == "JointActionCall":
            a = L.arg_of(inner[0], x.repo.find_method("JointActionCall", "__init__"), "actions", 0)
            return a is not None and U.same_object(p, a, x.slot_ids)
    return False


def rule_thread(repo: Repo) -> RuleResult:
    r = RuleResult("C15.thread", "step pre-state = initial state, then apply_actions(domain, previous pre-state, non-nop members of the step)",
                   "executing the joint plan reaches the same final state")
    x = _ctx(repo)
    p = x.p
    r.site(x.c.qn)
    calls = [c for c in L.calls_in(x.kf.node) if callee_name(c) == "apply_actions"]
    aa = repo.func_opt("multi_agent.common::apply_actions")
    why = []
    if not calls or aa is None:
        why.append("no call of apply_actions")
    for c in calls:
        d, s, j = (L.arg_of(c, aa, k) for k in ("domain", "current_state", "joint_action"))
        if d is None or not x.only(d, ("self", "attr:ma_domain")):
            why.append("apply_actions does not use the converter's domain")
        ts = p.trace(s) if s is not None else set()
        if not _is_prestate(ts) or not _is_advanced(ts):
            why.append("the state handed to apply_actions is not the step pre-state carried over from the previous step")
        if not _non_nop_members(x, j):
            why.append("apply_actions does not receive the (non-nop) members of the step's slot list")
    init = [c for c in L.calls_in(x.kf.node) if callee_name(c) == "create_initial_state"]
    if not init or not all(c.args and x.only(c.args[0], (f"param:{x.problem}",)) for c in init):
        why.append("the first pre-state is not create_initial_state(problem)")
    # the state the candidates are tested on is the threaded one
    isapp = repo.find_method("Operator", "is_applicable")
    for c in L.calls_in(x.kf.node):
        if x.V.atom(c) == ("applicable", True):
            st = L.arg_of(c, isapp, "state", 0)
            if st is not None and _is_prestate(p.trace(st)) and not _is_advanced(p.trace(st)):
                why.append("the state the candidates are tested on is never advanced by the result of apply_actions")
    if not why:
        r.ok({"state": "create_initial_state(problem) -> apply_actions(ma_domain, state, non-nop members of the slot list) per step"})
    else:
        r.fail(Finding("C15.thread", x.c, "state-threading", "the step pre-state is not threaded through apply_actions on the non-nop members: " + "; ".join(dict.fromkeys(why))))
    r.require_sites(1)
    return r


# --------------------------------------------------------------------------------------------------------------- extraction step
def _plan_entries(x: _Ctx) -> List[Tuple[ast.Tuple, ast.AST, Optional[ast.AST]]]:
    """(entry tuple, site, comprehension or None) for every way an entry is put into the returned sequence"""
    p = x.pe
    rets = [n for n in ast.walk(x.ef.node) if isinstance(n, ast.Return) and n.value is not None]
    res = [o for ret in rets for o in U.origins(p, ret.value)]
    ids = {id(o) for o in res}
    out = []

    def entry(e: ast.AST):
        os_ = U.origins(p, e)
        if len(os_) == 1 and isinstance(os_[0], ast.Tuple) and len(os_[0].elts) == 2:
            return os_[0]
        return None

    for o in res:
        if isinstance(o, ast.Call) and isinstance(o.func, ast.Name) and o.func.id == "list" and len(o.args) == 1:
            o = o.args[0]
        if isinstance(o, (ast.ListComp, ast.GeneratorExp)):
            t = entry(o.elt)
            if t is None:
                raise AnalysisError(f"{x.E.raw.qn}: element of the returned sequence is not an (action, agent) pair")
            out.append((t, o, o))
    for c in L.calls_in(x.ef.node):
        if isinstance(c.func, ast.Attribute) and c.func.attr == "append" and len(c.args) == 1 and U.same_object(p, c.func.value, ids):
            t = entry(c.args[0])
            if t is None:
                raise AnalysisError(f"{x.E.raw.qn}: element appended to the returned sequence is not an (action, agent) pair")
            out.append((t, c, None))
    if not out:
        raise AnalysisError(f"{x.E.raw.qn}: construction of the returned action sequence not recognised")
    return out


def _agents_only(x: _Ctx, e: ast.AST) -> bool:
    """agent_names, possibly wrapped in set()/list()/tuple()/frozenset()"""
    try:
        tr = x.pe.trace(e)
    except KeyError:
        return False
    a = f"param:{x.E.param('AGENTS')}"
    return bool(tr) and all(t[0] == a and all(s in ("arg0:set", "arg0:frozenset", "arg0:list", "arg0:tuple") for s in t[1:]) for t in tr)


def _starred_rest(x: _Ctx, e: ast.AST, depth: int = 0) -> Optional[Tuple[ast.AST, int]]:
    """(right-hand side, position) when e is the name bound by `a, *e = rhs` (plain copies of the name are followed)"""
    p = x.pe
    if not (isinstance(e, ast.Name) and isinstance(e.ctx, ast.Load)) or depth > 6:
        return None
    try:
        defs = sorted(p.rd.defs_reaching(p.node_of(e), e.id))
    except KeyError:
        return None
    if len(defs) != 1 or defs[0] == p.g.entry:
        return None
    st = p.g.stmt[defs[0]]
    if isinstance(st, ast.AnnAssign) and st.value is not None and isinstance(st.value, ast.Name):
        return _starred_rest(x, st.value, depth + 1)
    if isinstance(st, ast.Assign) and len(st.targets) == 1:
        t = st.targets[0]
        if isinstance(t, ast.Name) and isinstance(st.value, ast.Name):
            return _starred_rest(x, st.value, depth + 1)
        if isinstance(t, (ast.Tuple, ast.List)):
            for i, el in enumerate(t.elts):
                if isinstance(el, ast.Starred) and isinstance(el.value, ast.Name) and el.value.id == e.id and i == len(t.elts) - 1:
                    return st.value, i
    return None


def _is_parameter_list(x: _Ctx, e: ast.AST) -> bool:
    """the tokens of the action after its name: tokens[1:] or the starred rest of `name, *rest = tokens`"""
    text = f"param:{x.E.param('TEXT')}"
    try:
        tr = U.short(x.pe.trace(e))
    except KeyError:
        return False
    for t in tr:
        if t[0] == text and "call:split" in t:
            k = [i for i, st_ in enumerate(t) if st_.startswith("slice:1:")]
            if k and k[-1] > t.index("call:split") and all(st_ in ("arg0:list", "arg0:tuple", "arg0:iter") for st_ in t[k[-1] + 1:]):
                return True
    sr = _starred_rest(x, e)
    if sr is not None and sr[1] == 1:
        return any(t[0] == text and "call:split" in t for t in U.short(x.pe.trace(sr[0])))
    return False


def _over_parameters(x: _Ctx, it: ast.AST) -> Tuple[bool, bool]:
    """(the iterable is the parameter list of the action [tokens after the name], it is the agent list)"""
    return _is_parameter_list(x, it), _agents_only(x, it)


def _first_match(x: _Ctx, agent: ast.AST) -> Tuple[bool, str]:
    p = x.pe
    why = "executing agent expression not recognised"
    for o in U.origins(p, agent):
        comp = None
        if isinstance(o, ast.Subscript) and isinstance(o.slice, ast.Constant) and o.slice.value == 0:
            inner = U.origins(p, o.value)
            if len(inner) == 1:
                comp = inner[0]
        elif isinstance(o, ast.Call) and isinstance(o.func, ast.Name) and o.func.id == "next" and o.args:
            inner = U.origins(p, o.args[0])
            if len(inner) == 1:
                comp = inner[0]
                if isinstance(comp, ast.Call) and isinstance(comp.func, ast.Name) and comp.func.id == "iter" and len(comp.args) == 1:
                    inner = U.origins(p, comp.args[0])
                    comp = inner[0] if len(inner) == 1 else None
        if isinstance(comp, (ast.ListComp, ast.GeneratorExp)) and len(comp.generators) == 1:
            gen = comp.generators[0]
            over_params, over_agents = _over_parameters(x, gen.iter)
            cond = gen.ifs[0] if len(gen.ifs) == 1 else None
            member = isinstance(cond, ast.Compare) and len(cond.ops) == 1 and isinstance(cond.ops[0], ast.In) and isinstance(cond.left, ast.Name) \
                and isinstance(gen.target, ast.Name) and cond.left.id == gen.target.id and _agents_only(x, cond.comparators[0])
            elt_is_var = isinstance(comp.elt, ast.Name) and isinstance(gen.target, ast.Name) and comp.elt.id == gen.target.id
            if over_params and not over_agents and member and elt_is_var:
                continue
            if not over_params or over_agents:
                return False, "the search runs over the agent list (first agent in agent_names that occurs in the action), not over the action's parameters"
            if not member:
                return False, "the filter is not membership in agent_names"
            return False, why
        if isinstance(o, ast.For):
            # for prm in parameters: if prm in agent_names: <use prm>; break
            over_params, over_agents = _over_parameters(x, o.iter)
            if not over_params or over_agents:
                return False, "the search runs over the agent list (first agent in agent_names that occurs in the action), not over the action's parameters"
            tests = [s for s in C.stmts_in(o.body) if isinstance(s, ast.If)]
            good = False
            for t in tests:
                c = t.test
                if isinstance(c, ast.Compare) and len(c.ops) == 1 and isinstance(c.ops[0], ast.In) and isinstance(c.left, ast.Name) \
                        and isinstance(o.target, ast.Name) and c.left.id == o.target.id and _agents_only(x, c.comparators[0]) \
                        and t.body and isinstance(t.body[-1], ast.Break):
                    good = True
            others = [s for s in C.stmts_in(o.body) if isinstance(s, (ast.Break, ast.Continue))]
            if good and len(others) == 1:
                continue
            return False, "the loop does not stop at the first parameter that is an agent name"
        return False, why
    return True, ""


def rule_agent(repo: Repo) -> RuleResult:
    r = RuleResult("C15.agent", "the executing agent of an action is the first of ITS parameters that is an agent name",
                   "each agent's actions stay in that agent's slot")
    x = _ctx(repo)
    r.site(x.c.qn + " [executing agent]")
    for t, site, _comp in _plan_entries(x):
        ok, why = _first_match(x, t.elts[1])
        if ok:
            r.ok({"executing_agent": "first parameter of the action that is in agent_names"})
        else:
            r.fail(Finding("C15.agent", x.c, "executing-agent", f"executing agent: {why}", node=t))
    r.require_sites(1)
    return r


# functions that scan a text with a regular expression: called on the `re` module they take (pattern, string, ..), called on a compiled pattern
# (string, ..) -- the plan text has to be the text that is scanned, never the pattern
REGEX_SCANNERS = ("finditer", "findall", "search", "match", "fullmatch")
REGEX_MODULE_ONLY = ("split", "sub", "subn")       # also methods of str: regular-expression calls only when they are called on the module


def _regex_scans(x: _Ctx) -> List[Tuple[ast.Call, Optional[ast.AST], Optional[ast.AST]]]:
    """(call, pattern operand, scanned-text operand) of every regular-expression scan in the extraction step"""
    mod = x.E.raw.mod
    local = {n.id for n in ast.walk(x.ef.node) if isinstance(n, ast.Name) and isinstance(n.ctx, ast.Store)} | set(x.ef.params)
    out = []
    for c in L.calls_in(x.ef.node):
        on_module = False
        if isinstance(c.func, ast.Attribute) and c.func.attr in REGEX_SCANNERS + REGEX_MODULE_ONLY:
            v = c.func.value
            on_module = isinstance(v, ast.Name) and v.id not in local and mod.imports.get(v.id) == ("re", None)
            if not on_module and c.func.attr in REGEX_MODULE_ONLY:
                continue
        elif isinstance(c.func, ast.Name) and c.func.id not in local and mod.imports.get(c.func.id, (None, None))[0] == "re" \
                and mod.imports[c.func.id][1] in REGEX_SCANNERS + REGEX_MODULE_ONLY:
            on_module = True
        else:
            continue
        kws = {k.arg: k.value for k in c.keywords if k.arg}
        if any(isinstance(a, ast.Starred) for a in c.args) or any(k.arg is None for k in c.keywords):
            out.append((c, None, None))
        elif on_module:
            spos = 2 if (c.func.attr if isinstance(c.func, ast.Attribute) else mod.imports[c.func.id][1]) in ("sub", "subn") else 1
            out.append((c, c.args[0] if c.args else kws.get("pattern"), c.args[spos] if len(c.args) > spos else kws.get("string")))
        else:
            out.append((c, c.func.value, c.args[0] if c.args else kws.get("string")))
    return out


def rule_extract(repo: Repo) -> RuleResult:
    r = RuleResult("C15.extract", "plan actions are read in match order, lower-cased; name = first token, parameters = the rest, agent = a parameter that is an agent name",
                   "keeps every action and each agent's relative order")
    x = _ctx(repo)
    p, g = x.pe, x.ge
    r.site(x.c.qn + " [action extraction]")
    text = f"param:{x.E.param('TEXT')}"
    entries = _plan_entries(x)
    ok = len(entries) == 1
    for t, site, comp in entries:
        calls = U.origins(p, t.elts[0])
        call = calls[0] if len(calls) == 1 else None
        if not (isinstance(call, ast.Call) and callee_name(call) == "ActionCall" and isinstance(call.func, ast.Name)):
            ok = False
            continue
        init = repo.find_method("ActionCall", "__init__")
        nm, pr = L.arg_of(call, init, "name", 0), L.arg_of(call, init, "grounded_parameters", 1)
        tn = U.short(p.trace(nm)) if nm is not None else set()
        tp = U.short(p.trace(pr)) if pr is not None else set()
        starred = pr is not None and _starred_rest(x, pr) is not None
        ok = ok and any(q[0] == text and "call:lower" in q and "call:split" in q and (q[-1] == "item:0" or (starred and q[-1] == "unpack:0")) for q in tn)
        ok = ok and pr is not None and _is_parameter_list(x, pr) and any(q[0] == text and "call:lower" in q and "call:split" in q for q in tp)
        reorder = ("arg0:sorted", "arg0:reversed", "arg0:set", "arg0:frozenset", "call:reverse", "call:sort")
        ok = ok and not any(any(s.startswith(reorder) for s in q) for q in tn | tp)
        if comp is not None:
            ok = ok and not any(gen.ifs for gen in comp.generators)
            its = [gen.iter for gen in comp.generators]
        else:
            n = g.node_containing(site)
            loops = _enclosing_loops(g, n)
            if not loops:
                ok = False
                continue
            head = loops[-1]
            at_least, at_most = U.per_iteration(g, head, {n})
            ok = ok and at_least and at_most and len(loops) == 1
            st = g.stmt[head]
            its = [st.iter] if isinstance(st, ast.For) else []
            ok = ok and bool(its)
        for it in its:
            ti = U.short(p.trace(it))
            ok = ok and any(q[0] == text for q in ti) and not any(any(s.startswith(reorder) for s in q) for q in ti)
    if ok:
        r.ok({"actions": "ActionCall(tokens[0], tokens[1:]) per match, in order"})
    else:
        r.fail(Finding("C15.extract", x.c, "extraction", "plan actions are not extracted one per match, in order, as (name, parameters)"))
    # the plan text is what the regular expression scans
    def from_text(e: Optional[ast.AST]) -> bool:
        try:
            return e is not None and any(q[0] == text for q in p.trace(e))
        except KeyError:
            return False

    for c, pat, scanned in _regex_scans(x):
        if pat is None and scanned is None:
            continue
        if not (from_text(pat) or from_text(scanned)):
            continue
        r.site(x.site(c, "regular-expression scan of the plan text"))
        if from_text(pat) or not from_text(scanned):
            r.fail(Finding("C15.extract", x.c, "regex-operands", f"`{unparse(c, 70)}`: the plan text is handed over as the PATTERN, the component expression as the text "
                           f"that is scanned: nothing matches and every action of the plan is lost", node=c))
        else:
            r.ok({"scan": unparse(c.func, 40), "scanned_text": "the plan text", "pattern": "not computed from the plan text"})
    r.require_sites(1)
    return r


def rule_footprint(repo: Repo) -> RuleResult:
    """what an action reads and writes is collected from EVERY effect group: inside the walk over `grounded_effects` no path through one
    group may skip the collection of its discrete or of its numeric effects (an effect group may have only one of the two kinds)"""
    r = RuleResult("C15.footprint", "the add / delete / numeric effects of every effect group of an operator are collected (no group is skipped)",
                   "two actions share a joint step only if they do not interfere: the interference test sees all the effects")
    mod = repo.module("multi_agent.single_agent_plan_converter")
    done = set()
    found = False
    for raw in [x for x in repo.all_funcs() if x.mod is mod]:
        f = L.fn(repo, raw.qn.split("::", 1)[1] if raw.cls else raw.qn)
        p = L.prov(repo, f)
        g = C.cfg_of(f.node)
        G = L.Guards(f, lambda e: None)

        def over(it, field):
            try:
                return any(x[-1] == f"attr:{field}" or (x[-1] in ("call:copy",) and x[-2] == f"attr:{field}") for x in p.trace(it))
            except KeyError:
                return False

        for lp in [n for n in ast.walk(f.node) if isinstance(n, ast.For) and over(n.iter, "grounded_effects")]:
            key = (getattr(lp, "lineno", 0), getattr(lp, "col_offset", 0))
            if key in done:
                continue
            done.add(key)
            found = True
            for field, what in (("grounded_discrete_effects", "discrete"), ("grounded_numeric_effects", "numeric")):
                r.site(L.site(f, lp, f"{what} effects of every group"))
                inner = [n for n in ast.walk(lp) if n is not lp and isinstance(n, ast.For) and over(n.iter, field)]
                inner_nodes = {g.node_of(n) for n in inner}
                for st in ast.walk(lp):     # comprehension / generator forms: the statement that holds them
                    if isinstance(st, ast.stmt) and st is not lp and not isinstance(st, ast.For):
                        hdr = C.header(st)
                        if hdr is not None and any(isinstance(c, ast.comprehension) and over(c.iter, field) for c in ast.walk(hdr)):
                            inner_nodes.add(g.node_of(st))
                inner_nodes.discard(None)
                if not inner_nodes:
                    r.fail(Finding("C15.footprint", f, f"effects-not-collected:{what}", f"the {what} effects of the effect groups are not collected", node=lp))
                elif not L.must_pass_in_loop(G, {}, lp, inner_nodes):
                    r.fail(Finding("C15.footprint", f, f"group-skipped:{what}", f"some path through one effect group skips the collection of its {what} effects "
                                   f"(a group with only the other kind of effects is then invisible to the interference test)", node=lp))
                else:
                    r.ok({"function": f.qn, "effects": what, "collected_for_every_group": True})
        for comp in [n for n in ast.walk(f.node) if isinstance(n, ast.comprehension) and over(n.iter, "grounded_effects")]:
            key = (getattr(comp.iter, "lineno", 0), getattr(comp.iter, "col_offset", 0), "c")
            if key in done:
                continue
            done.add(key)
            found = True
            r.site(L.site(f, comp.iter, "effect groups in a comprehension"))
            if comp.ifs:
                r.fail(Finding("C15.footprint", f, "group-filtered", f"effect groups are filtered ({unparse(comp.ifs[0], 50)}) before their effects are collected", node=comp.iter))
            else:
                r.ok({"function": f.qn, "groups": "unfiltered"})
    if not found:
        raise AnalysisError("C15.footprint: no walk over operator.grounded_effects found in the plan converter")
    r.require_sites(2)
    return r


# --------------------------------------------------------------------------------------------------------------- C15.members
GOOD = {"occupied": False, "applicable": True, "pair:*": False}


def _use_name(x: _Ctx, key: str) -> str:
    if key == "Operator":
        return "operator"
    if key.startswith("field:"):
        return "effects" if "effects" in key else "preconditions"
    if key in x.ex.by_name:
        return "extract:" + "/".join(sorted({k for comp in x.ex.by_name[key].values() for _i, k in comp}))
    return "collection"


def rule_members(repo: Repo) -> RuleResult:
    """the sets the interference test compares the candidate with must hold what EVERY action that is already part of the step reads
    and writes: each walk over the members of the slot list (or over something computed member by member) is complete (no slice,
    no filter other than the nop test, not left early while all tests pass), every non-nop member's iteration builds the operator /
    extracts its effects and preconditions / hands them on, and what was collected for earlier members is kept"""
    r = RuleResult("C15.members", "the interference test is fed with the effects and preconditions of every non-nop member of the step",
                   "two actions share a joint step only if they do not interfere: no member of the step is left out of the test")
    x = _ctx(repo)
    g, p, V = x.g, x.p, x.V
    V.reach(GOOD)
    M = x.M
    rel = [w for w in M.walks if w.relevant]
    acc_ops = [(e, role) for a, b, ra, rb in V.pair_operands for e, role in ((a, ra), (b, rb)) if role.split(".")[0] in ("acc", "mixed") and not role.endswith(".params")]
    r.site(x.c.qn + " [walks over the members of a step]")
    if not rel:
        if acc_ops:
            raise AnalysisError(f"{x.K.raw.qn}: the interference test reads sets computed from the members of the step, but no walk over the members "
                                f"that builds their operators was recognised")
        r.ok({"member_walks": 0})
        return r
    consumed = {w.source for w in rel}
    for w in rel:
        what = unparse(w.iter, 50)
        r.site(x.site(w.owner if w.kind == "comp" else w.node, "walk over the members"))
        bad = False
        if w.status == "unknown":
            raise AnalysisError(f"{x.K.raw.qn}: `{what}` reads the members of the step in a way that is not interpreted")
        if w.status == "restricted":
            r.fail(Finding("C15.members", x.c, "members-restricted", f"the walk over `{what}` leaves out members of the step (slice / islice): their effects "
                           f"never reach the interference test", node=w.owner))
            bad = True
        nop = M.nop_atom(w)
        if w.kind == "comp":
            for cond in w.node.ifs:
                c, neg = cond, False
                while isinstance(c, ast.UnaryOp) and isinstance(c.op, ast.Not):
                    c, neg = c.operand, not neg
                a = nop(c)
                if a is None or (a[1] != neg):
                    r.fail(Finding("C15.members", x.c, "members-filtered", f"members of the step are filtered by `{unparse(cond, 50)}` (not the nop test) before "
                                   f"their effects are collected", node=w.owner))
                    bad = True
        else:
            head = g.node_of(w.node)
            body = M.body_nodes(w)
            starts = [m for m, l in g.succ[head] if l == "iter"]
            sc = dict(GOOD)
            sc["member-is-nop"] = False
            V.extra = lambda e, nop=nop: nop(e)
            try:
                seen = V.reach(sc, start=starts, avoid={head})
                if any(n not in body and n != head and n != g.raise_ for n in seen):
                    r.fail(Finding("C15.members", x.c, "walk-left-early", f"the walk over `{what}` can end before the last member although every test passes: "
                                   f"the remaining members never reach the interference test", node=w.node))
                    bad = True
                # an idle (nop) slot is skipped, it does not end the walk: the members behind it are part of the step too
                sc_nop = dict(GOOD)
                sc_nop["member-is-nop"] = True
                seen_nop = V.reach(sc_nop, start=starts, avoid={head})
                if not bad and any(n not in body and n != head and n != g.raise_ for n in seen_nop):
                    r.fail(Finding("C15.members", x.c, "walk-left-at-nop-member", f"the walk over `{what}` ends at the first slot that holds a nop: the members in the "
                                   f"slots behind it (agents later in the given agent order) never reach the interference test", node=w.node))
                    bad = True
                groups: Dict[str, Set[int]] = {}
                for key, nodes in w.uses.items():
                    for n in nodes:
                        cn = g.node_of(n) if isinstance(n, ast.stmt) else g.node_containing(n.iter if isinstance(n, ast.comprehension) else n)
                        if cn is not None:
                            groups.setdefault(_use_name(x, key), set()).add(cn)
                for c_id, site_ in w.feeds:
                    if c_id in consumed:
                        cn = g.node_of(site_) if isinstance(site_, ast.stmt) else g.node_containing(site_)
                        if cn is not None:
                            groups.setdefault("collection", set()).add(cn)
                for name, targets in sorted(groups.items()):
                    st_ = [s_ for s_ in starts if s_ not in targets]
                    seen = V.reach(sc, start=st_, avoid=set(targets) | (set(g.nodes()) - body)) if st_ else set()
                    if head in seen:
                        r.fail(Finding("C15.members", x.c, f"member-skipped:{name}", f"some way through the walk over `{what}` skips a non-nop member ({name}): "
                                       f"what it reads and writes never reaches the interference test", node=w.node))
                        bad = True
            finally:
                V.extra = None
        # a container that is filled member by member and read after the walk must outlive the walk
        feeder = M.containers.get(w.source)
        site_node = M.container_nodes.get(w.source)
        if feeder is not None and feeder.kind == "for" and site_node is not None and any(n is site_node for s_ in feeder.node.body for n in ast.walk(s_)) \
                and not any(n is w.node or n is w.owner for s_ in feeder.node.body for n in ast.walk(s_)):
            r.fail(Finding("C15.members", x.c, "not-accumulated", f"`{what}` is created anew for every member: only the last member reaches the interference test", node=w.node))
            bad = True
        if not bad:
            r.ok({"walk": what, "kind": w.kind, "computes": sorted(_use_name(x, k) for k in getattr(w, "uses", {}))})
    # what was collected for earlier members is kept
    r.site(x.c.qn + " [accumulated sets]")
    lost = []
    for e, role in acc_ops:
        os_ = U.origins(p, e) if isinstance(e, ast.Name) else [e]
        ids = {id(o) for o in os_}
        for w in rel:
            if w.kind != "for" or M.inside(w, e):
                continue
            for o in os_:
                if not any(n is o for s_ in w.node.body for n in ast.walk(s_)):
                    continue
                if isinstance(o, ast.AugAssign):
                    continue
                refs = [n for n in ast.walk(o) if isinstance(n, ast.Name) and isinstance(n.ctx, ast.Load)]
                if not any(ids & {id(q) for q in U.origins(p, n)} for n in refs) and not any(o is o2 for _e, _r, o2 in lost):
                    lost.append((e, role, o))
    if lost:
        for e, role, o in lost:
            r.fail(Finding("C15.members", x.c, "not-accumulated", f"the set `{unparse(e, 40)}` ({role}) is overwritten for every member ({unparse(o, 50)}): only "
                           f"the last member reaches the interference test", node=o if isinstance(o, ast.AST) else None))
    else:
        r.ok({"accumulated_sets": len(acc_ops)})
    return r

# --------------------------------------------------------------------------------------------------------------- C15.drain
# ways a list loses / gains elements: the emptiness argument of C15.drain needs the remaining plan to shrink only
PLAN_GROWERS = ("append", "extend", "insert", "__iadd__", "__setitem__")
PLAN_EMPTY = "plan-empty"
_LEN_OPS = {ast.Gt: lambda n, c: n > c, ast.GtE: lambda n, c: n >= c, ast.Lt: lambda n, c: n < c, ast.LtE: lambda n, c: n <= c,
            ast.Eq: lambda n, c: n == c, ast.NotEq: lambda n, c: n != c}


def _for_all_from(lower: int, op: type, c: int) -> Optional[bool]:
    """the value of `n <op> c` when it is the same for every n >= lower (a plan of unknown length), else None"""
    at_low, at_far = _LEN_OPS[op](lower, c), _LEN_OPS[op](max(abs(c), lower) + 2, c)
    if op in (ast.Gt, ast.GtE, ast.Lt, ast.LtE):
        return at_low if at_low == at_far else None         # monotone in n
    if op is ast.Eq:
        return False if c < lower else None
    return True if c < lower else None


def _packing_stores(x: _Ctx) -> Tuple[Set[int], Dict[int, int], Set[int]]:
    """(nodes that create the slot list of a step, CFG node of every store into it, nodes of the stores that can follow another store of the same step)"""
    g = x.g
    creation = {g.node_containing(o) for o in x.slot_nodes} - {None}
    node = {id(s): g.node_of(s) for s in x.stores}
    later: Set[int] = set()
    for s in x.stores:
        after: Set[int] = set()
        for m, _l in g.succ[node[id(s)]]:
            after |= C.reachable_from(g, m, avoid=creation)
        later |= {n for n in node.values() if n in after}
    return creation, node, later


def _evaluated_under(x: _Ctx, expr: ast.AST, tv) -> bool:
    """inside its statement the expression is not cut off by a conditional expression / short-circuit operand / comprehension filter that `tv` decides"""
    pm = L.parents_of(x.kf)
    cur = expr
    while cur in pm and not isinstance(cur, ast.stmt):
        par = pm[cur]
        if isinstance(par, ast.IfExp) and cur is not par.test:
            t = C.eval3(par.test, tv)
            if t is not None and (cur is par.body) != t:
                return False
        if isinstance(par, ast.BoolOp):
            i = next(k for k, v in enumerate(par.values) if v is cur)
            for prev in par.values[:i]:
                pv = C.eval3(prev, tv)
                if (isinstance(par.op, ast.And) and pv is False) or (isinstance(par.op, ast.Or) and pv is True):
                    return False
        if isinstance(par, U.COMPS) and not isinstance(cur, ast.comprehension):
            if any(C.eval3(c, tv) is False for gen in par.generators for c in gen.ifs):
                return False
        cur = par
    return True


class _PlanLength:
    """Tests of the length of the remaining plan as atoms of the Verdict valuation (hook `Verdict.extra`).

    The remaining plan only shrinks, by pop.  A test is an atom whose value depends on the scenario:
      * `actions are left when the function returns`: the plan was non-empty all the time, its length where the test is evaluated is >= 1,
        and >= 2 where a pop is still to come on every way to the exit (or lies between the place the length was taken and the test);
      * `the pop P took the last action`: the length is 0 wherever it is taken after P, and 1 where it was taken before P with nothing but P
        in between (a local that holds the length, or -- through the start environment -- a boolean local computed from it)."""

    def __init__(self, x: _Ctx, pops: List[ast.Call]):
        self.x, self.g, self.p = x, x.g, x.p
        self.root = f"param:{x.plan}"
        self.em = L.emptiness_matcher(x.p, {self.root: PLAN_EMPTY})
        self.pop_nodes: Set[int] = {x.g.node_containing(c) for c in pops} - {None}
        self.atoms: Dict[str, Tuple[type, int, int, Optional[int]]] = {}     # name -> (op, constant, lower bound when non-empty, pop in between)
        self._after: Dict[int, Set[int]] = {}
        for n in ast.walk(x.kf.node):
            if isinstance(n, ast.Compare):
                self.atom(n)

    def is_plan(self, e: ast.AST) -> bool:
        return self.x.only(e, (self.root,))

    def after(self, n: int, avoid: frozenset = frozenset()) -> Set[int]:
        key = (n, avoid)
        if key not in self._after:
            out: Set[int] = set()
            for m, _l in self.g.succ[n]:
                out |= C.reachable_from(self.g, m, avoid=set(avoid))
            self._after[key] = out
        return self._after[key]

    def pops_between(self, d: int, u: int) -> Optional[Set[int]]:
        """the pops that are executed between node d and node u: the empty set, {P} when every way from d to u passes P exactly once,
        None when it cannot be told"""
        if d == u:
            return set()
        reach = self.after(d, frozenset({d}))
        between = {pn for pn in self.pop_nodes & reach if pn == u or u in self.after(pn, frozenset({d}))}
        if not between:
            return set()
        if len(between) != 1:
            return None
        (pn,) = between
        if pn == u or u in self.after(d, frozenset({d, pn})) or pn in self.after(pn, frozenset({d, u})):
            return None
        return {pn}

    def length(self, e: ast.AST) -> Optional[Tuple[int, Set[int]]]:
        """(node where the length is taken, pops between there and the place e is evaluated) when e is len(<remaining plan>) or a local
        that holds it"""
        if isinstance(e, ast.Call) and isinstance(e.func, ast.Name) and e.func.id == "len" and len(e.args) == 1 and not e.keywords:
            n = self.g.node_containing(e)
            return (n, set()) if n is not None and self.is_plan(e.args[0]) else None
        if isinstance(e, ast.Name) and isinstance(e.ctx, ast.Load):
            try:
                use = self.p.node_of(e)
                defs = sorted(self.p.rd.defs_reaching(use, e.id))
            except KeyError:
                return None
            if len(defs) != 1 or defs[0] == self.g.entry:
                return None
            st = self.g.stmt[defs[0]]
            val = st.value if isinstance(st, (ast.Assign, ast.AnnAssign)) and st.value is not None else None
            if val is None or (isinstance(st, ast.Assign) and not (len(st.targets) == 1 and isinstance(st.targets[0], ast.Name))):
                return None
            if not (isinstance(val, ast.Call) and self.length(val) is not None):
                return None
            between = self.pops_between(defs[0], use)
            return None if between is None else (defs[0], between)
        return None

    def atom(self, e: ast.AST) -> Optional[Tuple[str, bool]]:
        if isinstance(e, ast.Compare) and len(e.ops) == 1:
            for a_, b_, flip in ((e.left, e.comparators[0], False), (e.comparators[0], e.left, True)):
                if isinstance(b_, ast.Constant) and type(b_.value) is int:
                    ln = self.length(a_)
                    if ln is None:
                        continue
                    op = type(e.ops[0])
                    if flip:
                        op = {ast.Lt: ast.Gt, ast.Gt: ast.Lt, ast.LtE: ast.GtE, ast.GtE: ast.LtE}.get(op, op)
                    if op not in _LEN_OPS:
                        return None
                    taken, between = ln
                    stale = next(iter(between)) if between else None
                    # a pop that is still to come on every way from here to the exit takes one more action
                    lower = 2 if stale is not None or self.g.exit not in self.after(taken, frozenset(self.pop_nodes)) else 1
                    name = f"plan-len:{op.__name__}:{b_.value}:{lower}:{stale}"
                    self.atoms[name] = (op, b_.value, lower, stale)
                    return name, True
        a = self.em(e)
        if a is not None:
            return a.lstrip("!"), not a.startswith("!")
        return None

    def scenario(self, empty: bool, last_pop: Optional[int] = None, **more) -> Dict[str, bool]:
        sc: Dict[str, bool] = {PLAN_EMPTY: empty}
        for name, (op, c, lower, stale) in self.atoms.items():
            if not empty:
                v = _for_all_from(lower, op, c)
            elif stale is None:
                v = _LEN_OPS[op](0, c)
            else:
                v = _LEN_OPS[op](1, c) if stale == last_pop else None
            if v is not None:
                sc[name] = v
        sc.update(more)
        return sc

    def known_after(self, pop_node: int) -> Dict[str, bool]:
        """boolean locals whose value behind the pop is known when that pop took the last action: they were computed from the length of the
        plan (then 1) with no other pop in between"""
        out: Dict[str, bool] = {}

        def one_left(e):
            if isinstance(e, ast.Compare) and len(e.ops) == 1:
                for a_, b_, flip in ((e.left, e.comparators[0], False), (e.comparators[0], e.left, True)):
                    if isinstance(b_, ast.Constant) and type(b_.value) is int and self.length(a_) is not None and not self.length(a_)[1]:
                        op = type(e.ops[0])
                        if flip:
                            op = {ast.Lt: ast.Gt, ast.Gt: ast.Lt, ast.LtE: ast.GtE, ast.GtE: ast.LtE}.get(op, op)
                        return _LEN_OPS[op](1, b_.value) if op in _LEN_OPS else None
            a = self.em(e)
            if a is not None:
                return a.startswith("!")        # one action is left: the plan is not empty
            return None

        for m, _l in self.g.succ[pop_node]:
            for name in {n.id for n in ast.walk(self.x.kf.node) if isinstance(n, ast.Name) and isinstance(n.ctx, ast.Store)}:
                defs = sorted(self.p.rd.defs_reaching(m, name))
                if len(defs) != 1 or defs[0] in (self.g.entry, pop_node):
                    continue
                st = self.g.stmt[defs[0]]
                val = st.value if isinstance(st, (ast.Assign, ast.AnnAssign)) and st.value is not None else None
                if val is None or (isinstance(st, ast.Assign) and not (len(st.targets) == 1 and isinstance(st.targets[0], ast.Name))):
                    continue
                d = defs[0]
                reach = self.after(d, frozenset({d}))
                if pop_node not in reach or pop_node in self.after(pop_node, frozenset({d})):
                    continue        # the pop can run more than once after the value was computed
                if any(pn != pop_node and pop_node in self.after(pn, frozenset({d})) for pn in self.pop_nodes & reach):
                    continue        # another pop in between
                v = C.eval3(val, one_left)
                if v is not None:
                    out[name] = v
        return out


def rule_drain(repo: Repo) -> RuleResult:
    """Every action exactly once needs the remaining plan to be consumed to its end, and a valid plan must not make the conversion raise.  The
    remaining plan only shrinks (checked), so `it is empty` is stable from the moment it holds and `it is not empty` held all the time before a
    moment at which it holds.  Hence (1) an execution that returns while actions are left is one on which every emptiness test said `not empty`:
    under that valuation no normal return may be reachable; (2) from the function entry and from behind every pop, under the valuation `empty
    from here on`, no read of the head of the plan (plan[0] / plan.pop(..)) may be reachable -- for a pop that filled a further slot of the same
    step the slot tested for the (not re-read) candidate is occupied from there until the next slot list is created."""
    r = RuleResult("C15.drain", "the step loop ends only when the remaining plan is empty and never reads the head of an empty plan",
                   "keeps every action exactly once; every valid sequential plan is converted")
    x = _ctx(repo)
    g, p, V = x.g, x.p, x.V
    root = f"param:{x.plan}"

    def is_plan(e: ast.AST) -> bool:
        return x.only(e, (root,))

    pops, heads, growers = [], [], []
    for n in ast.walk(x.kf.node):
        if isinstance(n, ast.Call) and isinstance(n.func, ast.Attribute) and is_plan(n.func.value):
            if n.func.attr == "pop":
                pops.append(n)
                heads.append(n)
            elif n.func.attr in PLAN_GROWERS:
                growers.append(n)
        elif isinstance(n, ast.Subscript) and isinstance(n.ctx, ast.Load) and not isinstance(n.slice, ast.Slice) and is_plan(n.value):
            heads.append(n)
        elif isinstance(n, ast.Subscript) and isinstance(n.ctx, ast.Store) and is_plan(n.value):
            growers.append(n)
        elif isinstance(n, ast.AugAssign) and is_plan(n.target):
            growers.append(n)
    if not pops:
        raise AnalysisError(f"{x.K.raw.qn}: the remaining plan is not consumed by pop(): the way the step loop ends is not interpreted")
    creation, node, later = _packing_stores(x)
    PL = _PlanLength(x, pops)
    V.extra = PL.atom
    try:
        # (1) no normal return while actions are left
        r.site(x.c.qn + " [end of the step loop]")
        seen = V.reach(PL.scenario(False))
        if g.exit in seen:
            r.fail(Finding("C15.drain", x.c, "returns-with-actions-left", "the conversion can return although the remaining plan is not empty (no test on the way "
                           "says that it is empty): the actions that are left are lost, the joint plan ends in another state"))
        else:
            r.ok({"returns_only_when": "the remaining plan is empty"})
        # (2) no read of the head of an empty plan
        r.site(x.c.qn + " [reads of the head of the remaining plan]")
        stored_later = [s for s in x.stores if node[id(s)] in later]
        bad: Dict[int, Tuple[ast.AST, str]] = {}
        starts: List[Tuple[str, Optional[int], List[int], bool]] = [("the plan is empty from the start", None, [g.entry], False)]
        for c in pops:
            n = g.node_containing(c)
            if n is None:
                continue
            packed = any(any(q is c for q in U.flows_from(p, s.value)) for s in stored_later)
            starts.append((f"`{unparse(c, 40)}` took the last action", n, [m for m, _l in g.succ[n]], packed))
        for why, pop_node, st, packed in starts:
            known = PL.known_after(pop_node) if pop_node is not None else {}
            sc = PL.scenario(True, pop_node)
            if packed:
                sc = PL.scenario(True, pop_node, occupied=True)
                seen = V.reach_from(sc, st, avoid=creation, known=known)
                again = [n for n in creation if n in seen]
                if again:
                    seen |= V.reach_from(PL.scenario(True, pop_node), again)
            else:
                seen = V.reach_from(sc, st, known=known)
            tv = lambda e, sc=sc: V.tv(e, sc, None)
            for h in heads:
                n = g.node_containing(h)
                if n in seen and id(h) not in bad and _evaluated_under(x, h, tv):
                    bad[id(h)] = (h, why)
        for h, why in bad.values():
            r.fail(Finding("C15.drain", x.c, "head-read-of-empty-plan", f"`{unparse(h, 50)}` can be evaluated when the remaining plan is empty ({why}): a valid plan "
                           f"makes the conversion raise IndexError instead of giving its joint plan", node=h))
        if not bad:
            r.ok({"head_reads": len(heads), "guarded_by": "an emptiness test of the remaining plan"})
    finally:
        V.extra = None
    if r.findings:
        # the argument needs a plan that only shrinks and helpers that are all read: otherwise what looks like a defect cannot be told from one
        if growers:
            raise AnalysisError(f"{x.K.raw.qn}: the remaining plan also grows ({unparse(growers[0], 50)}): emptiness of the plan is not stable")
        if x.opaque:
            raise AnalysisError(f"{x.K.raw.qn}: the private helper(s) {x.opaque} could not be inlined; what they do to the remaining plan is unknown")
    r.require_sites(2)
    return r


def rules(repo: Repo, tier: str) -> List[RuleResult]:
    return [rule_guard(repo), rule_once(repo), rule_thread(repo), rule_agent(repo), rule_extract(repo), rule_footprint(repo), rule_members(repo), rule_drain(repo)]
