"""Helpers of the C18 rules (candidates for promotion into sa/lib.py):

  * `anchor`            flattened public function; public repository helpers that receive one of the watched fields are inlined too
  * `View`              provenance view of one function: object identity of expressions (`is_obj`), traces without the
                        read-back of content that the function itself writes into the watched container (`content`)
  * `writes`            every way a container object (given by its provenance path, e.g. ('self', 'attr:signature')) is written:
                        rebind / clear / insert-map / insert-item / insert-elem / remove
  * `replacement`       "the container is replaced by a freshly built content": the writes, the order of clear / reads / inserts
  * `filtered`          an insertion site that does not execute for every element (comprehension filter, `if`, continue / break)
  * `ordered_source`    grammar of paths that denote "the i-th key / the i-th value of a dict, in the dict's own order"
"""
from __future__ import annotations

import ast
from typing import Dict, Iterable, List, Optional, Sequence, Set, Tuple

from .. import cfg as C
from .. import lib as L
from ..core import FuncInfo, Repo
from ..prov import callee_name

Path = Tuple[str, ...]

REMOVERS = ("pop", "popitem", "__delitem__", "remove", "discard", "difference_update", "intersection_update")
MAP_INSERTERS = ("update", "__ior__", "extend", "union_update")
ITEM_INSERTERS = ("__setitem__", "setdefault")
ELEM_INSERTERS = ("add", "append", "insert", "appendleft")
WRITE_METHODS = REMOVERS + MAP_INSERTERS + ITEM_INSERTERS + ELEM_INSERTERS + ("clear",)

# steps that hand a container on without changing the order of its elements
ORDER_PASS = {"arg0:list", "arg0:tuple", "arg0:iter", "arg0:dict", "call:copy", "arg0:OrderedDict", "arg0:deepcopy", "arg0:copy",
              "call:__iter__", "arg0:deque"}
# steps after which the order of the elements is another one (or none)
ORDER_LOST = ("arg0:sorted", "arg0:reversed", "arg0:set", "arg0:frozenset", "call:__reversed__", "arg0:shuffle", "arg0:sample",
              "arg0:Counter", "arg0:nlargest", "arg0:nsmallest")
LOOKUPS = ("item", "call:get", "call:__getitem__")


def is_content_step(s: str) -> bool:
    """the value is put into / handed on inside a container (no selection, no reordering)"""
    return s.startswith("in:") or (s.startswith("zip") and s[3:].isdigit()) or s in ORDER_PASS


UNORDERED_PASS = ("arg0:set", "arg0:frozenset", "arg0:sorted", "arg0:reversed", "arg0:list", "arg0:tuple")


def strip_content(p: Path, unordered: bool = False) -> Path:
    """drop the trailing steps that only put the value into containers / hand the container on (unordered=True: the container is a
    set, so conversions that change the order are harmless too)"""
    p = tuple(p)
    while p and (is_content_step(p[-1]) or (unordered and p[-1] in UNORDERED_PASS)):
        p = p[:-1]
    return p


def anchor(repo: Repo, spec: str, fields: Iterable[str] = ()) -> FuncInfo:
    """L.fn(spec) where, beyond the private helpers, public repository functions that are handed self.<field> are inlined as well
    (a maintainer may move the construction of the renamed container into a shared utility)"""
    raw = repo.func(spec)
    also: Set[str] = set()
    fields = set(fields)
    if fields and raw.self_name:
        for c in L.calls_in(raw.node):
            name = callee_name(c)
            if name == raw.name or name.startswith("_"):
                continue
            for a in list(c.args) + [k.value for k in c.keywords]:
                if any(isinstance(n, ast.Attribute) and n.attr in fields and isinstance(n.value, ast.Name) and n.value.id == raw.self_name
                       for n in ast.walk(a)):
                    also.add(name)
    return _desugar(L.fn(repo, spec, also=also or None))


class _MapLambda(ast.NodeTransformer):
    """map(lambda x: E, IT) -> (E for x in IT);  filter(lambda x: C, IT) -> (x for x in IT if C): the provenance engine does not look
    into lambdas, a generator expression says the same"""

    def __init__(self):
        self.changed = False

    def visit_Call(self, n):
        self.generic_visit(n)
        if isinstance(n.func, ast.Name) and n.func.id in ("map", "filter") and len(n.args) == 2 and not n.keywords and isinstance(n.args[0], ast.Lambda):
            lam = n.args[0]
            a = lam.args
            if len(a.args) == 1 and not (a.posonlyargs or a.kwonlyargs or a.vararg or a.kwarg or a.defaults):
                self.changed = True
                tgt = ast.Name(id=a.args[0].arg, ctx=ast.Store())
                if n.func.id == "map":
                    gen = ast.GeneratorExp(elt=lam.body, generators=[ast.comprehension(target=tgt, iter=n.args[1], ifs=[], is_async=0)])
                else:
                    gen = ast.GeneratorExp(elt=ast.Name(id=a.args[0].arg, ctx=ast.Load()),
                                           generators=[ast.comprehension(target=tgt, iter=n.args[1], ifs=[lam.body], is_async=0)])
                return ast.fix_missing_locations(ast.copy_location(gen, n))
        return n


_desugared: Dict[int, FuncInfo] = {}


def _desugar(f: FuncInfo) -> FuncInfo:
    k = id(f.node)
    if k in _desugared:
        return _desugared[k]
    out = f
    if any(isinstance(n, ast.Lambda) for n in ast.walk(f.node)):
        import copy
        node = copy.deepcopy(f.node)
        t = _MapLambda()
        node = t.visit(node)
        if t.changed:
            ast.fix_missing_locations(node)
            out = FuncInfo(f.mod, f.cls, node, static=f.static)
            out.qn = f.qn
            for attr in ("flat_of", "inlined"):
                if hasattr(f, attr):
                    setattr(out, attr, getattr(f, attr))
    _desugared[k] = out
    return out


class View:
    def __init__(self, repo: Repo, f: FuncInfo):
        self.repo, self.f = repo, f
        self.p = L.prov(repo, f)
        self.g = C.cfg_of(f.node)
        self.pm = L.parents_of(f)
        self._alias_names: Dict[Path, Set[str]] = {}

    # ---------------------------------------------------------------- identity
    def trace(self, e: ast.AST, keys: bool = False, under=None) -> Set[Path]:
        try:
            return self.p.trace(e, keys=keys, under=under)
        except KeyError:
            return set()

    def identity(self, e: ast.AST) -> Set[Path]:
        """the objects the expression may denote (paths without content flows)"""
        return {x for x in self.trace(e) if not any(s.startswith("in:") for s in x)}

    def is_obj(self, e: ast.AST, obj: Path) -> bool:
        return obj in self.identity(e)

    def alias_names(self, obj: Path) -> Set[str]:
        """local names that (may) denote the object"""
        if obj not in self._alias_names:
            out: Set[str] = set()
            for n in ast.walk(self.f.node):
                if isinstance(n, ast.Name) and isinstance(n.ctx, ast.Load) and n.id not in out and self.is_obj(n, obj):
                    out.add(n.id)
            self._alias_names[obj] = out
        return self._alias_names[obj]

    def content(self, e: ast.AST, obj: Optional[Path] = None, keys: bool = True, under=None) -> Set[Path]:
        """trace(e) without the paths that read back what this function itself stores into (an alias of) `obj`:
        the flow-insensitive content relation would otherwise make the new content of a container one of its own sources"""
        tr = self.trace(e, keys=keys, under=under)
        if obj is None:
            return tr
        names = self.alias_names(obj)
        if not names:
            return tr
        return {x for x in tr if not any(s.startswith("in:") and "@" in s and s.split("@", 1)[1] in names for s in x)}

    # ---------------------------------------------------------------- statements / loops
    def node_of(self, n: ast.AST) -> Optional[int]:
        if isinstance(n, ast.stmt):
            r = self.g.node_of(n)
            if r is not None:
                return r
        try:
            return self.p.node_of(n)
        except KeyError:
            return self.g.node_containing(n)

    def ancestors(self, n: ast.AST):
        cur = n
        while cur in self.pm:
            cur = self.pm[cur]
            yield cur


def _is_empty_literal(x: ast.AST) -> bool:
    if isinstance(x, (ast.List, ast.Set, ast.Tuple)) and not x.elts:
        return True
    if isinstance(x, ast.Dict) and not x.keys:
        return True
    return isinstance(x, ast.Call) and isinstance(x.func, ast.Name) and x.func.id in ("list", "set", "dict", "tuple", "OrderedDict") \
        and not x.args and not x.keywords


class Write:
    __slots__ = ("kind", "site", "key", "value")

    def __init__(self, kind: str, site: ast.AST, key: Optional[ast.AST] = None, value: Optional[ast.AST] = None):
        self.kind, self.site, self.key, self.value = kind, site, key, value

    def __repr__(self):
        return f"<{self.kind} {ast.unparse(self.site)[:50]}>"


def writes(v: View, obj: Path) -> List[Write]:
    """all writes to the container object `obj` = (<owner path..>, 'attr:<field>'):
       rebind       owner.field = X
       clear        C.clear()
       insert-map   C.update(X) / C |= X / C.extend(X)
       insert-item  C[k] = x / C.__setitem__(k, x) / C.setdefault(k, x)
       insert-elem  C.add(x) / C.append(x)
       remove       C.pop(k) / del C[k] / C.remove(x) / C.discard(x) ..
    where C is any expression that denotes the object (attribute chain or local alias)"""
    out: List[Write] = []
    owner, fld = obj[:-1], obj[-1][5:] if obj[-1].startswith("attr:") else None

    def is_c(e):
        return v.is_obj(e, obj)

    def is_field_target(t):
        return fld is not None and isinstance(t, ast.Attribute) and t.attr == fld and tuple(owner) in v.identity(t.value)

    for n in ast.walk(v.f.node):
        if isinstance(n, ast.Call) and isinstance(n.func, ast.Attribute) and n.func.attr in WRITE_METHODS and is_c(n.func.value):
            a = n.func.attr
            args = list(n.args) + [k.value for k in n.keywords]
            if a == "clear":
                out.append(Write("clear", n))
            elif a in REMOVERS:
                out.append(Write("remove", n, key=args[0] if args else None))
            elif a in MAP_INSERTERS and args:
                out.append(Write("insert-map", n, value=args[0]))
            elif a in ITEM_INSERTERS and len(args) >= 2:
                out.append(Write("insert-item", n, key=args[0], value=args[1]))
            elif a in ELEM_INSERTERS and args:
                out.append(Write("insert-elem", n, value=args[-1]))
        elif isinstance(n, (ast.Assign, ast.AnnAssign)) and n.value is not None:
            for t in (n.targets if isinstance(n, ast.Assign) else [n.target]):
                if isinstance(t, ast.Subscript) and is_c(t.value):
                    out.append(Write("insert-item", n, key=t.slice, value=n.value))
                elif is_field_target(t):
                    # re-binding to a new empty container = dropping the old content; later writes go to the new object
                    out.append(Write("clear", n) if _is_empty_literal(n.value) else Write("rebind", n, value=n.value))
        elif isinstance(n, ast.AugAssign) and isinstance(n.op, (ast.BitOr, ast.Add)):
            t = n.target
            if is_field_target(t) or (isinstance(t, ast.Name) and t.id in v.alias_names(obj)):
                out.append(Write("insert-map", n, value=n.value))
        elif isinstance(n, ast.Delete):
            for t in n.targets:
                if isinstance(t, ast.Subscript) and is_c(t.value):
                    out.append(Write("remove", n, key=t.slice))
    return out


def loops_around(v: View, n: ast.AST) -> List[ast.AST]:
    """enclosing loops and comprehensions (innermost first)"""
    return [x for x in v.ancestors(n) if isinstance(x, (ast.For, ast.While, ast.ListComp, ast.SetComp, ast.DictComp, ast.GeneratorExp))]


COMPS = (ast.ListComp, ast.SetComp, ast.DictComp, ast.GeneratorExp)


def _filtered_site(v: View, site: ast.AST, value: Optional[ast.AST]) -> Optional[str]:
    comps = [x for x in ast.walk(value) if isinstance(x, COMPS)] if value is not None else []
    for c in comps:
        if any(g_.ifs for g_ in c.generators):
            return "the comprehension has a filter"
    anc = list(v.ancestors(site))
    loops = [x for x in anc if isinstance(x, (ast.For, ast.While))]
    inside_loop = set()
    for lp in loops:
        inside_loop |= {id(x) for x in ast.walk(lp)}
    for x in anc:
        if isinstance(x, COMPS) and any(g_.ifs for g_ in x.generators):
            return "the comprehension has a filter"
        if isinstance(x, ast.IfExp):
            return "the insertion is conditional"
        if isinstance(x, ast.If) and not getattr(x, "_inline_block", False) and id(x) in inside_loop:
            return "the insertion is conditional"
        if isinstance(x, ast.Try) and id(x) in inside_loop:
            return "the insertion is inside try/except"
    for lp in loops:
        for s_ in C.stmts_in(lp.body):
            if isinstance(s_, (ast.Continue, ast.Break)):
                return "the loop skips elements (continue / break)"
    return None


def filtered(v: View, site: ast.AST, value: Optional[ast.AST] = None) -> Optional[str]:
    """why the insertion at `site` (inserting `value`: an element, a comprehension, or a local container that is filled elsewhere)
    does not happen for every element; None when it does"""
    why = _filtered_site(v, site, value)
    if why or value is None:
        return why
    locals_ = {n.id for n in ast.walk(value) if isinstance(n, ast.Name) and isinstance(n.ctx, ast.Load)} - set(v.f.params)
    if not locals_:
        return None
    names = L.aliases(v.f, sorted(locals_))
    for n in ast.walk(v.f.node):
        if isinstance(n, (ast.Assign, ast.AnnAssign)) and n.value is not None:
            tg = n.targets if isinstance(n, ast.Assign) else [n.target]
            if any(isinstance(t, ast.Name) and t.id in names for t in tg):
                why = _filtered_site(v, n, n.value)
            elif any(isinstance(t, ast.Subscript) and isinstance(t.value, ast.Name) and t.value.id in names for t in tg):
                why = _filtered_site(v, n, None)
        elif isinstance(n, ast.Call) and isinstance(n.func, ast.Attribute) and isinstance(n.func.value, ast.Name) and n.func.value.id in names \
                and n.func.attr in ELEM_INSERTERS + MAP_INSERTERS + ITEM_INSERTERS:
            why = _filtered_site(v, n, n.args[0] if n.args and n.func.attr in MAP_INSERTERS else None)
        if why:
            return why
    return None


def _content_reads(v: View, obj: Path) -> List[ast.AST]:
    """expressions that read the CONTENT of the object (not: binding an alias, not: the receiver of a write)"""
    out = []
    for n in ast.walk(v.f.node):
        if not isinstance(n, (ast.Name, ast.Attribute)) or not isinstance(getattr(n, "ctx", None), ast.Load):
            continue
        par = v.pm.get(n)
        if isinstance(par, ast.Attribute) and par.value is n:
            gp = v.pm.get(par)
            if isinstance(gp, ast.Call) and gp.func is par and par.attr in WRITE_METHODS and par.attr not in ("pop", "setdefault"):
                continue        # receiver of a write
            if not (isinstance(gp, ast.Call) and gp.func is par):
                continue        # attribute of the object (e.g. self in self.signature): not a content read of `obj`
        if isinstance(par, (ast.Assign, ast.AnnAssign)) and par.value is n:
            tg = par.targets if isinstance(par, ast.Assign) else [par.target]
            if all(isinstance(t, ast.Name) for t in tg):
                continue        # alias binding
        if isinstance(par, ast.Subscript) and par.value is n and isinstance(par.ctx, (ast.Store, ast.Del)):
            continue
        if v.is_obj(n, obj):
            out.append(n)
    return out


class Replacement:
    """how `obj` gets its new content in this function"""

    def __init__(self, v: View, obj: Path):
        self.v, self.obj = v, obj
        self.writes = writes(v, obj)
        self.inserts = [w for w in self.writes if w.kind in ("rebind", "insert-map", "insert-item", "insert-elem")]
        self.clears = [w for w in self.writes if w.kind == "clear"]
        self.removes = [w for w in self.writes if w.kind == "remove"]

    def sequential(self) -> Optional[Tuple[Write, Write]]:
        """(insertion, removal) on the object inside one loop / comprehension"""
        v = self.v
        for w in self.inserts:
            if w.kind == "rebind":
                continue
            lw = loops_around(v, w.site)
            if not lw:
                continue
            for rm in self.removes:
                if any(any(l is l2 for l2 in lw) for l in loops_around(v, rm.site)):
                    return w, rm
        return None

    def old_content_dropped(self) -> Optional[str]:
        """None when the old content is gone afterwards (rebinding, or a clear() that precedes every insertion and is not followed by
        a read of the old content); else the reason"""
        v, g = self.v, self.v.g
        inplace = [w for w in self.inserts if w.kind != "rebind"]
        if not inplace:
            return None
        if self.sequential() is not None and not self.clears:
            return None             # pop / insert per element: judged by the simultaneity rule
        if not self.clears:
            return "the new entries are added to the old ones (the container is never cleared or re-bound)"
        cn = [v.node_of(c.site) for c in self.clears]
        ins = [v.node_of(w.site) for w in inplace]
        if any(x is None for x in cn + ins):
            return None
        ok = False
        for c in cn:
            after = C.reachable_from(g, c) - {c}
            before_ok = all(i in after for i in ins)
            wiped = any(c in (C.reachable_from(g, i) - {i}) for i in ins)
            if before_ok and not wiped:
                ok = True
                # a read of the object after the clear that can still feed an insertion sees the emptied container
                reads = [v.node_of(r) for r in _content_reads(v, self.obj)]
                feeds = lambda r: any(i == r or i in C.reachable_from(g, r) for i in ins)
                if any(r is not None and r in after and feeds(r) for r in reads):
                    return "the old content is read after the container was cleared"
        if not ok:
            return "clear() does not precede the insertions (the new entries are wiped or the old ones kept)"
        return None


# --------------------------------------------------------------------------- order grammar
def ordered_source(path: Sequence[str], obj: Path):
    """classify a provenance path that starts at the dict `obj`:
         ('key', None)    the keys of the dict / one key per iteration step, in the dict's own order
         ('value', None)  likewise the values
         ('lookup', None) obj[<index>] / obj.get(<index>) / obj.pop(<index>)
         ('pair', None)   (key, value) items
         ('object', None) the dict itself
         ('reordered', step) / ('unknown', step)
       or None when the path does not start at obj"""
    path = tuple(path)
    if path[:len(obj)] != tuple(obj):
        return None
    rest = list(path[len(obj):])
    view = None
    wrappers: List[Tuple[str, int]] = []
    i = 0
    elem = False
    while i < len(rest):
        s = rest[i]
        if s in ORDER_PASS:
            pass
        elif s.startswith(ORDER_LOST):
            return ("reordered", s)
        elif s in ("call:items", "call:keys", "call:values") and view is None:
            view = s[5:]
        elif s == "arg0:enumerate":
            wrappers.append(("enum", 1))
        elif s.startswith("arg") and s.endswith(":zip") and s[3:-4].isdigit():
            wrappers.append(("zip", int(s[3:-4])))
        elif s.startswith("zip") and s[3:].isdigit():
            pass            # L.map_entries: the container is the i-th argument of a zip whose pairs make up a mapping
        elif s in ("item", "call:get", "call:pop", "call:__getitem__") and view is None and not wrappers:
            return ("lookup", None) if i == len(rest) - 1 else ("unknown", rest[i + 1])
        elif s == "elem":
            elem = True
            i += 1
            break
        else:
            return ("unknown", s)
        i += 1
    if not elem:
        if view is None:
            return ("key", None) if any(s.startswith("zip") or s.endswith(":zip") for s in rest) else ("object", None)
        return ({"items": "pair", "keys": "key", "values": "value"}[view], None)
    for kind, idx in reversed(wrappers):
        if i < len(rest) and rest[i] == f"unpack:{idx}":
            i += 1
        elif i < len(rest) and rest[i] == f"item:{idx}":
            i += 1
        else:
            return ("unknown", rest[i] if i < len(rest) else "elem")
    if view == "items":
        if i < len(rest) and rest[i] in ("unpack:0", "item:0"):
            kind = "key"
        elif i < len(rest) and rest[i] in ("unpack:1", "item:1"):
            kind = "value"
        elif i == len(rest):
            return ("pair", None)
        else:
            return ("unknown", rest[i])
        i += 1
    else:
        kind = "value" if view == "values" else "key"
    if i != len(rest):
        return ("unknown", rest[i])
    return (kind, None)
