"""Helpers of the C18 rules (candidates for promotion into sa/lib.py):

  * `anchor`            flattened public function; public repository helpers that receive one of the watched fields are inlined too
  * `View`              provenance view of one function: object identity of expressions (`is_obj`), traces without the
                        read-back of content that the function itself writes into the watched container (`content`)
  * `writes`            every way a container object (given by its provenance path, e.g. ('self', 'attr:signature')) is written:
                        rebind / clear / insert-map / insert-item / insert-elem / remove
  * `replacement`       "the container is replaced by a freshly built content": the writes, the order of clear / reads / inserts
  * `filtered`          an insertion site that does not execute for every element (comprehension filter, `if`, continue / break)
  * `ordered_source`    grammar of paths that denote "the i-th key / the i-th value of a dict, in the dict's own order"
  * `_desugar`          local re-spelling of the flattened function (before and after the inliner): operator-module callables, lambdas,
                        partial, getattr / setattr with literal names, map / filter, loops over constant tables, next()-dispatch ...
  * `cancel_path`       put into a tuple / record slot or an intermediate container (also through zip / enumerate) and selected again =
                        the value itself
  * `_flatten_across_modules`  second flattening round: private functions of the modules of already inlined helpers are resolvable
  * `_Desugar._hoist`   comprehensions / generator helpers with private calls that are consumed inside an expression become
                        statements of their own (the inliner expands those); `_expression_call`: expression-only helpers are
                        substituted inside comprehensions; `_table_entry`: TABLE[<literal>](..); `_fixed_arity`: helper(a, *x)
  * `_read_sites`       live views / iterators / generator expressions bound to a name are read where they are consumed
  * `crossed_iterations` entries produced inside two nested iterations over the container (cross product)
"""
from __future__ import annotations

import ast
import copy
import itertools
from typing import Dict, Iterable, List, Optional, Sequence, Set, Tuple

from .. import cfg as C
from .. import lib as L
from ..core import FuncInfo, Repo
from ..prov import callee_name

Path = Tuple[str, ...]

REMOVERS = ("pop", "popitem", "__delitem__", "remove", "discard", "difference_update", "intersection_update")
MAP_INSERTERS = ("update", "__ior__", "extend", "union_update")
ITEM_INSERTERS = ("__setitem__", "setdefault")
ELEM_INSERTERS = ("add", "append", "insert", "appendleft")
WRITE_METHODS = REMOVERS + MAP_INSERTERS + ITEM_INSERTERS + ELEM_INSERTERS + ("clear",)

# steps that hand a container on without changing the order of its elements
ORDER_PASS = {"arg0:list", "arg0:tuple", "arg0:iter", "arg0:dict", "call:copy", "arg0:OrderedDict", "arg0:deepcopy", "arg0:copy",
              "call:__iter__", "arg0:deque"}
# steps after which the order of the elements is another one (or none)
ORDER_LOST = ("arg0:sorted", "arg0:reversed", "arg0:set", "arg0:frozenset", "call:__reversed__", "arg0:shuffle", "arg0:sample",
              "arg0:Counter", "arg0:nlargest", "arg0:nsmallest")
LOOKUPS = ("item", "call:get", "call:__getitem__")


def is_content_step(s: str) -> bool:
    """the value is put into / handed on inside a container (no selection, no reordering)"""
    return s.startswith("in:") or (s.startswith("zip") and s[3:].isdigit()) or s in ORDER_PASS


UNORDERED_PASS = ("arg0:set", "arg0:frozenset", "arg0:sorted", "arg0:reversed", "arg0:list", "arg0:tuple")


def strip_content(p: Path, unordered: bool = False) -> Path:
    """drop the trailing steps that only put the value into containers / hand the container on (unordered=True: the container is a
    set, so conversions that change the order are harmless too)"""
    p = tuple(p)
    while p and (is_content_step(p[-1]) or (unordered and p[-1] in UNORDERED_PASS)):
        p = p[:-1]
    return p


def anchor(repo: Repo, spec: str, fields: Iterable[str] = ()) -> FuncInfo:
    """L.fn(spec) where, beyond the private helpers, public repository functions that are handed self.<field> are inlined as well
    (a maintainer may move the construction of the renamed container into a shared utility)"""
    raw = repo.func(spec)
    also: Set[str] = set()
    fields = set(fields)
    if fields and raw.self_name:
        for c in L.calls_in(raw.node):
            name = callee_name(c)
            if name == raw.name or name.startswith("_"):
                continue
            for a in list(c.args) + [k.value for k in c.keywords]:
                if any(isinstance(n, ast.Attribute) and n.attr in fields and isinstance(n.value, ast.Name) and n.value.id == raw.self_name
                       for n in ast.walk(a)):
                    also.add(name)
    from ..inline import flatten
    cur = _desugar(repo, raw)               # consumers such as map(f, self._helper()) become loops the inliner can expand
    for round_ in range(3):
        # a second round works on code that was copied from helpers of other modules: names are resolved there as well
        flat = flatten(repo, cur, 4, also or None) if round_ == 0 else _flatten_across_modules(repo, cur, 4, also or None)
        if cur is not raw:
            flat.flat_of = raw
        out = _desugar(repo, flat)
        if out is flat or not any(callee_name(c).startswith("_") and not callee_name(c).startswith("__") for c in L.calls_in(out.node)):
            break
        cur = out
    return _desugar(repo, out, final=True)


_xflat_cache: Dict[tuple, tuple] = {}


def _flatten_across_modules(repo: Repo, f: FuncInfo, depth: int, also: Optional[Set[str]]) -> FuncInfo:
    """inline.flatten for a function that is itself the result of flattening: a call of a private module-level function that was
    copied in from a helper of ANOTHER module (`_shared(..)` is defined / imported there, not in the module of the anchor) is
    resolved in the modules of the helpers that were inlined before.  For the time of the flattening those names are visible in
    the anchor's module like an import (`from <home> import _shared`), so every resolution path of the inliner (plain helpers,
    generators, function values) sees them."""
    from ..inline import Flattener

    key = (id(repo), f.qn, id(f.node), depth, tuple(sorted(also or ())))
    if key in _xflat_cache:
        return _xflat_cache[key][1]
    homes: List[str] = []
    for qn in getattr(f, "inlined", []) or []:
        g = repo.funcs.get(qn) if hasattr(repo, "funcs") else None
        if g is not None and g.mod.name != f.mod.name and g.mod.name not in homes:
            homes.append(g.mod.name)
    local = {n.id for n in ast.walk(f.node) if isinstance(n, ast.Name) and isinstance(n.ctx, (ast.Store, ast.Del))} | set(f.params)
    wanted: Dict[str, Tuple[str, str]] = {}
    for c in L.calls_in(f.node):
        for e in [c.func] + [a for a in c.args if isinstance(a, ast.Name)]:
            if not isinstance(e, ast.Name):
                continue
            name = e.id
            if name in wanted or name in local or not name.startswith("_") or name.startswith("__") or repo.lookup(f.mod.name, name) is not None:
                continue
            hits = set()
            for h in homes:
                r = repo.lookup(h, name)
                if r and r[0] == "func":
                    hits.add(r[2])
            if len(hits) == 1:
                wanted[name] = (hits.pop(), name)
    imports = f.mod.imports
    added = [n for n in wanted if n not in imports]
    try:
        for n in added:
            imports[n] = wanted[n]
        out = Flattener(repo, f, depth, also).run()
    finally:
        for n in added:
            imports.pop(n, None)
    _xflat_cache[key] = (f, out)
    return out


# --------------------------------------------------------------------------- local desugaring
# The provenance engine does not look into lambdas, operator-module callables, dynamic attribute access with names taken from a
# constant table, or loops over constant tables.  The rewrites below say the same thing in the plain forms the engine understands;
# they are applied to the flattened anchor only (never to the repository) and only change HOW the code is spelled:
#   getattr(X, "a")                         -> X.a
#   attrgetter("a", "b.c")(X)               -> (X.a, X.b.c)      itemgetter(k)(X) -> X[k]      methodcaller("m", *a)(X) -> X.m(*a)
#   (lambda a, b: E)(x, y)                  -> E[a := x, b := y]  (also through a local / module-level name bound once to the callable)
#   Cls.method(obj, *a)                     -> obj.method(*a)     (Cls is a class of the repository that has the method)
#   map(F, IT) / filter(F, IT) / starmap    -> generator expressions
#   for v in <constant table>: BODY         -> BODY[v := e1]; BODY[v := e2]; ..   (tests made of literals are decided)
#   [E for v in <constant table>]           -> [E[v := e1], E[v := e2], ..]        (more generators: chain of the instances)
#   chain.from_iterable((a, b))             -> chain(a, b)
OPERATOR_FACTORIES = ("attrgetter", "itemgetter", "methodcaller")
MAX_UNROLL = 8
_STR_METHODS = ("startswith", "endswith", "lower", "upper", "strip", "lstrip", "rstrip", "replace", "removeprefix", "removesuffix",
                "isidentifier", "title", "capitalize", "count", "find", "isupper", "islower")


class _NotConst(Exception):
    pass


def _ev(e: ast.AST):
    if isinstance(e, ast.Constant):
        return e.value
    if isinstance(e, (ast.Tuple, ast.List)):
        return tuple(_ev(x) for x in e.elts)
    if isinstance(e, ast.Set):
        return frozenset(_ev(x) for x in e.elts)
    if isinstance(e, ast.UnaryOp) and isinstance(e.op, ast.Not):
        return not _ev(e.operand)
    if isinstance(e, ast.BoolOp):
        val = None
        for x in e.values:
            val = _ev(x)
            if isinstance(e.op, ast.And) and not val:
                return val
            if isinstance(e.op, ast.Or) and val:
                return val
        return val
    if isinstance(e, ast.Compare):
        left = _ev(e.left)
        for op, c in zip(e.ops, e.comparators):
            right = _ev(c)
            if isinstance(op, ast.Eq):
                r = left == right
            elif isinstance(op, ast.NotEq):
                r = left != right
            elif isinstance(op, ast.In):
                r = left in right
            elif isinstance(op, ast.NotIn):
                r = left not in right
            elif isinstance(op, ast.Is) and (left is None or right is None):
                r = left is right
            elif isinstance(op, ast.IsNot) and (left is None or right is None):
                r = left is not right
            elif isinstance(op, (ast.Lt, ast.LtE, ast.Gt, ast.GtE)):
                r = {ast.Lt: left < right, ast.LtE: left <= right, ast.Gt: left > right, ast.GtE: left >= right}[type(op)]
            else:
                raise _NotConst()
            if not r:
                return False
            left = right
        return True
    if isinstance(e, ast.BinOp) and isinstance(e.op, (ast.Add, ast.Mod)):
        left, right = _ev(e.left), _ev(e.right)
        if isinstance(left, str) and (isinstance(e.op, ast.Mod) or isinstance(right, str)):
            return left + right if isinstance(e.op, ast.Add) else left % right
        if isinstance(left, tuple) and isinstance(right, tuple) and isinstance(e.op, ast.Add):
            return left + right
        raise _NotConst()
    if isinstance(e, ast.JoinedStr):
        parts = []
        for x in e.values:
            if isinstance(x, ast.FormattedValue):
                if x.conversion != -1 or x.format_spec is not None:
                    raise _NotConst()
                parts.append(str(_ev(x.value)))
            else:
                parts.append(str(_ev(x)))
        return "".join(parts)
    if isinstance(e, ast.Call) and isinstance(e.func, ast.Attribute) and e.func.attr == "format" and all(k.arg for k in e.keywords):
        recv = _ev(e.func.value)
        if isinstance(recv, str):
            return recv.format(*[_ev(a) for a in e.args], **{k.arg: _ev(k.value) for k in e.keywords})
    if isinstance(e, ast.Call) and not e.keywords:
        if isinstance(e.func, ast.Attribute) and e.func.attr in _STR_METHODS:
            recv = _ev(e.func.value)
            if isinstance(recv, str):
                return getattr(recv, e.func.attr)(*[_ev(a) for a in e.args])
        if isinstance(e.func, ast.Name) and e.func.id in ("len", "bool", "str") and len(e.args) == 1:
            return {"len": len, "bool": bool, "str": str}[e.func.id](_ev(e.args[0]))
    raise _NotConst()


def const_eval(e: ast.AST):
    """(True, value) when the expression is built from literals only"""
    try:
        return True, _ev(e)
    except Exception:
        return False, None


def _relocate(new: ast.AST, at: ast.AST) -> ast.AST:
    for x in ast.walk(new):
        if hasattr(at, "lineno"):
            ast.copy_location(x, at)
    return new


class _Subst(ast.NodeTransformer):
    """replace loads of the given names by (copies of) expressions; the copies are marked `_subst`"""

    def __init__(self, mapping: Dict[str, ast.AST]):
        self.mapping = mapping

    def visit_Name(self, n):
        if isinstance(n.ctx, ast.Load) and n.id in self.mapping:
            new = _relocate(copy.deepcopy(self.mapping[n.id]), n)
            new._subst = True
            return new
        return n

    def visit_Lambda(self, n):
        a = n.args
        shadow = {x.arg for x in a.posonlyargs + a.args + a.kwonlyargs} | {x.arg for x in (a.vararg, a.kwarg) if x is not None}
        rest = {k: v_ for k, v_ in self.mapping.items() if k not in shadow}
        if rest:
            n.body = _Subst(rest).visit(n.body)
        return n


class _Rename(ast.NodeTransformer):
    """rename variables (loads and stores)"""

    def __init__(self, mapping: Dict[str, str]):
        self.mapping = mapping

    def visit_Name(self, n):
        if n.id in self.mapping:
            return ast.copy_location(ast.Name(id=self.mapping[n.id], ctx=n.ctx), n)
        return n


class _FoldTests(ast.NodeTransformer):
    """decide the tests that consist of literals only (after a loop variable was replaced by the entries of a constant table)"""

    def visit_If(self, n):
        self.generic_visit(n)
        if getattr(n, "_inline_block", False):
            return n
        ok, val = const_eval(n.test)
        if ok:
            return (n.body if val else n.orelse) or [ast.copy_location(ast.Pass(), n)]
        return n

    def visit_IfExp(self, n):
        self.generic_visit(n)
        ok, val = const_eval(n.test)
        if ok:
            return n.body if val else n.orelse
        return n

    def visit_BoolOp(self, n):
        self.generic_visit(n)
        keep = []
        for i, x in enumerate(n.values):
            ok, val = const_eval(x)
            if not ok:
                keep.append(x)
                continue
            neutral = bool(val) if isinstance(n.op, ast.And) else not bool(val)
            if neutral and i < len(n.values) - 1:
                continue            # `True and X` / `False or X`: the operand decides nothing
            keep.append(x)
            if not neutral:
                break               # `False and X` / `True or X`: the rest is not evaluated
        if len(keep) == 1:
            return keep[0]
        n.values = keep
        return n

    def visit_comprehension(self, n):
        self.generic_visit(n)
        n.ifs = [t for t in n.ifs if const_eval(t) != (True, True)]
        return n


def _undecided_test_on_subst(stmts: List[ast.AST]) -> bool:
    """a test that still depends on a literal taken from the table (it could not be decided)"""
    def tainted(t):
        return any(getattr(x, "_subst", False) and isinstance(x, (ast.Constant, ast.Tuple, ast.List)) for x in ast.walk(t))
    for s in stmts:
        for x in ast.walk(s):
            if isinstance(x, (ast.If, ast.IfExp, ast.While)) and not getattr(x, "_inline_block", False) and tainted(x.test):
                return True
            if isinstance(x, ast.comprehension) and any(tainted(t) for t in x.ifs):
                return True
            if isinstance(x, ast.Assert) and tainted(x.test):
                return True
    return False


def _own_jumps(body: List[ast.stmt], kinds=(ast.Break, ast.Continue)) -> bool:
    """break / continue that belong to the loop with this body"""
    for s in body:
        if isinstance(s, kinds):
            return True
        if isinstance(s, (ast.For, ast.While)):
            if _own_jumps(s.orelse, kinds):
                return True
            continue
        for fld in ("body", "orelse", "finalbody"):
            sub = getattr(s, fld, None)
            if isinstance(sub, list) and sub and isinstance(sub[0], ast.stmt) and _own_jumps(sub, kinds):
                return True
        if isinstance(s, ast.Try) and any(_own_jumps(h.body, kinds) for h in s.handlers):
            return True
    return False


def _without_continue(stmts: List[ast.stmt], after: List[ast.stmt]) -> Optional[List[ast.stmt]]:
    """one iteration of a loop body as straight-line code: `continue` ends it, the statements after an `if` that may `continue`
    move into its branches.  None when the shape is not understood (break, continue inside try / with)"""
    out: List[ast.stmt] = []
    for i, s in enumerate(stmts):
        if isinstance(s, ast.Continue):
            return out or [ast.copy_location(ast.Pass(), s)]
        if isinstance(s, ast.Break):
            return None
        if isinstance(s, (ast.For, ast.While)):
            if _own_jumps(s.orelse):
                return None
            out.append(s)
            continue
        if _own_jumps([s]):
            if not isinstance(s, ast.If):
                return None
            rest = _without_continue(stmts[i + 1:], after)
            if rest is None:
                return None
            body = _without_continue(s.body, rest)
            orelse = _without_continue(s.orelse, copy.deepcopy(rest))
            if body is None or orelse is None:
                return None
            s.body, s.orelse = body or [ast.copy_location(ast.Pass(), s)], orelse
            out.append(s)
            return out
        out.append(s)
    return out + list(after)


_fresh_counter = itertools.count(1)


class _Desugar(ast.NodeTransformer):
    def __init__(self, repo: Repo, f: FuncInfo, final: bool = False):
        self.repo, self.f = repo, f
        self.final = final          # the last pass (after the inliner): set displays / comprehensions are spelled set(..)
        self._depth = 0
        self._effects_before = False
        self.changed = False
        self.mods = [f.mod.name]
        for qn in getattr(f, "inlined", []) or []:
            g = repo.funcs.get(qn) if hasattr(repo, "funcs") else None
            if g is not None and g.mod.name not in self.mods:
                self.mods.append(g.mod.name)
        # how often every local name is bound
        self.bound: Dict[str, int] = {}
        self.comp_bound: Dict[str, int] = {}        # variables of comprehensions live in their own scope
        self.comp_scope: List[Set[str]] = []
        comp_targets = {id(x) for c in ast.walk(f.node) if isinstance(c, ast.comprehension) for x in ast.walk(c.target)}
        for n in ast.walk(f.node):
            if isinstance(n, ast.Name) and isinstance(n.ctx, (ast.Store, ast.Del)):
                d = self.comp_bound if id(n) in comp_targets else self.bound
                d[n.id] = d.get(n.id, 0) + 1
            elif isinstance(n, ast.arg):
                self.bound[n.arg] = self.bound.get(n.arg, 0) + 1
        # local names bound exactly once to a callable expression / a constant table
        self.local_once: Dict[str, ast.AST] = {}
        for n in ast.walk(f.node):
            tgt = None
            if isinstance(n, ast.Assign) and len(n.targets) == 1 and isinstance(n.targets[0], ast.Name):
                tgt = n.targets[0].id
            elif isinstance(n, ast.AnnAssign) and isinstance(n.target, ast.Name) and n.value is not None:
                tgt = n.target.id
            if tgt is not None and self.bound.get(tgt) == 1:
                self.local_once[tgt] = n.value

    # ---------------------------------------------------------------- resolution of names
    def fresh(self) -> str:
        return f"ds__m{next(_fresh_counter)}"

    def _local(self, name: str) -> Optional[ast.AST]:
        """the value of a local name that is bound exactly once (and not shadowed by a comprehension variable here)"""
        if any(name in s for s in self.comp_scope):
            return None
        return self.local_once.get(name)

    def _global(self, name: str) -> Optional[ast.AST]:
        if name in self.bound or any(name in s for s in self.comp_scope):
            return None
        for m in self.mods:
            r = self.repo.lookup(m, name)
            if r and r[0] == "const":
                return r[1]
            if r:
                return None
        hits = [m.defs[name][1] for m in self.repo.mods.values() if name in m.defs and m.defs[name][0] == "const"]
        return hits[0] if len(hits) == 1 else None

    def _closed(self, e: ast.AST) -> bool:
        """no local variable of the analysed function occurs in the expression"""
        inner = set()
        for x in ast.walk(e):
            if isinstance(x, ast.arg):
                inner.add(x.arg)
            elif isinstance(x, ast.Name) and isinstance(x.ctx, ast.Store):
                inner.add(x.id)
        return not any(isinstance(x, ast.Name) and (x.id in self.bound or x.id in self.comp_bound) and x.id not in inner for x in ast.walk(e))

    def _callable_expr(self, e: ast.AST, depth: int = 0) -> Optional[ast.AST]:
        """the lambda / operator-module callable / bound method a name stands for"""
        if depth > 3:
            return None
        if isinstance(e, ast.Name):
            v = self._local(e.id)
            local = v is not None
            if v is None:
                v = self._global(e.id)
            if v is None:
                return None
            if isinstance(v, ast.Name):
                return self._callable_expr(v, depth + 1)
            if isinstance(v, ast.Lambda):
                return v
            if isinstance(v, ast.Call) and _last_name(v.func) in OPERATOR_FACTORIES + ("partial",):
                return v
            if local and isinstance(v, ast.IfExp):
                return v            # renamer = A if <test> else B
            if local and isinstance(v, ast.Attribute) and isinstance(getattr(v, "ctx", None), ast.Load) and self._stable_receiver(v.value):
                return v            # lookup = mapping.__getitem__ / get = mapping.get
        return None

    def _private_def(self, fn: ast.AST, generator: bool = False) -> Optional[Tuple[ast.FunctionDef, bool]]:
        """(definition, is a method called on self) of the private repository function / method of the own class that is called"""
        name = _last_name(fn)
        if not name or not name.startswith("_") or (name.startswith("__") and name.endswith("__")):
            return None
        node, method = None, False
        if isinstance(fn, ast.Name):
            if fn.id in self.bound or fn.id in self.comp_bound:
                return None
            for m in self.mods:
                r = self.repo.lookup(m, fn.id)
                if r:
                    node = r[1] if r[0] == "func" else None
                    break
        elif isinstance(fn, ast.Attribute) and isinstance(fn.value, ast.Name) and self.f.cls and fn.value.id == (self.f.self_name or "self") \
                and self.bound.get(fn.value.id, 0) <= 1:
            for c in self.repo.mro(self.f.cls):
                if c in self.repo.classes and name in self.repo.classes[c].methods:
                    node = self.repo.classes[c].methods[name]
                    method = name not in self.repo.classes[c].static
                    break
        if not isinstance(node, ast.FunctionDef):
            return None
        if any(not (isinstance(d, ast.Name) and d.id == "staticmethod") for d in node.decorator_list):
            return None
        if any(isinstance(x, (ast.Await, ast.NamedExpr, ast.Global, ast.Nonlocal)) for x in ast.walk(node)):
            return None
        if not generator and any(isinstance(x, (ast.Yield, ast.YieldFrom)) for x in ast.walk(node)):
            return None
        return node, method

    def _is_private_generator_call(self, e: ast.AST) -> bool:
        if not isinstance(e, ast.Call):
            return False
        d = self._private_def(e.func, generator=True)
        return d is not None and any(isinstance(x, (ast.Yield, ast.YieldFrom)) for x in ast.walk(d[0]))

    def _fixed_arity(self, fn: ast.AST) -> Optional[int]:
        """number of positional parameters of the private helper that is called (only when it has neither defaults nor * / ** /
        keyword-only parameters: then `f(*x)` passes exactly that many values)"""
        d = self._private_def(fn)
        if d is None:
            return None
        node, method = d
        a = node.args
        if a.vararg or a.kwarg or a.kwonlyargs or a.defaults or a.kw_defaults:
            return None
        return len(a.posonlyargs) + len(a.args) - (1 if method else 0)

    def _expression_call(self, n: ast.Call) -> Optional[ast.AST]:
        """the value of a call of a private helper that only computes an expression (simple assignments of fresh locals, then
        `return E`), written in terms of the arguments -- used inside comprehensions / generator expressions, where the inliner
        cannot put statements"""
        d = self._private_def(n.func)
        if d is None or any(isinstance(x, ast.Starred) for x in n.args) or any(k.arg is None for k in n.keywords):
            return None
        node, method = d
        a = node.args
        if a.vararg or a.kwarg or a.posonlyargs and n.keywords:
            return None
        params = [x.arg for x in a.posonlyargs + a.args]
        env: Dict[str, ast.AST] = {}
        if method:
            env[params[0]] = n.func.value
            params = params[1:]
        if len(n.args) > len(params):
            return None
        for p_, x in zip(params, n.args):
            env[p_] = x
        kwonly = [x.arg for x in a.kwonlyargs]
        for k in n.keywords:
            if k.arg in env or k.arg not in params + kwonly:
                return None
            env[k.arg] = k.value
        defaults = dict(zip(params[len(params) - len(a.defaults):], a.defaults)) if a.defaults else {}
        defaults.update({x: dv for x, dv in zip(kwonly, a.kw_defaults) if dv is not None})
        for p_ in params + kwonly:
            if p_ not in env:
                if p_ not in defaults or not isinstance(defaults[p_], ast.Constant):
                    return None
                env[p_] = defaults[p_]
        body = list(node.body)
        if body and isinstance(body[0], ast.Expr) and isinstance(body[0].value, ast.Constant) and isinstance(body[0].value.value, str):
            body = body[1:]
        if not body or not isinstance(body[-1], ast.Return) or body[-1].value is None:
            return None
        inner_targets = {x.id for c in ast.walk(node) if isinstance(c, ast.comprehension) for x in ast.walk(c.target) if isinstance(x, ast.Name)}
        inner_targets |= {x.arg for l in ast.walk(node) if isinstance(l, ast.Lambda) for x in ast.walk(l.args) if isinstance(x, ast.arg)}
        assigned: Set[str] = set()

        def value_of(e):
            new = _Subst(dict(env)).visit(copy.deepcopy(e))
            for x in ast.walk(new):
                if hasattr(x, "_subst"):
                    del x._subst
            return new

        for st in body[:-1]:
            if isinstance(st, ast.Assign) and len(st.targets) == 1:
                tgt, val = st.targets[0], st.value
            elif isinstance(st, ast.AnnAssign) and st.value is not None:
                tgt, val = st.target, st.value
            else:
                return None
            val = value_of(val)
            if isinstance(tgt, ast.Name):
                binds = [(tgt.id, val)]
            elif isinstance(tgt, (ast.Tuple, ast.List)) and all(isinstance(x, ast.Name) for x in tgt.elts):
                binds = [(x.id, ast.Subscript(value=copy.deepcopy(val), slice=ast.Constant(value=i), ctx=ast.Load())) for i, x in enumerate(tgt.elts)]
            else:
                return None
            for name, bv in binds:
                if name in assigned or name in env:
                    return None         # a local that is bound twice / a parameter that is re-bound: not an expression
                assigned.add(name)
                env[name] = bv
        if inner_targets & set(env):
            return None
        res = value_of(body[-1].value)
        if sum(1 for _ in ast.walk(res)) > 400:
            return None
        return ast.fix_missing_locations(_relocate(res, n))

    def _stable_receiver(self, e: ast.AST) -> bool:
        """a parameter / self / attribute chain on them (the bound method is the same object at the call)"""
        while isinstance(e, ast.Attribute):
            e = e.value
        return isinstance(e, ast.Name) and (e.id in self.f.params or self.bound.get(e.id, 0) <= 1)

    def _table(self, e: ast.AST, depth: int = 0) -> Optional[List[ast.AST]]:
        """the entries of a constant table: a tuple / list display (or dict display .items() / .keys() / .values()) written in place,
        bound once to a local name or defined at module level, whose entries do not mention local variables"""
        if depth > 3:
            return None
        if isinstance(e, ast.Name):
            v = self._local(e.id)
            if v is not None and not isinstance(v, (ast.Tuple, ast.Name)):
                return None         # a local list / dict may be changed before it is iterated
            if v is None:
                v = self._global(e.id)
            return self._table(v, depth + 1) if v is not None else None
        if isinstance(e, ast.Call) and isinstance(e.func, ast.Name) and e.func.id in ("tuple", "list", "iter", "sorted", "reversed", "set", "frozenset") and len(e.args) == 1 \
                and not e.keywords:
            return self._table(e.args[0], depth + 1)
        if isinstance(e, ast.Call) and isinstance(e.func, ast.Attribute) and e.func.attr in ("items", "keys", "values") and not e.args:
            d = e.func.value
            if isinstance(d, ast.Name):
                d = self._global(d.id)
            if isinstance(d, ast.Dict) and all(k is not None for k in d.keys):
                if e.func.attr == "items":
                    ents = [ast.Tuple(elts=[k, v_], ctx=ast.Load()) for k, v_ in zip(d.keys, d.values)]
                else:
                    ents = list(d.keys if e.func.attr == "keys" else d.values)
                return ents if 0 < len(ents) <= MAX_UNROLL and all(self._closed(x) for x in ents) else None
            return None
        if isinstance(e, ast.Dict) and all(k is not None for k in e.keys):
            ents = list(e.keys)
            return ents if 0 < len(ents) <= MAX_UNROLL and all(self._closed(x) for x in ents) else None
        if isinstance(e, (ast.Tuple, ast.List)) and 0 < len(e.elts) <= MAX_UNROLL:
            if any(isinstance(x, ast.Starred) for x in e.elts):
                return None
            if not all(self._closed(x) for x in e.elts):
                return None
            # only tables of literals / callables / classes: a display of ordinary run-time values is not a table
            if all(self._is_table_entry(x) for x in e.elts):
                return list(e.elts)
        return None

    def _table_entry(self, sub: ast.Subscript) -> Optional[ast.AST]:
        """TABLE[<literal>] where TABLE is a dict / tuple / list display at module level or in the body of the own class whose
        selected entry is a callable expression"""
        ok, key = const_eval(sub.slice)
        if not ok:
            return None
        tbl = None
        if isinstance(sub.value, ast.Name):
            tbl = self._global(sub.value.id)
        elif isinstance(sub.value, ast.Attribute) and isinstance(sub.value.value, ast.Name):
            owner = sub.value.value.id
            cls = self.f.cls if owner in (self.f.self_name or "self", "cls") and self.bound.get(owner, 0) <= 1 else (owner if owner in self.repo.classes and owner not in self.bound else None)
            for c in (self.repo.mro(cls) if cls else []):
                ci = self.repo.classes.get(c)
                if ci is None:
                    continue
                hits = [b.value for b in ci.node.body if isinstance(b, (ast.Assign, ast.AnnAssign)) and b.value is not None
                        and any(isinstance(t, ast.Name) and t.id == sub.value.attr for t in (b.targets if isinstance(b, ast.Assign) else [b.target]))]
                if hits:
                    tbl = hits[0] if len(hits) == 1 else None
                    break
        entry = None
        if isinstance(tbl, ast.Dict) and all(k is not None for k in tbl.keys):
            for k, val in zip(tbl.keys, tbl.values):
                kok, kv = const_eval(k)
                if not kok:
                    return None
                if kv == key and type(kv) is type(key):
                    entry = val
        elif isinstance(tbl, (ast.Tuple, ast.List)) and type(key) is int and not any(isinstance(x, ast.Starred) for x in tbl.elts) \
                and -len(tbl.elts) <= key < len(tbl.elts):
            entry = tbl.elts[key]
        if entry is None or not self._closed(entry):
            return None
        if isinstance(entry, ast.Lambda) or (isinstance(entry, ast.Call) and _last_name(entry.func) in OPERATOR_FACTORIES + ("partial",)):
            return entry
        if isinstance(entry, ast.Name) and entry.id not in self.bound and entry.id not in self.comp_bound:
            return entry            # a function / class of the module
        return None

    def _is_table_entry(self, x: ast.AST) -> bool:
        if isinstance(x, ast.Constant):
            return isinstance(x.value, str)
        if isinstance(x, (ast.Tuple, ast.List)):
            return bool(x.elts) and all(self._is_table_entry(y) or isinstance(y, ast.Constant) for y in x.elts)
        if isinstance(x, ast.Lambda):
            return True
        if isinstance(x, ast.Call):
            return _last_name(x.func) in OPERATOR_FACTORIES
        if isinstance(x, ast.Name):
            return x.id not in self.bound and x.id not in self.comp_bound        # a class / function / constant of the module
        if isinstance(x, ast.Attribute):
            return isinstance(x.value, ast.Name) and x.value.id in self.repo.classes
        return False

    def _bindings(self, target: ast.AST, entry: ast.AST) -> Optional[Dict[str, ast.AST]]:
        if isinstance(target, ast.Name):
            return {target.id: entry}
        if isinstance(target, (ast.Tuple, ast.List)) and isinstance(entry, (ast.Tuple, ast.List)) and len(target.elts) == len(entry.elts):
            out: Dict[str, ast.AST] = {}
            for t, x in zip(target.elts, entry.elts):
                b = self._bindings(t, x)
                if b is None:
                    return None
                out.update(b)
            return out
        return None

    # ---------------------------------------------------------------- calls
    def _apply(self, fn: ast.AST, args: List[ast.AST], at: ast.AST) -> Optional[ast.AST]:
        """the expression `fn(*args)` stands for, when fn is a lambda or an operator-module callable"""
        if isinstance(fn, ast.Lambda):
            a = fn.args
            if a.posonlyargs or a.kwonlyargs or a.vararg or a.kwarg or len(a.args) != len(args) or any(isinstance(x, ast.Starred) for x in args):
                return None
            body = copy.deepcopy(fn.body)
            body = _Subst({p.arg: x for p, x in zip(a.args, args)}).visit(body)
            for x in ast.walk(body):
                if hasattr(x, "_subst"):
                    del x._subst
            return self.visit(_relocate(body, at))
        if isinstance(fn, ast.Call) and _last_name(fn.func) in OPERATOR_FACTORIES and len(args) == 1 and not isinstance(args[0], ast.Starred):
            kind, obj = _last_name(fn.func), args[0]
            if kind == "attrgetter" and fn.args and not fn.keywords and all(isinstance(x, ast.Constant) and isinstance(x.value, str) for x in fn.args):
                outs = []
                for x in fn.args:
                    cur = copy.deepcopy(obj)
                    for part in x.value.split("."):
                        if not part.isidentifier():
                            return None
                        cur = ast.Attribute(value=cur, attr=part, ctx=ast.Load())
                    outs.append(cur)
                return outs[0] if len(outs) == 1 else ast.Tuple(elts=outs, ctx=ast.Load())
            if kind == "itemgetter" and fn.args and not fn.keywords:
                outs = [ast.Subscript(value=copy.deepcopy(obj), slice=copy.deepcopy(x), ctx=ast.Load()) for x in fn.args]
                return outs[0] if len(outs) == 1 else ast.Tuple(elts=outs, ctx=ast.Load())
            if kind == "methodcaller" and fn.args and isinstance(fn.args[0], ast.Constant) and isinstance(fn.args[0].value, str) \
                    and fn.args[0].value.isidentifier():
                return ast.Call(func=ast.Attribute(value=copy.deepcopy(obj), attr=fn.args[0].value, ctx=ast.Load()),
                                args=[copy.deepcopy(x) for x in fn.args[1:]], keywords=[copy.deepcopy(k) for k in fn.keywords])
        return None

    def _call_of(self, fn: ast.AST, args: List[ast.AST], at: ast.AST) -> ast.AST:
        """fn(*args), desugared when fn is understood"""
        real = self._callable_expr(fn) if isinstance(fn, ast.Name) else fn
        if isinstance(real, ast.IfExp):
            return ast.IfExp(test=copy.deepcopy(real.test), body=self._call_of(copy.deepcopy(real.body), [copy.deepcopy(x) for x in args], at),
                             orelse=self._call_of(copy.deepcopy(real.orelse), [copy.deepcopy(x) for x in args], at))
        if real is not None:
            r = self._apply(real, args, at)
            if r is not None:
                return r
            if isinstance(real, ast.Attribute):
                fn = real
        call = ast.Call(func=copy.deepcopy(fn), args=args, keywords=[])
        return self._simplify_call(call)

    def _simplify_call(self, n: ast.Call) -> ast.AST:
        fn = n.func
        # getattr(X, "a")
        if isinstance(fn, ast.Name) and fn.id == "getattr" and len(n.args) == 2 and not n.keywords:
            ok, name = const_eval(n.args[1])
            if not ok and isinstance(n.args[1], ast.Name):
                g = self._local(n.args[1].id) or self._global(n.args[1].id)
                if g is not None:
                    ok, name = const_eval(g)
            if ok and isinstance(name, str) and name.isidentifier():
                self.changed = True
                return ast.copy_location(ast.Attribute(value=n.args[0], attr=name, ctx=ast.Load()), n)
        # next((r for t, r in TABLE if <test on t>), default)  ->  r1 if <test on t1> else (r2 if <test on t2> else default)
        if isinstance(fn, ast.Name) and fn.id == "next" and len(n.args) == 2 and not n.keywords and isinstance(n.args[0], ast.GeneratorExp) \
                and len(n.args[0].generators) == 1 and n.args[0].generators[0].ifs and "next" not in self.bound:
            g0 = n.args[0].generators[0]
            table = self._table(g0.iter)
            names = [x.id for x in ast.walk(g0.target) if isinstance(x, ast.Name)]
            if table is not None and all(self.comp_bound.get(x) == 1 for x in names):
                insts = self._instances(g0.target, table, [n.args[0].elt] + list(g0.ifs))
                if insts is not None:
                    self.changed = True
                    res = n.args[1]
                    for inst in reversed(insts):
                        test = inst[1] if len(inst) == 2 else ast.BoolOp(op=ast.And(), values=inst[1:])
                        ok, val = const_eval(test)
                        if ok:
                            res = inst[0] if val else res
                        else:
                            res = ast.IfExp(test=test, body=inst[0], orelse=res)
                    return self.visit(ast.fix_missing_locations(_relocate(res, n)))
        # operator.getitem(a, b) -> a[b];  Rec(*x) -> Rec(x[0], x[1], ..);  partial(F, a, k=v)(b) -> F(a, b, k=v)
        if _last_name(fn) == "getitem" and len(n.args) == 2 and not n.keywords and "getitem" not in self.bound \
                and not any(isinstance(x, ast.Starred) for x in n.args) and (isinstance(fn, ast.Name) or _last_name(fn.value) == "operator"):
            self.changed = True
            return ast.copy_location(ast.Subscript(value=n.args[0], slice=n.args[1], ctx=ast.Load()), n)
        recs = record_fields(self.repo)
        if isinstance(fn, ast.Name) and fn.id in recs and fn.id not in self.bound and len(n.args) == 1 and isinstance(n.args[0], ast.Starred) and not n.keywords:
            self.changed = True
            src = n.args[0].value
            n.args = [ast.Subscript(value=copy.deepcopy(src), slice=ast.Constant(value=i), ctx=ast.Load()) for i in range(len(recs[fn.id]))]
            return ast.fix_missing_locations(_relocate(n, n))
        # TABLE["key"](args) / TABLE[1](args): the entry of a module-level / class-level constant table
        if isinstance(fn, ast.Subscript):
            entry = self._table_entry(fn)
            if entry is not None:
                self.changed = True
                n.func = _relocate(copy.deepcopy(entry), fn)
                return self._simplify_call(n)
        # helper(..) inside a comprehension / generator expression, when the helper is an expression
        if self.comp_scope and self._depth < 6:
            r = self._expression_call(n)
            if r is not None:
                self.changed = True
                self._depth += 1
                try:
                    return self.visit(r)
                finally:
                    self._depth -= 1
        # helper(a, *x) where the private helper takes a fixed number of positional parameters -> helper(a, x[0], x[1])
        if n.args and isinstance(n.args[-1], ast.Starred) and not any(isinstance(x, ast.Starred) for x in n.args[:-1]) \
                and all(k.arg is not None for k in n.keywords):
            arity = self._fixed_arity(fn)
            missing = None if arity is None else arity - (len(n.args) - 1) - len(n.keywords)
            if missing is not None and 0 < missing <= MAX_UNROLL:
                self.changed = True
                src = n.args[-1].value
                n.args = list(n.args[:-1]) + [ast.Subscript(value=copy.deepcopy(src), slice=ast.Constant(value=i), ctx=ast.Load()) for i in range(missing)]
                return self._simplify_call(ast.fix_missing_locations(_relocate(n, n)))
        real = self._callable_expr(fn) if isinstance(fn, ast.Name) else fn
        if isinstance(real, ast.Call) and _last_name(real.func) == "partial" and real.args and not any(isinstance(x, ast.Starred) for x in real.args) \
                and all(k.arg is not None for k in real.keywords):
            self.changed = True
            new = ast.Call(func=copy.deepcopy(real.args[0]), args=[copy.deepcopy(x) for x in real.args[1:]] + list(n.args),
                           keywords=[copy.deepcopy(k) for k in real.keywords] + list(n.keywords))
            return self._simplify_call(ast.fix_missing_locations(_relocate(new, n)))
        # calls of lambdas / operator callables (directly, or through a name bound once)
        if not n.keywords:
            real = fn
            if isinstance(fn, ast.Name):
                real = self._callable_expr(fn)
            if isinstance(real, ast.IfExp) and not any(isinstance(x, ast.Starred) for x in n.args):
                # (A if c else B)(args) -> A(args) if c else B(args)
                self.changed = True
                new = ast.IfExp(test=copy.deepcopy(real.test),
                                body=self._call_of(copy.deepcopy(real.body), [copy.deepcopy(x) for x in n.args], n),
                                orelse=self._call_of(copy.deepcopy(real.orelse), [copy.deepcopy(x) for x in n.args], n))
                return ast.fix_missing_locations(_relocate(new, n))
            if isinstance(real, ast.Lambda) or (isinstance(real, ast.Call) and _last_name(real.func) in OPERATOR_FACTORIES):
                r = self._apply(real, list(n.args), n)
                if r is not None:
                    self.changed = True
                    return ast.fix_missing_locations(_relocate(r, n))
            elif isinstance(fn, ast.Name) and isinstance(real, ast.Attribute):
                self.changed = True
                n.func = _relocate(copy.deepcopy(real), n)
                return n
        # Cls.method(obj, ..)
        if isinstance(fn, ast.Attribute) and isinstance(fn.value, ast.Name) and fn.value.id in self.repo.classes and fn.value.id not in self.bound \
                and n.args and not isinstance(n.args[0], ast.Starred):
            ci = self.repo.classes[fn.value.id]
            meth = None
            for c in self.repo.mro(fn.value.id):
                if c in self.repo.classes and fn.attr in self.repo.classes[c].methods:
                    meth = self.repo.classes[c]
                    break
            if meth is not None and fn.attr not in meth.static and not _is_classmethod(meth.methods[fn.attr]):
                self.changed = True
                n.func = ast.copy_location(ast.Attribute(value=n.args[0], attr=fn.attr, ctx=ast.Load()), fn)
                n.args = list(n.args[1:])
                return n
        # chain.from_iterable((a, b)) -> chain(a, b)
        if isinstance(fn, ast.Attribute) and fn.attr == "from_iterable" and len(n.args) == 1 and not n.keywords \
                and isinstance(n.args[0], (ast.Tuple, ast.List)) and not any(isinstance(x, ast.Starred) for x in n.args[0].elts):
            self.changed = True
            return ast.copy_location(ast.Call(func=fn.value, args=list(n.args[0].elts), keywords=[]), n)
        # map / filter / starmap
        name = _last_name(fn)
        if name in ("map", "filter", "starmap") and not n.keywords and len(n.args) >= 2 and not any(isinstance(x, ast.Starred) for x in n.args) \
                and name not in self.bound:
            gen = self._lazy(name, n.args[0], list(n.args[1:]), n)
            if gen is not None:
                self.changed = True
                return gen
        return n

    def _lazy(self, kind: str, fn: ast.AST, its: List[ast.AST], at: ast.AST) -> Optional[ast.AST]:
        self.comp_scope.append(set())
        try:
            return self._lazy_(kind, fn, its, at)
        finally:
            self.comp_scope.pop()

    def _lazy_(self, kind: str, fn: ast.AST, its: List[ast.AST], at: ast.AST) -> Optional[ast.AST]:
        load = lambda s: ast.Name(id=s, ctx=ast.Load())
        store = lambda s: ast.Name(id=s, ctx=ast.Store())
        if kind == "filter":
            if len(its) != 1:
                return None
            v_ = self.fresh()
            self.comp_bound[v_] = 1
            test = load(v_) if isinstance(fn, ast.Constant) and fn.value is None else self._call_of(fn, [load(v_)], at)
            gen = ast.GeneratorExp(elt=load(v_), generators=[ast.comprehension(target=store(v_), iter=its[0], ifs=[test], is_async=0)])
        elif kind == "starmap":
            if len(its) != 1:
                return None
            real = self._callable_expr(fn) if isinstance(fn, ast.Name) else fn
            if not isinstance(real, ast.Lambda) or real.args.vararg or real.args.kwarg or real.args.kwonlyargs:
                return None
            names = [self.fresh() for _ in real.args.args]
            for x in names:
                self.comp_bound[x] = 1
            elt = self._call_of(real, [load(x) for x in names], at)
            gen = ast.GeneratorExp(elt=elt, generators=[ast.comprehension(target=ast.Tuple(elts=[store(x) for x in names], ctx=ast.Store()),
                                                                          iter=its[0], ifs=[], is_async=0)])
        else:
            names = [self.fresh() for _ in its]
            for x in names:
                self.comp_bound[x] = 1
            elt = self._call_of(fn, [load(x) for x in names], at)
            if len(its) == 1:
                tgt, it = store(names[0]), its[0]
            else:
                tgt = ast.Tuple(elts=[store(x) for x in names], ctx=ast.Store())
                it = ast.Call(func=load("zip"), args=its, keywords=[])
            gen = ast.GeneratorExp(elt=elt, generators=[ast.comprehension(target=tgt, iter=it, ifs=[], is_async=0)])
        return ast.fix_missing_locations(ast.copy_location(gen, at))

    def visit_Call(self, n):
        self.generic_visit(n)
        return self._simplify_call(n)

    # ---------------------------------------------------------------- comprehensions that call a private helper
    # The inliner expands `x = [helper(v) for v in IT]` / `c.update(helper(v) for v in IT)` into loops (so that the helper can be put
    # in place), but not a comprehension that is consumed in the middle of an expression.  Such a comprehension is evaluated at
    # this statement anyway (list / set / dict comprehensions are eager, a generator expression handed to an eager consumer is
    # exhausted by it), so it is moved into a statement of its own right before:
    #   x = dict(helper(m, v) for v in IT)     ->  t = [helper(m, v) for v in IT]; x = dict(t)
    #   c.update({helper(v): w for ..})        ->  t = {helper(v): w for ..}; c.update(t)
    #   for a in (helper(v) for v in IT): B    ->  for v in IT: a = helper(v); B
    _EAGER_CONSUMERS = ("dict", "list", "tuple", "set", "frozenset", "sorted", "OrderedDict", "deque", "update", "extend", "sum", "any", "all",
                        "min", "max", "join", "fromkeys", "Counter")

    def _calls_private(self, comp: ast.AST) -> bool:
        first = comp.generators[0].iter
        if self._is_private_generator_call(first):
            return True             # the inliner expands a comprehension over a generator helper when it is a statement of its own
        skip = {id(x) for x in ast.walk(first)}
        for x in ast.walk(comp):
            if isinstance(x, ast.Call) and id(x) not in skip:
                nm = _last_name(x.func)
                if nm and nm.startswith("_") and not (nm.startswith("__") and nm.endswith("__")):
                    return True
        return False

    def _hoistable(self, e: ast.AST, out: List[Tuple[ast.AST, ast.AST, str]], parent: Optional[ast.AST] = None, fld: str = ""):
        """(parent node, comprehension, field) of the comprehensions with a private call that are evaluated unconditionally here"""
        if isinstance(e, ast.Lambda):
            return
        if isinstance(e, COMPS):
            if isinstance(e, ast.GeneratorExp):
                ok = isinstance(parent, ast.Call) and len(parent.args) == 1 and parent.args[0] is e and not parent.keywords \
                    and _last_name(parent.func) in self._EAGER_CONSUMERS and _last_name(parent.func) not in self.bound
            else:
                ok = parent is not None
            if ok and not any(g_.is_async for g_ in e.generators) and self._calls_private(e) and not self._effects_before:
                out.append((parent, e, fld))
            else:
                self._hoistable(e.generators[0].iter, out, e, "iter0")
            return
        if isinstance(e, ast.Call) and len(e.args) == 1 and not e.keywords and _last_name(e.func) in self._EAGER_CONSUMERS \
                and _last_name(e.func) not in self.bound and self._is_private_generator_call(e.args[0]):
            # set(self._gen(..)) -> set(x for x in self._gen(..))
            v_ = self.fresh()
            self.comp_bound[v_] = 1
            gen = ast.GeneratorExp(elt=ast.Name(id=v_, ctx=ast.Load()),
                                   generators=[ast.comprehension(target=ast.Name(id=v_, ctx=ast.Store()), iter=e.args[0], ifs=[], is_async=0)])
            e.args[0] = ast.fix_missing_locations(ast.copy_location(gen, e.args[0]))
            self.changed = True
        if isinstance(e, ast.BoolOp):
            self._hoistable(e.values[0], out, e, "values0")
            return
        if isinstance(e, ast.IfExp):
            self._hoistable(e.test, out, e, "test")
            return
        # (operands in evaluation order; once a call was evaluated, a later comprehension may not be moved in front of it)
        kids: List[Tuple[str, ast.AST]] = []
        for name, val in ast.iter_fields(e):
            if isinstance(val, ast.AST):
                kids.append((name, val))
            elif isinstance(val, list):
                kids.extend((name, x) for x in val if isinstance(x, ast.AST))
        if isinstance(e, ast.Dict):
            kids = [(n_, x) for pair in zip(e.keys, e.values) for n_, x in (("keys", pair[0]), ("values", pair[1])) if x is not None]
        for name, val in kids:
            self._hoistable(val, out, e, name)
            if self._may_have_effects(val, {id(c) for _p, c, _f in out}):
                self._effects_before = True

    _PURE_FNS = ("set", "list", "dict", "tuple", "frozenset", "sorted", "reversed", "len", "zip", "enumerate", "iter", "map", "filter", "str", "int",
                 "bool", "float", "repr", "isinstance", "type", "id", "partial", "chain", "starmap", "from_iterable", "attrgetter", "itemgetter",
                 "methodcaller", "OrderedDict", "deque", "min", "max", "sum", "any", "all", "range", "getattr", "hasattr")
    _PURE_METHODS = ("items", "keys", "values", "get", "copy", "__getitem__", "union", "intersection", "difference", "issubset", "issuperset",
                     "format", "join", "split", "strip", "lower", "upper", "startswith", "endswith", "index", "count", "_replace", "_asdict",
                     "from_iterable")

    def _may_have_effects(self, e: ast.AST, moved: Set[int]) -> bool:
        """evaluating the expression may change something (the comprehensions in `moved` are evaluated elsewhere)"""
        if id(e) in moved:
            return False
        if isinstance(e, (ast.Yield, ast.YieldFrom, ast.Await, ast.NamedExpr)):
            return True
        if isinstance(e, ast.Lambda):
            return False
        if isinstance(e, ast.Call):
            fn = e.func
            if isinstance(fn, ast.Name):
                pure = fn.id not in self.bound and (fn.id in self._PURE_FNS or fn.id in self.repo.classes)
            else:
                pure = isinstance(fn, ast.Attribute) and fn.attr in self._PURE_METHODS
            if not pure:
                return True
        return any(self._may_have_effects(x, moved) for x in ast.iter_child_nodes(e))

    def _hoist(self, st: ast.stmt, exprs: List[ast.AST]) -> List[ast.stmt]:
        """the statements that evaluate the hoistable comprehensions of `exprs` (parts of st) into temporaries; st is changed in place"""
        found: List[Tuple[ast.AST, ast.AST, str]] = []
        self._effects_before = False
        for e in exprs:
            if e is not None:
                self._hoistable(e, found, st if isinstance(e, COMPS) and not isinstance(e, ast.GeneratorExp) and self._is_value_of(st, e) else None)
        pre: List[ast.stmt] = []
        for parent, comp, fld in found:
            if parent is st:
                continue            # `x = [helper(v) for ..]`: the inliner expands this form itself
            tmp = f"ds__h{next(_fresh_counter)}"
            self.bound[tmp] = 1
            val = comp
            if isinstance(comp, ast.GeneratorExp):
                val = ast.copy_location(ast.ListComp(elt=comp.elt, generators=comp.generators), comp)
            name = ast.copy_location(ast.Name(id=tmp, ctx=ast.Load()), comp)
            replaced = False
            for f_, v_ in ast.iter_fields(parent):
                if v_ is comp:
                    setattr(parent, f_, name)
                    replaced = True
                elif isinstance(v_, list):
                    for i, x in enumerate(v_):
                        if x is comp:
                            v_[i] = name
                            replaced = True
            if not replaced:
                continue
            pre.append(ast.fix_missing_locations(ast.copy_location(
                ast.Assign(targets=[ast.Name(id=tmp, ctx=ast.Store())], value=val, lineno=getattr(st, "lineno", 1)), st)))
            self.changed = True
        return pre

    @staticmethod
    def _is_value_of(st: ast.stmt, e: ast.AST) -> bool:
        return isinstance(st, (ast.Assign, ast.AnnAssign, ast.Return)) and getattr(st, "value", None) is e

    def _with_hoisted(self, st):
        """st, preceded by the evaluation of its comprehensions that call private helpers"""
        if isinstance(st, list):
            return [y for x in st for y in self._with_hoisted(x)]
        if isinstance(st, (ast.Assign, ast.AnnAssign, ast.AugAssign, ast.Return, ast.Expr)):
            pre = self._hoist(st, [st.value])
            return pre + [st] if pre else [st]
        return [st]

    # ---------------------------------------------------------------- statements
    def _as_loops(self, comp: ast.AST, at: ast.stmt) -> ast.stmt:
        """`E for x in IT if C ..` evaluated for its effects only -> for x in IT: if C: E"""
        body: List[ast.stmt] = [ast.Expr(value=comp.elt)]
        for g_ in reversed(comp.generators):
            if g_.ifs:
                test = g_.ifs[0] if len(g_.ifs) == 1 else ast.BoolOp(op=ast.And(), values=list(g_.ifs))
                body = [ast.If(test=test, body=body, orelse=[])]
            body = [ast.For(target=g_.target, iter=g_.iter, body=body, orelse=[], lineno=at.lineno)]
            for x in ast.walk(g_.target):
                if isinstance(x, ast.Name):
                    self.bound[x.id] = self.bound.get(x.id, 0) + 1      # now a local of the function
                    self.comp_bound.pop(x.id, None)
        for x in ast.walk(body[0]):
            if hasattr(at, "lineno") and not hasattr(x, "lineno"):
                ast.copy_location(x, at)
        return ast.fix_missing_locations(ast.copy_location(body[0], at))

    def _exhausted(self, e: ast.AST) -> Optional[ast.AST]:
        """the comprehension that the expression runs to the end without looking at the results (as a statement)"""
        lazy = (ast.GeneratorExp, ast.ListComp, ast.SetComp)
        if isinstance(e, (ast.ListComp, ast.SetComp)):
            return e
        if isinstance(e, ast.Call) and len(e.args) == 1 and isinstance(e.args[0], lazy) and not any(g_.is_async for g_ in e.args[0].generators):
            name = _last_name(e.func)
            if name in ("list", "set", "tuple", "frozenset") and not e.keywords and name not in self.bound:
                return e.args[0]
            if name == "deque" and len(e.keywords) == 1 and e.keywords[0].arg == "maxlen" and const_eval(e.keywords[0].value) == (True, 0):
                return e.args[0]
        return None

    def visit_Assign(self, st):
        self.generic_visit(st)
        if len(st.targets) == 1 and isinstance(st.targets[0], ast.Name) and st.targets[0].id in self.local_once:
            self.local_once[st.targets[0].id] = st.value         # the desugared value
        return self._with_hoisted(st)

    def visit_AnnAssign(self, st):
        self.generic_visit(st)
        if isinstance(st.target, ast.Name) and st.target.id in self.local_once and st.value is not None:
            self.local_once[st.target.id] = st.value
        return self._with_hoisted(st)

    def visit_AugAssign(self, st):
        self.generic_visit(st)
        return self._with_hoisted(st)

    def visit_Return(self, st):
        self.generic_visit(st)
        return self._with_hoisted(st)

    def visit_Expr(self, st):
        self.generic_visit(st)
        c = st.value
        # setattr(X, "a", V)  ->  X.a = V
        if isinstance(c, ast.Call) and isinstance(c.func, ast.Name) and c.func.id == "setattr" and len(c.args) == 3 and not c.keywords:
            ok, name = const_eval(c.args[1])
            if ok and isinstance(name, str) and name.isidentifier():
                self.changed = True
                tgt = ast.Attribute(value=c.args[0], attr=name, ctx=ast.Store())
                return ast.fix_missing_locations(ast.copy_location(ast.Assign(targets=[ast.copy_location(tgt, c)], value=c.args[2], lineno=st.lineno), st))
        if isinstance(c, ast.Call) and _last_name(c.func) == "reduce" and len(c.args) == 3 and not c.keywords and "reduce" not in self.bound \
                and not any(isinstance(x, ast.Starred) for x in c.args):
            # reduce(F, IT, init) evaluated for its effects: the inliner spells `x = reduce(..)` as a loop
            self.changed = True
            tmp = f"ds__r{next(_fresh_counter)}"
            self.bound[tmp] = 1
            new = ast.Assign(targets=[ast.copy_location(ast.Name(id=tmp, ctx=ast.Store()), c)], value=c, lineno=st.lineno)
            return self._with_hoisted(ast.fix_missing_locations(ast.copy_location(new, st)))
        if isinstance(c, ast.YieldFrom) and isinstance(c.value, ast.IfExp):
            self.changed = True         # yield from (A if c else B)
            mk = lambda x: ast.copy_location(ast.Expr(value=ast.copy_location(ast.YieldFrom(value=x), c)), st)
            new = ast.If(test=c.value.test, body=[mk(c.value.body)], orelse=[mk(c.value.orelse)])
            return self.visit(ast.fix_missing_locations(ast.copy_location(new, st)))
        if isinstance(c, ast.YieldFrom) and isinstance(c.value, (ast.Tuple, ast.List)) and not any(isinstance(x, ast.Starred) for x in c.value.elts):
            self.changed = True         # yield from (a, b)  ->  yield a; yield b
            out = [ast.fix_missing_locations(ast.copy_location(ast.Expr(value=ast.copy_location(ast.Yield(value=x), c)), st)) for x in c.value.elts]
            return out or [ast.copy_location(ast.Pass(), st)]
        if isinstance(c, ast.IfExp):
            self.changed = True         # A(..) if c else B(..) evaluated for its effects
            new = ast.If(test=c.test, body=[ast.copy_location(ast.Expr(value=c.body), st)], orelse=[ast.copy_location(ast.Expr(value=c.orelse), st)])
            return self.visit(ast.fix_missing_locations(ast.copy_location(new, st)))
        comp = self._exhausted(c)
        if comp is not None and not isinstance(comp.elt, ast.Starred):
            self.changed = True
            return self.visit(self._as_loops(comp, st))
        return self._with_hoisted(st)

    # ---------------------------------------------------------------- loops / comprehensions over constant tables
    def _instances(self, target: ast.AST, table: List[ast.AST], parts: List[ast.AST]) -> Optional[List[List[ast.AST]]]:
        """for every entry of the table the copies of `parts` with the loop variable(s) replaced by the entry"""
        out = []
        for entry in table:
            b = self._bindings(target, entry)
            if b is None:
                return None
            inst = []
            for part in parts:
                new = _Subst(b).visit(copy.deepcopy(part))
                new = _FoldTests().visit(new)
                inst.append(new)
            flat = [y for x in inst for y in (x if isinstance(x, list) else [x])]
            if _undecided_test_on_subst(flat):
                return None
            out.append(inst)
        return out

    def visit_For(self, n):
        self.generic_visit(n)
        if isinstance(n.iter, ast.GeneratorExp) and not n.orelse and all(isinstance(s, ast.Pass) for s in n.body) \
                and all(isinstance(x, (ast.Name, ast.Tuple, ast.expr_context)) for x in ast.walk(n.target)):
            self.changed = True         # for _ in (E for ..): pass
            return self.visit(self._as_loops(n.iter, n))
        if isinstance(n.iter, ast.GeneratorExp) and self._calls_private(n.iter) and not any(g_.is_async for g_ in n.iter.generators) \
                and (len(n.iter.generators) == 1 or not (n.orelse or _own_jumps(n.body, (ast.Break,)))):
            # for a in (helper(v) for v in IT if C): BODY  ->  for v in IT: if C: a = helper(v); BODY
            self.changed = True
            comp = n.iter
            k = next(_fresh_counter)
            names = {x.id for g_ in comp.generators for x in ast.walk(g_.target) if isinstance(x, ast.Name)}
            ren = _Rename({x: f"{x}__h{k}" for x in names})
            first = comp.generators[0].iter
            for g_ in comp.generators:
                g_.target = ren.visit(g_.target)
                g_.ifs = [ren.visit(c) for c in g_.ifs]
                if g_.iter is not first:
                    g_.iter = ren.visit(g_.iter)
            for x in names:
                self.comp_bound.pop(x, None)
                self.bound[f"{x}__h{k}"] = 1
            body: List[ast.stmt] = [ast.Assign(targets=[n.target], value=ren.visit(comp.elt), lineno=n.lineno)] + list(n.body)
            orelse = n.orelse
            for g_ in reversed(comp.generators):
                for c in reversed(g_.ifs):
                    body = [ast.If(test=c, body=body, orelse=[])]
                body = [ast.For(target=g_.target, iter=g_.iter, body=body, orelse=orelse, lineno=n.lineno)]
                orelse = []
            for x in ast.walk(body[0]):
                if not hasattr(x, "lineno") and isinstance(x, (ast.stmt, ast.expr)):
                    ast.copy_location(x, n)
            return ast.fix_missing_locations(ast.copy_location(body[0], n))
        table = self._table(n.iter)
        if table is None or n.orelse or _own_jumps(n.body, (ast.Break,)):
            return n
        names = [x.id for x in ast.walk(n.target) if isinstance(x, ast.Name)]
        if any(self.bound.get(x) != 1 or x in self.comp_bound for x in names) or not _simple_target(n.target):
            return n
        insts = self._instances(n.target, table, list(n.body))
        if insts is None:
            return n
        straight = []
        for inst in insts:
            flat = _without_continue([y for s in inst for y in (s if isinstance(s, list) else [s])], [])
            if flat is None:
                return n
            straight.append(flat)
        self.changed = True
        out: List[ast.stmt] = []
        for entry, flat in zip(table, straight):
            out.append(ast.copy_location(ast.Assign(targets=[copy.deepcopy(n.target)], value=_relocate(copy.deepcopy(entry), n), lineno=n.lineno), n))
            for y in flat:
                r = self.visit(y)
                out.extend(r if isinstance(r, list) else [r])
        for x in names:
            self.bound[x] = self.bound.get(x, 0) + len(table)
        for s in n.body:                # what the body binds is now bound once per entry
            for x in ast.walk(s):
                if isinstance(x, ast.Name) and isinstance(x.ctx, ast.Store):
                    self.local_once.pop(x.id, None)
        return out

    def _unroll_comp(self, n):
        g0 = n.generators[0]
        table = self._table(g0.iter)
        if table is None or g0.is_async:
            return n
        names = [x.id for x in ast.walk(g0.target) if isinstance(x, ast.Name)]
        if any(self.comp_bound.get(x) != 1 for x in names):
            return n
        rest = n.generators[1:]
        if isinstance(n, ast.DictComp):
            parts = [n.key, n.value] + list(g0.ifs) + list(rest)
        else:
            parts = [n.elt] + list(g0.ifs) + list(rest)
        nhead = 2 if isinstance(n, ast.DictComp) else 1
        insts = self._instances(g0.target, table, parts)
        if insts is None:
            return n
        pieces = []
        for inst in insts:
            head, ifs, gens = inst[:nhead], inst[nhead:nhead + len(g0.ifs)], inst[nhead + len(g0.ifs):]
            keep = True
            for t in ifs:
                ok, val = const_eval(t)
                if not ok:
                    return n
                keep = keep and bool(val)
            if keep:
                pieces.append((head, gens))
        self.changed = True
        if not rest:
            if isinstance(n, ast.DictComp):
                new = ast.Dict(keys=[h[0] for h, _ in pieces], values=[h[1] for h, _ in pieces])
            elif isinstance(n, ast.SetComp) and pieces:
                new = ast.Set(elts=[h[0] for h, _ in pieces])
            elif isinstance(n, ast.ListComp):
                new = ast.List(elts=[h[0] for h, _ in pieces], ctx=ast.Load())
            else:
                new = ast.Tuple(elts=[h[0] for h, _ in pieces], ctx=ast.Load())
                if isinstance(n, ast.SetComp):
                    new = ast.Call(func=ast.Name(id="set", ctx=ast.Load()), args=[new], keywords=[])
            return self.visit(ast.fix_missing_locations(ast.copy_location(new, n)))
        # more generators: the chain of one comprehension per entry
        if isinstance(n, ast.DictComp):
            subs = [ast.DictComp(key=h[0], value=h[1], generators=gens) for h, gens in pieces]
            new = ast.Dict(keys=[None] * len(subs), values=subs)
        else:
            subs = [ast.GeneratorExp(elt=h[0], generators=gens) for h, gens in pieces]
            new = ast.Call(func=ast.Name(id="chain", ctx=ast.Load()), args=subs, keywords=[])
            if isinstance(n, ast.ListComp):
                new = ast.Call(func=ast.Name(id="list", ctx=ast.Load()), args=[new], keywords=[])
            elif isinstance(n, ast.SetComp):
                new = ast.Call(func=ast.Name(id="set", ctx=ast.Load()), args=[new], keywords=[])
        new = ast.fix_missing_locations(ast.copy_location(new, n))
        for s in subs:
            self.generic_visit(s)
        return new

    def visit_ListComp(self, n):
        self.comp_scope.append({x.id for g_ in n.generators for x in ast.walk(g_.target) if isinstance(x, ast.Name)})
        try:
            self.generic_visit(n)
        finally:
            self.comp_scope.pop()
        return self._unroll_comp(n)

    visit_GeneratorExp = visit_DictComp = visit_ListComp

    def visit_SetComp(self, n):
        r = self.visit_ListComp(n)
        if self.final and isinstance(r, ast.SetComp) and "set" not in self.bound:
            self.changed = True
            gen = ast.copy_location(ast.GeneratorExp(elt=r.elt, generators=r.generators), r)
            r = ast.copy_location(ast.Call(func=ast.copy_location(ast.Name(id="set", ctx=ast.Load()), r), args=[gen], keywords=[]), r)
        return r

    def visit_Set(self, n):
        self.generic_visit(n)
        if not self.final or "set" in self.bound or any(isinstance(x, ast.Starred) for x in n.elts):
            return n
        self.changed = True
        tup = ast.copy_location(ast.Tuple(elts=n.elts, ctx=ast.Load()), n)
        return ast.copy_location(ast.Call(func=ast.copy_location(ast.Name(id="set", ctx=ast.Load()), n), args=[tup], keywords=[]), n)


def _last_name(e: ast.AST) -> Optional[str]:
    if isinstance(e, ast.Name):
        return e.id
    if isinstance(e, ast.Attribute):
        return e.attr
    return None


def _simple_target(t: ast.AST) -> bool:
    return isinstance(t, ast.Name) or (isinstance(t, (ast.Tuple, ast.List)) and all(_simple_target(x) for x in t.elts))


def _is_classmethod(fn: ast.FunctionDef) -> bool:
    return any(isinstance(d, ast.Name) and d.id in ("classmethod", "staticmethod") for d in fn.decorator_list)


_desugared: Dict[tuple, tuple] = {}


def _desugar(repo: Repo, f: FuncInfo, final: bool = False) -> FuncInfo:
    k = (id(f.node), final)
    if k in _desugared:
        return _desugared[k][1]
    out = f
    node = copy.deepcopy(f.node)
    probe = FuncInfo(f.mod, f.cls, node, static=f.static)
    probe.inlined = getattr(f, "inlined", [])
    t = _Desugar(repo, probe, final)
    node = t.visit(node)
    if t.changed:
        ast.fix_missing_locations(node)
        out = FuncInfo(f.mod, f.cls, node, static=f.static)
        out.qn = f.qn
        for attr in ("flat_of", "inlined", "inlined_bodies"):
            if hasattr(f, attr):
                setattr(out, attr, getattr(f, attr))
    _desugared[k] = (f, out)            # keeps f alive: id(f.node) stays unique
    return out


def respelled(repo: Repo, f: FuncInfo) -> FuncInfo:
    """the (not flattened) function in the plain forms of `_desugar`"""
    try:
        return _desugar(repo, f)
    except Exception:
        return f


# --------------------------------------------------------------------------- records and intermediate containers
def record_fields(repo: Repo) -> Dict[str, List[str]]:
    """classes of the repository that are plain records (NamedTuple / dataclass / namedtuple(..)): name -> field names in order"""
    cache = repo.__dict__.setdefault("_c18_records", None)
    if cache is not None:
        return cache
    out: Dict[str, List[str]] = {}
    for name, ci in repo.classes.items():
        deco = {_last_name(d.func if isinstance(d, ast.Call) else d) for d in ci.node.decorator_list}
        if any(b.split(".")[-1] == "NamedTuple" for b in ci.bases) or "dataclass" in deco:
            flds = [b.target.id for b in ci.node.body if isinstance(b, ast.AnnAssign) and isinstance(b.target, ast.Name)]
            if flds and "__init__" not in ci.methods and "__new__" not in ci.methods:
                out[name] = flds
    for m in repo.mods.values():
        for name, d in m.defs.items():
            if d[0] == "const" and isinstance(d[1], ast.Call) and _last_name(d[1].func) == "namedtuple" and len(d[1].args) >= 2:
                ok, flds = const_eval(d[1].args[1])
                if ok and isinstance(flds, str):
                    flds = flds.replace(",", " ").split()
                if ok and flds and all(isinstance(x, str) for x in flds):
                    out[name] = list(flds)
    repo.__dict__["_c18_records"] = out
    return out


_CONTAINER_FNS = ("list", "tuple", "iter", "dict", "OrderedDict", "deque", "copy", "deepcopy", "sorted", "reversed", "set", "frozenset")


def cancel_path(p: Path, records: Dict[str, List[str]]) -> Optional[Path]:
    """A value that is put into a slot of a tuple / record, or into an intermediate container, and taken out again is the value
    itself:  (X, 'in:0', 'in:elt', 'elem', 'unpack:0') -> X;  (X, 'kw:name:Rec', .., 'attr:name') -> X;  (X, 'in:key', 'call:items',
    'elem', 'unpack:0') -> X.  Steps that convert the container in between (list / sorted / set ..) stay on the path.  None when
    the selection takes ANOTHER slot than the one the value was put into (the path denotes nothing)."""
    out: List[Optional[str]] = []
    stack: List[list] = []          # [kind, slot, position of the construct step, position of a view step or None]

    def kill(ent):
        out[ent[2]] = None
        if ent[3] is not None:
            out[ent[3]] = None

    for s in p:
        kind = slot = None
        if s.startswith("in:"):
            t = s[3:]
            if t.isdigit():
                kind, slot = "slot", int(t)
            elif t == "key" or t.startswith("setkey@"):
                kind = "key"
            elif t == "value" or t.startswith("setval@"):
                kind = "val"
            elif t == "elt" or t.split("@")[0] in ("append", "add", "appendleft", "insert"):
                kind = "elt"
        elif s.startswith(("arg", "kw:")) and s.rsplit(":", 1)[-1] in records:
            flds = records[s.rsplit(":", 1)[-1]]
            if s.startswith("kw:"):
                name = s.split(":")[1]
                if name in flds:
                    kind, slot = "slot", flds.index(name)
            elif s[3:].split(":")[0].isdigit() and int(s[3:].split(":")[0]) < len(flds):
                kind, slot = "slot", int(s[3:].split(":")[0])
        if kind is not None:
            stack.append([kind, slot, len(out), None])
            out.append(s)
            continue
        top = stack[-1] if stack else None
        if top is None:
            out.append(s)
            continue
        if top[0] == "wrapped" and s != "elem" and s not in ORDER_PASS:
            stack.clear()           # zip(..) / enumerate(..) that is not iterated here (dict(zip(a, b)) ..): see L.map_entries
            out.append(s)
            continue
        sel = None
        if s.startswith(("unpack:", "item:")) and s.split(":", 1)[1].isdigit():
            sel = int(s.split(":", 1)[1])
        elif s.startswith("attr:") and top[0] == "slot" and isinstance(top[1], int):
            owner = [flds for flds in records.values() if s[5:] in flds]
            if owner:
                sel = owner[0].index(s[5:])
        if sel is not None:
            if top[0] == "slot":
                if top[1] != sel:
                    return None
                kill(top)
                stack.pop()
                continue
            stack.clear()
            out.append(s)
            continue
        if s == "elem":
            view = out[top[3]][5:] if top[3] is not None else None
            if top[0] in ("elt", "slot"):
                kill(top)
                stack.pop()
                continue
            if top[0] == "key" and view in (None, "keys"):
                kill(top)
                stack.pop()
                continue
            if top[0] == "val" and view == "values":
                kill(top)
                stack.pop()
                continue
            if top[0] == "wrapped":
                top[0] = "slot"                                              # the tuple that zip / enumerate delivers
                continue
            if view == "items":
                top[0], top[1] = "slot", (0 if top[0] == "key" else 1)      # the (key, value) pair of the items view
                continue
            return None
        if s == "item" and top[0] in ("val", "elt"):
            kill(top)
            stack.pop()
            continue
        if s in ("call:items", "call:keys", "call:values") and top[0] in ("key", "val") and top[3] is None:
            top[3] = len(out)
            out.append(s)
            continue
        if top[0] == "elt" and top[3] is None and s.startswith("arg") and s.endswith((":zip", ":enumerate")) and s[3:].split(":")[0].isdigit():
            # the container is zipped / enumerated: its elements are slot i of the tuples that come out
            top[0], top[1], top[3] = "wrapped", (int(s[3:].split(":")[0]) if s.endswith(":zip") else 1), len(out)
            out.append(s)
            continue
        if s in ORDER_PASS or (s.startswith("arg0:") and s[5:] in _CONTAINER_FNS):
            out.append(s)
            continue
        stack.clear()               # anything else: the value is used / handed to something that is not understood as a container
        out.append(s)
    return tuple(x for x in out if x is not None)


def cancel_paths(paths: Iterable[Path], records: Dict[str, List[str]]) -> Set[Path]:
    res: Set[Path] = set()
    for p in paths:
        if not any(x.startswith(("in:", "arg", "kw:")) for x in p):
            res.add(p)
            continue
        q = cancel_path(p, records)
        if q is not None:
            res.add(q)
    return res


class View:
    def __init__(self, repo: Repo, f: FuncInfo):
        self.repo, self.f = repo, f
        self.records = record_fields(repo)
        self.p = L.prov(repo, f)
        self.g = C.cfg_of(f.node)
        self.pm = L.parents_of(f)
        self._alias_names: Dict[Path, Set[str]] = {}

    # ---------------------------------------------------------------- identity
    def raw_trace(self, e: ast.AST, keys: bool = False, under=None) -> Set[Path]:
        try:
            return self.p.trace(e, keys=keys, under=under)
        except KeyError:
            return set()

    def trace(self, e: ast.AST, keys: bool = False, under=None) -> Set[Path]:
        return cancel_paths(self.raw_trace(e, keys=keys, under=under), self.records)

    def identity(self, e: ast.AST) -> Set[Path]:
        """the objects the expression may denote (paths without content flows)"""
        return {x for x in self.trace(e) if not any(s.startswith("in:") for s in x)}

    def is_obj(self, e: ast.AST, obj: Path) -> bool:
        return obj in self.identity(e)

    def alias_names(self, obj: Path) -> Set[str]:
        """local names that (may) denote the object"""
        if obj not in self._alias_names:
            out: Set[str] = set()
            for n in ast.walk(self.f.node):
                if isinstance(n, ast.Name) and isinstance(n.ctx, ast.Load) and n.id not in out and self.is_obj(n, obj):
                    out.add(n.id)
            self._alias_names[obj] = out
        return self._alias_names[obj]

    def content(self, e: ast.AST, obj: Optional[Path] = None, keys: bool = True, under=None) -> Set[Path]:
        """trace(e) without the paths that read back what this function itself stores into (an alias of) `obj`:
        the flow-insensitive content relation would otherwise make the new content of a container one of its own sources"""
        tr = self.raw_trace(e, keys=keys, under=under)
        names = self.alias_names(obj) if obj is not None else ()
        if names:
            tr = {x for x in tr if not any(s.startswith("in:") and "@" in s and s.split("@", 1)[1] in names for s in x)}
        return cancel_paths(tr, self.records)

    # ---------------------------------------------------------------- statements / loops
    def node_of(self, n: ast.AST) -> Optional[int]:
        if isinstance(n, ast.stmt):
            r = self.g.node_of(n)
            if r is not None:
                return r
        try:
            return self.p.node_of(n)
        except KeyError:
            return self.g.node_containing(n)

    def ancestors(self, n: ast.AST):
        cur = n
        while cur in self.pm:
            cur = self.pm[cur]
            yield cur


def _is_empty_literal(x: ast.AST) -> bool:
    if isinstance(x, (ast.List, ast.Set, ast.Tuple)) and not x.elts:
        return True
    if isinstance(x, ast.Dict) and not x.keys:
        return True
    return isinstance(x, ast.Call) and isinstance(x.func, ast.Name) and x.func.id in ("list", "set", "dict", "tuple", "OrderedDict") \
        and not x.args and not x.keywords


class Write:
    __slots__ = ("kind", "site", "key", "value")

    def __init__(self, kind: str, site: ast.AST, key: Optional[ast.AST] = None, value: Optional[ast.AST] = None):
        self.kind, self.site, self.key, self.value = kind, site, key, value

    def __repr__(self):
        return f"<{self.kind} {ast.unparse(self.site)[:50]}>"


def _paired_targets(t: ast.AST, value: ast.AST):
    """a.x, a.y = X, Y  ->  (a.x, X), (a.y, Y);  other shapes: every target with the whole value"""
    if isinstance(t, (ast.Tuple, ast.List)):
        if isinstance(value, (ast.Tuple, ast.List)) and len(value.elts) == len(t.elts) \
                and not any(isinstance(x, ast.Starred) for x in list(t.elts) + list(value.elts)):
            for te, ve in zip(t.elts, value.elts):
                yield from _paired_targets(te, ve)
        else:
            for te in t.elts:
                yield from _paired_targets(te.value if isinstance(te, ast.Starred) else te, value)
    else:
        yield t, value


def writes(v: View, obj: Path) -> List[Write]:
    """all writes to the container object `obj` = (<owner path..>, 'attr:<field>'):
       rebind       owner.field = X
       clear        C.clear()
       insert-map   C.update(X) / C |= X / C.extend(X)
       insert-item  C[k] = x / C.__setitem__(k, x) / C.setdefault(k, x)
       insert-elem  C.add(x) / C.append(x)
       remove       C.pop(k) / del C[k] / C.remove(x) / C.discard(x) ..
    where C is any expression that denotes the object (attribute chain or local alias)"""
    out: List[Write] = []
    owner, fld = obj[:-1], obj[-1][5:] if obj[-1].startswith("attr:") else None

    def is_c(e):
        return v.is_obj(e, obj)

    def is_field_target(t):
        return fld is not None and isinstance(t, ast.Attribute) and t.attr == fld and tuple(owner) in v.identity(t.value)

    for n in ast.walk(v.f.node):
        if isinstance(n, ast.Call) and isinstance(n.func, ast.Attribute) and n.func.attr in WRITE_METHODS and is_c(n.func.value):
            a = n.func.attr
            args = list(n.args) + [k.value for k in n.keywords]
            if a == "clear":
                out.append(Write("clear", n))
            elif a in REMOVERS:
                out.append(Write("remove", n, key=args[0] if args else None))
            elif a in MAP_INSERTERS and args:
                out.append(Write("insert-map", n, value=args[0]))
            elif a in ITEM_INSERTERS and len(args) >= 2:
                out.append(Write("insert-item", n, key=args[0], value=args[1]))
            elif a in ELEM_INSERTERS and args:
                out.append(Write("insert-elem", n, value=args[-1]))
        elif isinstance(n, (ast.Assign, ast.AnnAssign)) and n.value is not None:
            for t0 in (n.targets if isinstance(n, ast.Assign) else [n.target]):
                for t, val in _paired_targets(t0, n.value):
                    if isinstance(t, ast.Subscript) and is_c(t.value):
                        out.append(Write("insert-item", n, key=t.slice, value=val))
                    elif is_field_target(t):
                        # re-binding to a new empty container = dropping the old content; later writes go to the new object
                        out.append(Write("clear", n) if _is_empty_literal(val) else Write("rebind", n, value=val))
        elif isinstance(n, ast.AugAssign) and isinstance(n.op, (ast.BitOr, ast.Add)):
            t = n.target
            if is_field_target(t) or (isinstance(t, ast.Name) and t.id in v.alias_names(obj)):
                out.append(Write("insert-map", n, value=n.value))
        elif isinstance(n, ast.Delete):
            for t in n.targets:
                if isinstance(t, ast.Subscript) and is_c(t.value):
                    out.append(Write("remove", n, key=t.slice))
    return out


def loops_around(v: View, n: ast.AST) -> List[ast.AST]:
    """enclosing loops and comprehensions (innermost first)"""
    return [x for x in v.ancestors(n) if isinstance(x, (ast.For, ast.While, ast.ListComp, ast.SetComp, ast.DictComp, ast.GeneratorExp))]


COMPS = (ast.ListComp, ast.SetComp, ast.DictComp, ast.GeneratorExp)


def _filtered_site(v: View, site: ast.AST, value: Optional[ast.AST]) -> Optional[str]:
    comps = [x for x in ast.walk(value) if isinstance(x, COMPS)] if value is not None else []
    for c in comps:
        if any(g_.ifs for g_ in c.generators):
            return "the comprehension has a filter"
    anc = list(v.ancestors(site))
    loops = [x for x in anc if isinstance(x, (ast.For, ast.While))]
    inside_loop = set()
    for lp in loops:
        inside_loop |= {id(x) for x in ast.walk(lp)}
    for x in anc:
        if isinstance(x, COMPS) and any(g_.ifs for g_ in x.generators):
            return "the comprehension has a filter"
        if isinstance(x, ast.IfExp):
            return "the insertion is conditional"
        if isinstance(x, ast.If) and not getattr(x, "_inline_block", False) and id(x) in inside_loop:
            return "the insertion is conditional"
        if isinstance(x, ast.Try) and id(x) in inside_loop:
            return "the insertion is inside try/except"
    for lp in loops:
        for s_ in C.stmts_in(lp.body):
            if isinstance(s_, (ast.Continue, ast.Break)):
                return "the loop skips elements (continue / break)"
    return None


_HAND_ON_FNS = _CONTAINER_FNS + ("zip", "enumerate", "chain", "items", "keys", "values")


def _handed_on_names(e: ast.AST) -> Set[str]:
    """the local containers whose content the expression hands on as it is: x / list(x) / dict(zip(x, y)) / x.items() / x.copy() /
    Record(field=x).field is not followed (records are cancelled by the provenance view)"""
    if isinstance(e, ast.Name):
        return {e.id}
    if isinstance(e, ast.Starred):
        return _handed_on_names(e.value)
    if isinstance(e, ast.Call):
        name = _last_name(e.func)
        if isinstance(e.func, ast.Attribute) and name in ("items", "keys", "values", "copy") and not e.args:
            return _handed_on_names(e.func.value)
        if name in _HAND_ON_FNS and not (isinstance(e.func, ast.Attribute) and name in ("items", "keys", "values")):
            out: Set[str] = set()
            for a in e.args:
                out |= _handed_on_names(a)
            return out
    return set()


def _feeding_containers(f: FuncInfo, names: Set[str]) -> Set[str]:
    """names plus the local containers their content is copied from (x = dict(y); y = tmp ..): an insertion into one of those that
    does not happen for every element is a filter of what arrives in `names`"""
    out = set(names)
    changed = True
    while changed:
        changed = False
        for n in ast.walk(f.node):
            if isinstance(n, (ast.Assign, ast.AnnAssign)) and n.value is not None:
                tg = n.targets if isinstance(n, ast.Assign) else [n.target]
                if any(isinstance(t, ast.Name) and t.id in out for t in tg):
                    new = _handed_on_names(n.value) - out
                    if new:
                        out |= new
                        changed = True
    return out


def filtered(v: View, site: ast.AST, value: Optional[ast.AST] = None, _depth: int = 0) -> Optional[str]:
    """why the insertion at `site` (inserting `value`: an element, a comprehension, or a local container that is filled elsewhere)
    does not happen for every element; None when it does"""
    why = _filtered_site(v, site, value)
    if why:
        return why
    def loops_of(at: ast.AST) -> Optional[str]:
        # the iterables of the enclosing loops: for x in (y for y in ys if c) / for x in filtered_list / for x in iterator
        if _depth < 3:
            for lp in v.ancestors(at):
                if isinstance(lp, ast.For) and lp.iter is not value:
                    r = filtered(v, lp, lp.iter, _depth + 1)
                    if r:
                        return r
        return None

    why = loops_of(site)
    if why:
        return why
    if value is None:
        return None
    locals_ = {n.id for n in ast.walk(value) if isinstance(n, ast.Name) and isinstance(n.ctx, ast.Load)} - set(v.f.params)
    if not locals_:
        return None
    names = _feeding_containers(v.f, L.aliases(v.f, sorted(locals_)))
    for n in ast.walk(v.f.node):
        if isinstance(n, (ast.Assign, ast.AnnAssign)) and n.value is not None:
            tg = n.targets if isinstance(n, ast.Assign) else [n.target]
            if any(isinstance(t, ast.Name) and t.id in names for t in tg):
                why = _filtered_site(v, n, n.value)
            elif any(isinstance(t, ast.Subscript) and isinstance(t.value, ast.Name) and t.value.id in names for t in tg):
                why = _filtered_site(v, n, None) or loops_of(n)
        elif isinstance(n, ast.Call) and isinstance(n.func, ast.Attribute) and isinstance(n.func.value, ast.Name) and n.func.value.id in names \
                and n.func.attr in ELEM_INSERTERS + MAP_INSERTERS + ITEM_INSERTERS:
            why = _filtered_site(v, n, n.args[0] if n.args and n.func.attr in MAP_INSERTERS else None) or loops_of(n)
        elif isinstance(n, ast.Call) and ((isinstance(n.func, ast.Name) and n.func.id == "next" and n.args and isinstance(n.args[0], ast.Name) and n.args[0].id in names)
                                          or (isinstance(n.func, ast.Attribute) and n.func.attr in ("__next__", "popleft", "pop", "popitem", "remove", "discard")
                                              and isinstance(n.func.value, ast.Name) and n.func.value.id in names)):
            why = "an element is taken out of the iterator / container separately"
        if why:
            return why
    return None


def _iterates_object(v: View, it: ast.AST, obj: Path) -> bool:
    """the iterable is the container itself / a view / a copy / a zip or enumerate of it (not one of its elements)"""
    def whole(step: str) -> bool:
        return step in ORDER_PASS or step.startswith(ORDER_LOST) or step in ("call:items", "call:keys", "call:values", "arg0:enumerate") \
            or (step.startswith("arg") and step.endswith((":zip", ":chain", ":zip_longest")))
    return any(x[:len(obj)] == tuple(obj) and all(whole(s_) for s_ in x[len(obj):]) for x in v.trace(it))


def crossed_iterations(v: View, site: ast.AST, value: Optional[ast.AST], obj: Path) -> Optional[str]:
    """the entries that arrive at the insertion are produced inside TWO nested iterations over the container (a cross product:
    every name is combined with every type, the last one wins); None when each entry comes from one iteration step"""
    def binders_around(n: ast.AST) -> int:
        k = 0
        prev = n
        for a in v.ancestors(n):
            if isinstance(a, ast.For) and prev is not a.iter and _iterates_object(v, a.iter, obj):
                k += 1
            elif isinstance(a, COMPS) and not isinstance(prev, ast.comprehension):
                k += sum(1 for g_ in a.generators if _iterates_object(v, g_.iter, obj))
            elif isinstance(a, COMPS):
                k += sum(1 for g_ in a.generators[:a.generators.index(prev)] if _iterates_object(v, g_.iter, obj))
            prev = a
        return k

    def at(n: ast.AST, val: Optional[ast.AST]) -> bool:
        base = binders_around(n)
        if base >= 2:
            return True
        for c in (ast.walk(val) if val is not None else ()):
            if isinstance(c, COMPS):
                own = sum(1 for g_ in c.generators if _iterates_object(v, g_.iter, obj))
                if own and binders_around(c) + own >= 2:
                    return True
        return False

    why = "every old name is combined with every old type (nested iterations over the signature)"
    if at(site, value):
        return why
    if value is None:
        return None
    locals_ = {n.id for n in ast.walk(value) if isinstance(n, ast.Name) and isinstance(n.ctx, ast.Load)} - set(v.f.params)
    if not locals_:
        return None
    names = _feeding_containers(v.f, L.aliases(v.f, sorted(locals_)))
    for n in ast.walk(v.f.node):
        hit = False
        if isinstance(n, (ast.Assign, ast.AnnAssign)) and n.value is not None:
            tg = n.targets if isinstance(n, ast.Assign) else [n.target]
            if any(isinstance(t, ast.Name) and t.id in names for t in tg):
                hit = at(n, n.value)
            elif any(isinstance(t, ast.Subscript) and isinstance(t.value, ast.Name) and t.value.id in names for t in tg):
                hit = at(n, None)
        elif isinstance(n, ast.Call) and isinstance(n.func, ast.Attribute) and isinstance(n.func.value, ast.Name) and n.func.value.id in names \
                and n.func.attr in ELEM_INSERTERS + MAP_INSERTERS + ITEM_INSERTERS:
            hit = at(n, n.args[0] if n.args and n.func.attr in MAP_INSERTERS else None)
        if hit:
            return why
    return None


def _content_reads(v: View, obj: Path) -> List[ast.AST]:
    """expressions that read the CONTENT of the object (not: binding an alias, not: the receiver of a write)"""
    out = []
    for n in ast.walk(v.f.node):
        if not isinstance(n, (ast.Name, ast.Attribute)) or not isinstance(getattr(n, "ctx", None), ast.Load):
            continue
        par = v.pm.get(n)
        if isinstance(par, ast.Attribute) and par.value is n:
            gp = v.pm.get(par)
            if isinstance(gp, ast.Call) and gp.func is par and par.attr in WRITE_METHODS and par.attr not in ("pop", "setdefault"):
                continue        # receiver of a write
            if not (isinstance(gp, ast.Call) and gp.func is par):
                continue        # attribute of the object (e.g. self in self.signature): not a content read of `obj`
        if isinstance(par, (ast.Assign, ast.AnnAssign)) and par.value is n:
            tg = par.targets if isinstance(par, ast.Assign) else [par.target]
            if all(isinstance(t, ast.Name) for t in tg):
                continue        # alias binding
        if isinstance(par, ast.Subscript) and par.value is n and isinstance(par.ctx, (ast.Store, ast.Del)):
            continue
        if v.is_obj(n, obj):
            out.append(n)
    return out


_LAZY_FNS = ("iter", "map", "filter", "zip", "enumerate", "chain", "from_iterable", "reversed", "starmap", "islice", "zip_longest", "partial")
_LIVE_VIEWS = ("items", "keys", "values", "__iter__")


def _read_sites(v: View, read: ast.AST, _depth: int = 0, _seen: Optional[Set[int]] = None) -> List[ast.AST]:
    """where the content that the expression `read` denotes is really looked at: a dict view (items() / keys() / values()), an
    iterator, map / filter / zip / chain .. or a generator expression over the container is LIVE -- when it is bound to a local
    name, the content is read where that name is consumed, not where the lazy value was made"""
    _seen = set() if _seen is None else _seen
    top = read
    while True:
        par = v.pm.get(top)
        if isinstance(par, ast.Attribute) and par.value is top and par.attr in _LIVE_VIEWS and isinstance(v.pm.get(par), ast.Call) and v.pm[par].func is par:
            top = v.pm[par]
            continue
        if isinstance(par, ast.Call) and top in par.args and _last_name(par.func) in _LAZY_FNS:
            top = par
            continue
        if isinstance(par, ast.Starred) and par.value is top:
            top = par
            continue
        if isinstance(par, (ast.Tuple, ast.List)) and isinstance(v.pm.get(par), ast.Call) and _last_name(v.pm[par].func) == "from_iterable":
            top = par
            continue
        gen = None
        cur = top
        while cur in v.pm and not isinstance(cur, ast.stmt):
            cur = v.pm[cur]
            if isinstance(cur, (ast.GeneratorExp, ast.Lambda)):
                gen = cur               # evaluated when the generator is consumed / the lambda is called
                break
        if gen is None:
            break
        top = gen
    if (top is read and _depth == 0) or _depth > 6:
        return [read]
    names: List[str] = []
    if isinstance(par, (ast.Assign, ast.AnnAssign)) and par.value is top:
        tg = par.targets if isinstance(par, ast.Assign) else [par.target]
        if all(isinstance(t, ast.Name) for t in tg):
            names = [t.id for t in tg]
    if not names:
        return [read] if top is read else [top]
    out: List[ast.AST] = []
    rd = v.p.rd
    for n in ast.walk(v.f.node):
        if isinstance(n, ast.Name) and isinstance(n.ctx, ast.Load) and n.id in names and id(n) not in _seen:
            at = v.node_of(n)
            src = v.node_of(par)
            try:
                reaching = at is None or src is None or src in rd.defs_reaching(at, n.id)
            except Exception:
                reaching = True
            if reaching:
                _seen.add(id(n))
                out.extend(_read_sites(v, n, _depth + 1, _seen))
    return out


class Replacement:
    """how `obj` gets its new content in this function"""

    def __init__(self, v: View, obj: Path):
        self.v, self.obj = v, obj
        self.writes = writes(v, obj)
        self.inserts = [w for w in self.writes if w.kind in ("rebind", "insert-map", "insert-item", "insert-elem")]
        self.clears = [w for w in self.writes if w.kind == "clear"]
        self.removes = [w for w in self.writes if w.kind == "remove"]
        # a loop that removes obj[k] for EVERY key k of (a snapshot of) the object, and inserts nothing, empties it like clear()
        for rm in list(self.removes):
            if self._removes_every_key(rm):
                self.removes.remove(rm)
                self.clears.append(Write("clear", rm.site))

    def _removes_every_key(self, rm: Write) -> bool:
        v = self.v
        if rm.key is None or _last_name(getattr(rm.site, "func", None)) in ("popitem", "remove", "discard", "difference_update", "intersection_update"):
            return False
        loops = loops_around(v, rm.site)
        if not loops:
            return False
        for w in self.inserts:
            if w.kind != "rebind" and any(any(l is l2 for l2 in loops) for l in loops_around(v, w.site)):
                return False            # removal and insertion in one loop: judged by the simultaneity rule
        keys = [strip_content(x) for x in v.content(rm.key, self.obj, keys=False) if not x[0].startswith(("fresh:", "builtin:"))]
        if not keys or any(ordered_source(k, self.obj) not in (("key", None),) and (ordered_source(k, self.obj) or ("",))[0] != "reordered" for k in keys):
            return False
        return filtered(v, rm.site, None) is None

    def sequential(self) -> Optional[Tuple[Write, Write]]:
        """(insertion, removal) on the object inside one loop / comprehension"""
        v = self.v
        for w in self.inserts:
            if w.kind == "rebind":
                continue
            lw = loops_around(v, w.site)
            if not lw:
                continue
            for rm in self.removes:
                if any(any(l is l2 for l2 in lw) for l in loops_around(v, rm.site)):
                    return w, rm
        return None

    def old_content_dropped(self) -> Optional[str]:
        """None when the old content is gone afterwards (rebinding, or a clear() that precedes every insertion and is not followed by
        a read of the old content); else the reason"""
        v, g = self.v, self.v.g
        inplace = [w for w in self.inserts if w.kind != "rebind"]
        if not inplace:
            return None
        if self.sequential() is not None and not self.clears:
            return None             # pop / insert per element: judged by the simultaneity rule
        if not self.clears:
            return "the new entries are added to the old ones (the container is never cleared or re-bound)"
        cn = [v.node_of(c.site) for c in self.clears]
        ins = [v.node_of(w.site) for w in inplace]
        if any(x is None for x in cn + ins):
            return None
        ok = False
        for c in cn:
            after = C.reachable_from(g, c) - {c}
            before_ok = all(i in after for i in ins)
            wiped = any(c in (C.reachable_from(g, i) - {i}) for i in ins)
            if before_ok and not wiped:
                ok = True
                # a read of the object after the clear that can still feed an insertion sees the emptied container
                reads = [v.node_of(x) for r in _content_reads(v, self.obj) for x in _read_sites(v, r)]
                feeds = lambda r: any(i == r or i in C.reachable_from(g, r) for i in ins)
                if any(r is not None and r in after and feeds(r) for r in reads):
                    return "the old content is read after the container was cleared"
        if not ok:
            return "clear() does not precede the insertions (the new entries are wiped or the old ones kept)"
        return None


# --------------------------------------------------------------------------- order grammar
def ordered_source(path: Sequence[str], obj: Path):
    """classify a provenance path that starts at the dict `obj`:
         ('key', None)    the keys of the dict / one key per iteration step, in the dict's own order
         ('value', None)  likewise the values
         ('lookup', None) obj[<index>] / obj.get(<index>) / obj.pop(<index>)
         ('positional', view) list(obj.values())[<index>] / tuple(obj.keys())[<index>]
         ('pair', None)   (key, value) items
         ('object', None) the dict itself
         ('reordered', step) / ('unknown', step)
       or None when the path does not start at obj"""
    path = tuple(path)
    if path[:len(obj)] != tuple(obj):
        return None
    rest = list(path[len(obj):])
    view = None
    wrappers: List[Tuple[str, int]] = []
    i = 0
    elem = False
    while i < len(rest):
        s = rest[i]
        if s in ORDER_PASS:
            pass
        elif s.startswith(ORDER_LOST):
            return ("reordered", s)
        elif s in ("call:items", "call:keys", "call:values") and view is None:
            view = s[5:]
        elif s == "arg0:enumerate":
            wrappers.append(("enum", 1))
        elif s.startswith("arg") and s.endswith(":zip") and s[3:-4].isdigit():
            wrappers.append(("zip", int(s[3:-4])))
        elif s.startswith("zip") and s[3:].isdigit():
            pass            # L.map_entries: the container is the i-th argument of a zip whose pairs make up a mapping
        elif s in ("item", "call:get", "call:pop", "call:__getitem__") and view is None and not wrappers:
            return ("lookup", None) if i == len(rest) - 1 else ("unknown", rest[i + 1])
        elif s in ("item", "call:__getitem__") and view in ("values", "keys") and not wrappers and i == len(rest) - 1:
            return ("positional", view)         # list(obj.values())[<position>]
        elif s == "elem":
            elem = True
            i += 1
            break
        else:
            return ("unknown", s)
        i += 1
    if not elem:
        if view is None:
            return ("key", None) if any(s.startswith("zip") or s.endswith(":zip") for s in rest) else ("object", None)
        return ({"items": "pair", "keys": "key", "values": "value"}[view], None)
    for kind, idx in reversed(wrappers):
        if i < len(rest) and rest[i] == f"unpack:{idx}":
            i += 1
        elif i < len(rest) and rest[i] == f"item:{idx}":
            i += 1
        else:
            return ("unknown", rest[i] if i < len(rest) else "elem")
    if view == "items":
        if i < len(rest) and rest[i] in ("unpack:0", "item:0"):
            kind = "key"
        elif i < len(rest) and rest[i] in ("unpack:1", "item:1"):
            kind = "value"
        elif i == len(rest):
            return ("pair", None)
        else:
            return ("unknown", rest[i])
        i += 1
    else:
        kind = "value" if view == "values" else "key"
    if i != len(rest):
        return ("unknown", rest[i])
    return (kind, None)
