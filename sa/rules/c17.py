"""C17 -- combining agent domains / problems yields their union and disturbs nothing else."""
from __future__ import annotations

import ast
from typing import Dict, List, Set

from .. import cfg as C
from .. import lib as L
from ..core import AnalysisError, Repo, unparse
from ..prov import callee_name
from ..report import Finding, RuleResult
from . import c07

EXPLANATION = (
    "C17.global: no function writes into a module-level mutable object (the effect analysis of C07): a combined domain must not leak "
    "into later Domain() instances. C17.fields: def-use provenance shows that locate_domains merges each of the five dictionary fields "
    "of Domain from the same-named field of each parsed agent domain into a fresh Domain, and combine_problems merges objects, fluents, "
    "facts, goal literals and numeric goals of Problem likewise into a fresh Problem. C17.dedup: facts are de-duplicated by their "
    "ground text before insertion and goal literals through a set. C17.dummy: dummy actions are added only when asked for."
)
UNDECIDED = ("independence from the discovery order for overlapping keys with different values (last file wins for name / requirements); "
             "equality after exporting and re-parsing the combination")


def _merge_calls(repo: Repo, f, dst_root: str, src_marker: str):
    """{dst field: set(src fields)} for X.<field>.update/extend/add(... Y.<field> ...)"""
    p = L.prov(repo, f)
    out: Dict[str, Set[str]] = {}
    for c in L.calls_in(f.node):
        if isinstance(c.func, ast.Attribute) and c.func.attr in ("update", "extend", "add", "append") and c.args:
            recv = p.trace(c.func.value)
            dst = {x[1][5:] for x in recv if x[0] == dst_root and len(x) >= 2 and x[1].startswith("attr:")}
            arg = p.trace(c.args[0])
            src = set()
            for x in arg:
                if any(s.endswith(src_marker) for s in x):
                    i = max(i for i, s in enumerate(x) if s.endswith(src_marker))
                    if i + 1 < len(x) and x[i + 1].startswith("attr:"):
                        src.add(x[i + 1][5:])
            for d in dst:
                out.setdefault(d, set()).update(src)
    return out


def rule_fields(repo: Repo) -> RuleResult:
    r = RuleResult("C17.fields", "each mergeable field of the combination is fed from the same-named field of every agent file", "the union of types, constants, predicates, functions, actions / objects, facts, fluents, goals")
    f = repo.func("MultiAgentDomainsConverter.locate_domains")
    got = _merge_calls(repo, f, "fresh:Domain", "call:parse_domain")
    for fld in ("types", "predicates", "constants", "actions", "functions"):
        r.site(f"{f.qn} [{fld}]")
        src = got.get(fld, set())
        if src == {fld}:
            r.ok({"combined_domain." + fld: "update(agent_domain." + fld + ")"})
        elif not src:
            r.fail(Finding("C17.fields", f, f"merge-missing:{fld}", f"combined_domain.{fld} is never merged from the agent domains"))
        else:
            r.fail(Finding("C17.fields", f, f"merge-crossed:{fld}", f"combined_domain.{fld} is fed from agent_domain.{sorted(src)}"))
    # the loop covers every discovered file, and every file is merged on every path through the loop body
    p = L.prov(repo, f)
    loops = [n for n in ast.walk(f.node) if isinstance(n, ast.For)]
    r.site(f.qn + " [files]")
    if loops and any("call:glob" in x for x in p.trace(loops[0].iter)) and not any(isinstance(s, (ast.Break,)) for s in C.stmts_in(loops[0].body)):
        r.ok({"iterates": unparse(loops[0].iter, 60)})
    else:
        r.fail(Finding("C17.fields", f, "file-loop", "not every discovered domain file is merged"))
    for fn_, root_, flds in ((f, "fresh:Domain", ("types", "predicates", "constants", "actions", "functions")),
                            (repo.func("MultiAgentProblemsConverter.combine_problems"), "fresh:Problem", ("objects", "initial_state_fluents", "goal_state_fluents"))):
        pp = L.prov(repo, fn_)
        gg = C.cfg_of(fn_.node)
        lps = [n for n in ast.walk(fn_.node) if isinstance(n, ast.For) and any("call:glob" in x for x in pp.trace(n.iter))]
        r.site(fn_.qn + " [every file merged]")
        if not lps:
            r.fail(Finding("C17.fields", fn_, "file-loop", "loop over the discovered files not found"))
            continue
        head = gg.node_of(lps[0])
        merge_nodes = {}
        for c in L.calls_in(lps[0]):
            if isinstance(c.func, ast.Attribute) and c.func.attr == "update":
                dst = {x[1][5:] for x in pp.trace(c.func.value) if x[0] == root_ and len(x) >= 2 and x[1].startswith("attr:")}
                for d in dst & set(flds):
                    merge_nodes[d] = gg.node_containing(c)
        paths = [pt for pt in C.acyclic_paths(gg, head, lambda n: False) if len(pt) > 1 and pt[0][1] == "iter"]
        skipped = [d for d, n in merge_nodes.items() if any(n not in [x for x, _ in pt] and pt[-1][0] not in (gg.raise_,) for pt in paths)]
        if skipped:
            r.fail(Finding("C17.fields", fn_, f"merge-skipped:{'/'.join(sorted(skipped))}", f"some path through the loop body skips the merge of {sorted(skipped)} "
                           f"(e.g. a `continue` for files that look redundant): the result then depends on the order in which the files are found"))
        else:
            r.ok({"function": fn_.qn, "merges_on_every_path": sorted(merge_nodes)})
    g = repo.func("MultiAgentProblemsConverter.combine_problems")
    got = _merge_calls(repo, g, "fresh:Problem", "call:parse_problem")
    for fld in ("objects", "initial_state_fluents", "initial_state_predicates", "goal_state_predicates", "goal_state_fluents"):
        r.site(f"{g.qn} [{fld}]")
        src = got.get(fld, set())
        if src == {fld}:
            r.ok({"combined_problem." + fld: "from agent_problem." + fld})
        elif not src:
            r.fail(Finding("C17.fields", g, f"merge-missing:{fld}", f"combined_problem.{fld} is never merged from the agent problems"))
        else:
            r.fail(Finding("C17.fields", g, f"merge-crossed:{fld}", f"combined_problem.{fld} is fed from agent_problem.{sorted(src)}"))
    r.require_sites(13)
    return r


def rule_dedup(repo: Repo) -> RuleResult:
    r = RuleResult("C17.dedup", "facts are inserted only when their ground text is not present yet; goal literals pass through a set", "without duplicates")
    g = repo.func("MultiAgentProblemsConverter.combine_problems")
    p = L.prov(repo, g)
    cfg = C.cfg_of(g.node)
    adds = [c for c in L.calls_in(g.node) if isinstance(c.func, ast.Attribute) and c.func.attr == "add" and
            any("attr:initial_state_predicates" in x and x[0] == "fresh:Problem" for x in p.trace(c.func.value))]
    r.site(g.qn + " [facts]")
    if not adds:
        r.fail(Finding("C17.dedup", g, "facts-not-added", "initial facts are not inserted one by one"))
    else:
        def matcher(e):
            if isinstance(e, ast.Compare) and len(e.ops) == 1 and isinstance(e.ops[0], (ast.In, ast.NotIn)) and "untyped_representation" in ast.unparse(e.left):
                return "present" if isinstance(e.ops[0], ast.In) else "!present"
            return None
        G = L.Guards(g, matcher)
        n = cfg.node_containing(adds[0])
        if "present" in G.atoms_seen and n not in G.reach({"present": True}) and n in G.reach({"present": False}):
            # the membership list is built from the combined facts of the same predicate
            r.ok({"fact_inserted_iff": "its ground text is not yet among the combined facts"})
        else:
            r.fail(Finding("C17.dedup", g, "facts-dedup", "a fact whose ground text is already present can be inserted again (or a new one is skipped)"))
    r.site(g.qn + " [goals]")
    ok = False
    for s in ast.walk(g.node):
        if isinstance(s, ast.Assign) and any(isinstance(t, ast.Attribute) and t.attr == "goal_state_predicates" for t in s.targets):
            tr = p.trace(s.value)
            if any(any(st == "arg0:set" for st in x) and "attr:goal_state_predicates" in x for x in tr):
                ok = True
    if ok:
        r.ok({"goal_literals": "list(set(...))"})
    else:
        r.fail(Finding("C17.dedup", g, "goals-dedup", "goal literals are not de-duplicated"))
    r.require_sites(2)
    return r


def rule_dummy(repo: Repo) -> RuleResult:
    r = RuleResult("C17.dummy", "dummy predicate / actions are added only when add_dummy_actions is true", "the combination is the union, nothing more")
    f = repo.func("MultiAgentDomainsConverter.locate_domains")
    G = L.Guards(f, lambda e: "dummy" if isinstance(e, ast.Name) and e.id == "add_dummy_actions" else None)
    g = G.g
    r.site(f.qn)
    calls = [c for c in L.calls_in(f.node) if callee_name(c) == "_add_dummy_actions"]
    seen = G.reach({"dummy": False})
    stores = [n for n in ast.walk(f.node) if isinstance(n, ast.Assign) and any("DUMMY" in ast.unparse(t) or "DUMMY" in ast.unparse(n.value) for t in n.targets)]
    leaked = [c for c in calls if g.node_containing(c) in seen] + [s for s in stores if g.node_of(s) in seen]
    if "dummy" in G.atoms_seen and not leaked:
        r.ok({"dummy_actions": "only under add_dummy_actions"})
    else:
        r.fail(Finding("C17.dummy", f, "dummy-unconditional", "dummy actions / predicate are added although add_dummy_actions is false"))
    # default False
    d = f.defaults.get("add_dummy_actions")
    r.site(f.qn + " [default]")
    if isinstance(d, ast.Constant) and d.value is False:
        r.ok({"default": False})
    else:
        r.fail(Finding("C17.dummy", f, "dummy-default", "add_dummy_actions does not default to False"))
    r.require_sites(2)
    return r


def rules(repo: Repo, tier: str) -> List[RuleResult]:
    return [c07.rule_global(repo, "C17.global"), rule_fields(repo), rule_dedup(repo), rule_dummy(repo)]
