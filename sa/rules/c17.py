"""C17 -- combining agent domains / problems yields their union and disturbs nothing else."""
from __future__ import annotations

import ast
from typing import Dict, List, Optional, Set, Tuple

from .. import cfg as C
from .. import lib as L
from ..core import Repo, unparse
from ..prov import SHELLS
from ..report import Finding, RuleResult
from . import c07
from ._c17_util import _paired as paired, normalised, written_out

EXPLANATION = (
    "C17.global: no function writes into a module-level mutable object (the effect analysis of C07, with container contents read "
    "flow-sensitively at call sites): a combined domain must not leak into later Domain() instances; in addition the constructor of "
    "Domain / Problem initialises every field that the combiners merge into in place with an object of its own, not with (a part of) a "
    "module-level object (provenance of the constructor's assignments; also covers merges written through getattr). The other rules "
    "analyse the public functions locate_domains / combine_problems with their private and same-module helpers inlined, generator helpers expanded into the consuming loop, loops over constant field-name tuples (also zipped / enumerated tables) unrolled, "
    "getattr / setattr with constant names turned into attribute accesses, positional hand-overs (starred literals, comprehensions over a literal pair, "
    "attrgetter(*TABLE), NamedTuple._make) written out, one-expression helpers substituted, search loops read as any(..); objects are identified by def-use provenance (the fresh "
    "Domain / Problem that is combined into, the object returned by parse_domain / parse_problem for a globbed file), never by variable "
    "names. C17.fields: every store into a field of the combination (update / extend / add / item assignment / |= / rebinding that keeps "
    "the old content, in any helper) is classified by the agent field it takes its content from; each of the five dictionary fields of "
    "Domain and objects, fluents, facts, goal literals and numeric goals of Problem must be fed from the same-named field of the agent "
    "object, inside a loop over all globbed files (no slice, no early exit, the combination not re-created per file) and on every path "
    "through that loop's body. C17.dedup: under a valuation of the test `ground text of the agent fact in ground texts of the combined "
    "facts` a fact is inserted iff the test is false (if / continue / nested / comprehension filter alike); after goal literals are "
    "merged, every path to the function's exit rebinds them through a set. C17.dummy: every store into the combination whose content "
    "does not come from an agent file (the dummy predicate / actions) is unreachable when add_dummy_actions is false, which is the "
    "default; combine_problems has no such store at all; a predicate constant that the added actions mention is stored into the combination's "
    "predicates under its own name on every path that adds them (the exported domain must not use an undeclared predicate). C17.fields also: "
    "the name of the combination is taken from the name of the agent file for every file (an empty name cannot be exported and parsed back); "
    "the parser object an agent file is read with is constructed with the options under which it returns the whole file (FULL_PARSE_OPTIONS: "
    "partial_parsing false, explicitly or by default)."
)
UNDECIDED = ("independence from the discovery order for overlapping keys with different values (last file wins for name / requirements); "
             "equality after exporting and re-parsing the combination; whether the snapshot of known ground texts is taken before or "
             "while the facts of one agent are added")

DOMAIN_FIELDS = ("types", "predicates", "constants", "actions", "functions")
PROBLEM_FIELDS = ("objects", "initial_state_fluents", "initial_state_predicates", "goal_state_predicates", "goal_state_fluents")
ADDERS = ("update", "extend", "add", "append", "insert", "setdefault", "appendleft", "__setitem__", "__ior__")
# steps that lead from a container of agent objects to one agent object (the parsed files may be collected first)
_PASS = ("elem", "item", "call:values", "call:items", "call:copy", "arg0:list", "arg0:tuple", "arg0:sorted", "arg0:reversed", "arg0:iter",
         "arg0:enumerate", "with")


class _Store:
    """one statement that puts content into the combination"""

    def __init__(self, site: ast.AST, node: int, field: str, kind: str, values: List[ast.AST], keys: List[ast.AST], base: Optional[ast.AST]):
        self.site, self.node, self.field, self.kind, self.values, self.keys, self.base = site, node, field, kind, values, keys, base
        self.src: Set[str] = set()          # agent fields the content (values and keys) comes from
        self.vsrc: Set[str] = set()         # ... the stored values alone
        self.old: Set[str] = set()          # fields of the combination itself that the content comes from
        self.extra: List[tuple] = []        # provenance that is neither


class _View:
    """the normalised function and the provenance queries shared by the rules"""

    def __init__(self, repo: Repo, spec: str, cls: str, marker: str):
        self.repo, self.spec, self.cls, self.marker = repo, spec, cls, marker
        self.raw = repo.func(spec)
        self.f = normalised(repo, spec)
        self.p = L.prov(repo, self.f)
        self.g = C.cfg_of(self.f.node)
        self.root = f"fresh:{cls}"
        self._glob: Dict[int, bool] = {}
        self._stores: Optional[List[_Store]] = None

    # ---- provenance
    def trace(self, e: ast.AST, at: Optional[int] = None) -> Set[tuple]:
        try:
            return self.p.trace(e, at) if at is not None else self.p.trace(e)
        except KeyError:
            return set()

    def dst_fields(self, paths) -> Set[str]:
        """fields of the combination that a receiver expression is (a part of); content that merely flowed into a local container
        ('in:' steps) does not make that container a part of the combination"""
        return {x[1][5:] for x in paths if x[0] == self.root and len(x) >= 2 and x[1].startswith("attr:") and not any(s.startswith("in:") for s in x)}

    def is_dst(self, paths) -> bool:
        return any(x == (self.root,) for x in paths)

    def dst_pos(self, path: tuple) -> Optional[int]:
        """index of the step at which the path is the combination object (its constructor call, also seen from a constructor argument)"""
        pos = 0 if path[0] == self.root else None
        for i, s in enumerate(path):
            if s.startswith(("arg", "kw:")) and s.endswith(":" + self.cls):
                pos = i
        return pos

    def agent_field(self, path: tuple) -> Optional[str]:
        """'<field>' when the path leads through the parsed agent object to one of its fields, '' for the agent object itself,
        None when the path does not come from an agent object"""
        idx = [i for i, s in enumerate(path) if s == self.marker]
        if not idx or (self.dst_pos(path) or 0) > idx[-1]:
            return None
        for s in path[idx[-1] + 1:]:
            if s.startswith("attr:"):
                return s[5:]
            if not (s in _PASS or s.startswith(("in:", "unpack:", "item:"))):
                return ""
        return ""

    def classify(self, st: _Store) -> None:
        for v in st.values + st.keys:
            for x in self.trace(v):
                a = self.agent_field(x)
                if a is not None:
                    if a:
                        st.src.add(a)
                        if v in st.values:
                            st.vsrc.add(a)
                    elif v in st.values:
                        st.src.add("<whole agent object>")
                        st.vsrc.add("<whole agent object>")
                elif self.dst_pos(x) is not None:
                    i = self.dst_pos(x)
                    if len(x) >= i + 2 and x[i + 1].startswith("attr:"):
                        st.old.add(x[i + 1][5:])
                elif v in st.values and not (x[0] in SHELLS or x[0].startswith(("builtin:", "unknown:", "fresh:fstring", "fresh:lambda"))
                                             or (x[0].startswith("fresh:") and x[0].endswith("()"))):
                    st.extra.append(x)

    # ---- stores into the combination
    def stores(self) -> List[_Store]:
        if self._stores is not None:
            return self._stores
        out: List[_Store] = []
        g = self.g

        def base_of(e):
            # the receiver expression: the combination object it belongs to is found through the names it mentions (see origins)
            return e

        def add(site, field, kind, values, keys, base):
            n = g.node_containing(site) if not isinstance(site, ast.stmt) else g.node_of(site)
            if n is None:
                return
            st = _Store(site, n, field, kind, values, keys, base)
            self.classify(st)
            out.append(st)

        for n in ast.walk(self.f.node):
            if isinstance(n, ast.Call) and isinstance(n.func, ast.Attribute) and n.func.attr in ADDERS:
                args = list(n.args) + [k.value for k in n.keywords]
                keyed = n.func.attr in ("setdefault", "insert", "__setitem__") and len(n.args) >= 2
                for fld in sorted(self.dst_fields(self.trace(n.func.value))):
                    add(n, fld, "call", args[1:] if keyed else args, args[:1] if keyed else [], base_of(n.func.value))
            elif isinstance(n, ast.Assign):
                for t in n.targets:
                    if isinstance(t, (ast.Tuple, ast.List)) and isinstance(n.value, (ast.Tuple, ast.List)) and len(t.elts) == len(n.value.elts) \
                            and not any(isinstance(e_, ast.Starred) for e_ in list(t.elts) + list(n.value.elts)):
                        # a.x, a.y = b.x, b.y: one assignment per position
                        for te, ve in zip(t.elts, n.value.elts):
                            if isinstance(te, ast.Attribute) and self.is_dst(self.trace(te.value)):
                                add(n, te.attr, "assign", [ve], [], base_of(te.value))
                            elif isinstance(te, ast.Subscript):
                                for fld in sorted(self.dst_fields(self.trace(te.value))):
                                    add(n, fld, "setitem", [ve], [] if isinstance(te.slice, ast.Slice) else [te.slice], base_of(te.value))
                        continue
                    if isinstance(t, ast.Subscript):
                        for fld in sorted(self.dst_fields(self.trace(t.value))):
                            add(n, fld, "setitem", [n.value], [] if isinstance(t.slice, ast.Slice) else [t.slice], base_of(t.value))
                    elif isinstance(t, ast.Attribute) and self.is_dst(self.trace(t.value)):
                        add(n, t.attr, "assign", [n.value], [], base_of(t.value))
            elif isinstance(n, ast.AnnAssign) and n.value is not None and isinstance(n.target, ast.Attribute) and self.is_dst(self.trace(n.target.value)):
                add(n, n.target.attr, "assign", [n.value], [], base_of(n.target.value))
            elif isinstance(n, ast.AugAssign):
                t = n.target
                at = g.node_of(n)
                if isinstance(t, ast.Attribute) and self.is_dst(self.trace(t.value)):
                    add(n, t.attr, "aug", [n.value], [], base_of(t.value))
                elif isinstance(t, ast.Subscript):
                    for fld in sorted(self.dst_fields(self.trace(t.value))):
                        add(n, fld, "aug", [n.value], [], base_of(t.value))
                elif isinstance(t, ast.Name) and at is not None:
                    for fld in sorted(self.dst_fields(self.trace(ast.Name(id=t.id, ctx=ast.Load()), at))):
                        add(n, fld, "aug", [n.value], [], ast.Name(id=t.id, ctx=ast.Load()))
        self._stores = out
        return out

    def merges(self, field: str) -> List[_Store]:
        return [s for s in self.stores() if s.field == field and s.src]

    # ---- loops
    def loop_chain(self, n: int) -> List[int]:
        out = []
        cur = self.g.loop_of.get(n)
        while cur is not None and cur not in out:
            out.append(cur)
            cur = self.g.loop_of.get(cur)
        return out

    def is_file_loop(self, head: int) -> bool:
        if head not in self._glob:
            st = self.g.stmt[head]
            self._glob[head] = isinstance(st, ast.For) and any(any(s.endswith(":glob") for s in x) for x in self.trace(st.iter))
        return self._glob[head]

    def file_loop_of(self, n: int) -> Optional[int]:
        """the outermost enclosing loop that iterates over globbed files"""
        hit = None
        for h in self.loop_chain(n):
            if self.is_file_loop(h):
                hit = h
        return hit

    def representative(self, n: int, head: int) -> int:
        """the statement of the file loop's own body that contains node n (an inner loop is one statement)"""
        cur = n
        while self.g.loop_of.get(cur) is not None and self.g.loop_of[cur] != head:
            cur = self.g.loop_of[cur]
        return cur

    def members(self, head: int) -> Set[int]:
        return {n for n in self.g.nodes() if head in self.loop_chain(n)}

    def origins(self, e: Optional[ast.AST], at: int, depth: int = 0, seen: Optional[Set[tuple]] = None) -> Set[int]:
        """CFG nodes of the constructor calls that create the combination object an expression (the receiver of a merge) may refer to or
        be a part of: names are followed through their reaching definitions -- plain copies, positional tuple assignments, loop targets,
        and (conservatively) every name of any other defining expression"""
        out: Set[int] = set()
        seen = set() if seen is None else seen
        if e is None or depth > 10:
            return out
        for sub in ast.walk(e):
            if isinstance(sub, ast.Call) and self.is_dst(self.trace(sub, at)):
                out.add(at)
            if not (isinstance(sub, ast.Name) and isinstance(sub.ctx, ast.Load)) or (sub.id, at) in seen:
                continue
            seen.add((sub.id, at))
            for d in self.p.rd.defs_reaching(at, sub.id):
                st = self.g.stmt[d]
                v: Optional[ast.AST] = None
                if isinstance(st, ast.Assign):
                    for t in st.targets:
                        v = v or paired(t, st.value, sub.id)
                    v = v or st.value
                elif isinstance(st, (ast.AnnAssign, ast.AugAssign)):
                    v = st.value
                elif isinstance(st, (ast.For, ast.AsyncFor)):
                    v = st.iter
                elif isinstance(st, ast.With):
                    v = ast.Tuple(elts=[i.context_expr for i in st.items], ctx=ast.Load())
                if v is not None:
                    out |= self.origins(v, d, depth + 1, seen)
        return out


def _views(repo: Repo) -> Tuple[_View, _View]:
    key = id(repo)
    if key not in _view_cache:
        _view_cache.clear()
        _view_cache[key] = (_View(repo, "MultiAgentDomainsConverter.locate_domains", "Domain", "call:parse_domain"),
                            _View(repo, "MultiAgentProblemsConverter.combine_problems", "Problem", "call:parse_problem"))
    return _view_cache[key]


_view_cache: Dict[int, Tuple[_View, _View]] = {}


# ------------------------------------------------------------------------------------------------ C17.fields
def _check_fields(r: RuleResult, v: _View, fields: Tuple[str, ...], what: str) -> None:
    f = v.f
    for fld in fields:
        r.site(f"{f.qn} [{fld}]")
        ms = v.merges(fld)
        src = set().union(*[m.src for m in ms]) if ms else set()
        lost = [m for m in ms if m.kind == "assign" and fld not in m.old]
        if not ms:
            r.fail(Finding("C17.fields", f, f"merge-missing:{fld}", f"combined_{what}.{fld} is never merged from the agent {what}s"))
        elif src != {fld}:
            r.fail(Finding("C17.fields", f, f"merge-crossed:{fld}", f"combined_{what}.{fld} is fed from agent_{what}.{sorted(src)}", node=ms[0].site))
        elif lost:
            r.fail(Finding("C17.fields", f, f"merge-overwrites:{fld}", f"combined_{what}.{fld} is replaced by the field of one agent {what} ({unparse(lost[0].site, 60)}): "
                           f"the content of the files merged before is lost", node=lost[0].site))
        else:
            r.ok({f"combined_{what}.{fld}": f"merged from agent_{what}.{fld} ({', '.join(sorted({m.kind for m in ms}))})"})


def _check_loop(r: RuleResult, v: _View, fields: Tuple[str, ...], what: str) -> None:
    """the merges happen for every discovered file: inside a loop over all globbed files, on every path through its body, into one
    combination created before the loop"""
    f, g = v.f, v.g
    ms = [m for fld in fields for m in v.merges(fld)]
    heads: Dict[int, Dict[str, Set[int]]] = {}
    inside: Set[str] = set()
    for m in ms:
        h = v.file_loop_of(m.node)
        if h is not None:
            inside.add(m.field)
            heads.setdefault(h, {}).setdefault(m.field, set()).add(v.representative(m.node, h))
    # a field whose content arrives only outside the loop over the files (a later re-binding of already merged content is fine)
    outside = [m for m in ms if m.field not in inside]
    r.site(f.qn + " [files]")
    if not ms:
        # nothing is merged at all (reported per field): is there at least a loop over the files?
        loops = [n for n in g.nodes() if g.kind[n] == "loop" and v.is_file_loop(n)]
        if loops:
            r.ok({"iterates": unparse(g.stmt[loops[0]].iter, 60)})
        else:
            r.fail(Finding("C17.fields", f, "file-loop", f"loop over the discovered {what} files not found"))
    elif outside:
        r.fail(Finding("C17.fields", f, "file-loop", f"{unparse(outside[0].site, 60)} merges outside a loop over the discovered {what} files: not every file is merged",
                       node=outside[0].site))
    else:
        bad = None
        for h in sorted(heads):
            st = g.stmt[h]
            paths = v.trace(st.iter)
            if any(any(s.startswith("slice:") or s.endswith(":islice") for s in x) for x in paths):
                bad = f"the loop over the files iterates over a slice ({unparse(st.iter, 60)})"
            mem = v.members(h)
            for a in sorted(mem):
                for b, _l in g.succ[a]:
                    if b not in mem and b != h and b != g.raise_:
                        bad = f"the loop over the files is left early ({unparse(g.stmt[a], 50) if g.stmt[a] is not None else 'exit'})"
        if bad:
            r.fail(Finding("C17.fields", f, "file-loop", f"not every discovered {what} file is merged: {bad}"))
        else:
            r.ok({"iterates": [unparse(g.stmt[h].iter, 60) for h in sorted(heads)], "early_exit": False})
    # every path through the loop body merges every field; the combination is not re-created per file
    r.site(f.qn + " [every file merged]")
    if not heads:
        r.ok({"function": f.qn, "merges_inside_a_loop_over_the_files": 0})     # reported above / per field
        return
    skipped: Set[str] = set()
    reset = None
    for h, per_field in sorted(heads.items()):
        starts = [b for b, l in g.succ[h] if l == "iter"]
        for fld, reps in sorted(per_field.items()):
            for s in starts:
                if s in reps:
                    continue
                seen = C.reachable_from(g, s, avoid=reps)
                if h in seen:
                    skipped.add(fld)
        mem = v.members(h)
        for m in ms:
            if m.base is not None and v.file_loop_of(m.node) == h:
                for d in sorted(v.origins(m.base, m.node)):
                    if d in mem:
                        reset = g.stmt[d]
    if skipped:
        r.fail(Finding("C17.fields", f, f"merge-skipped:{'/'.join(sorted(skipped))}", f"some path through the loop body skips the merge of {sorted(skipped)} "
                       f"(e.g. a `continue` for files that look redundant): the result then depends on the order in which the files are found"))
    elif reset is not None:
        r.fail(Finding("C17.fields", f, "combination-reset", f"the combination is created inside the loop over the files ({unparse(reset, 60)}): only the last file survives",
                       node=reset))
    else:
        r.ok({"function": f.qn, "merges_on_every_path": sorted({fld for pf in heads.values() for fld in pf})})


# scalar fields that identify the combination: the exporters write `(define (domain <name>)` / `(define (problem <name>)`, an empty name
# cannot be parsed back; the name is taken from the agent files (they all carry the same one)
NAME_FIELD = "name"
# constructor options of the parser of an agent file under which it returns the whole file; reason: with partial_parsing the domain
# parser skips the :precondition / :effect sections, the actions of the union would be empty shells
FULL_PARSE_OPTIONS = {"partial_parsing": False}


def _check_name(r: RuleResult, v: _View, what: str) -> None:
    """the name of the combination is taken from the name of an agent file, for every file that is merged"""
    f, g = v.f, v.g
    r.site(f"{f.qn} [{NAME_FIELD}]")
    ms = v.merges(NAME_FIELD)
    src = set().union(*[m.src for m in ms]) if ms else set()
    if not ms:
        r.fail(Finding("C17.fields", f, f"merge-missing:{NAME_FIELD}", f"combined_{what}.{NAME_FIELD} is never taken from the agent {what}s: the combination keeps the "
                       f"constructor's placeholder, the exported file starts with `(define ({what} )` and cannot be parsed back"))
        return
    if src != {NAME_FIELD}:
        r.fail(Finding("C17.fields", f, f"merge-crossed:{NAME_FIELD}", f"combined_{what}.{NAME_FIELD} is fed from agent_{what}.{sorted(src)}", node=ms[0].site))
        return
    heads: Dict[int, Set[int]] = {}
    for m in ms:
        h = v.file_loop_of(m.node)
        if h is not None:
            heads.setdefault(h, set()).add(v.representative(m.node, h))
    skipped = False
    for h, reps in heads.items():
        for s_ in [b for b, l in g.succ[h] if l == "iter"]:
            if s_ not in reps and h in C.reachable_from(g, s_, avoid=reps):
                skipped = True
    if not heads or skipped:
        r.fail(Finding("C17.fields", f, f"merge-skipped:{NAME_FIELD}", f"combined_{what}.{NAME_FIELD} is not set for every discovered {what} file", node=ms[0].site))
    else:
        r.ok({f"combined_{what}.{NAME_FIELD}": f"taken from agent_{what}.{NAME_FIELD} for every file"})


def _constructor_calls(v: _View, e: ast.AST, at: int, depth: int = 0) -> List[ast.Call]:
    """the constructor calls (of classes of the library) that create the object `e` evaluates to; names are followed through plain assignments"""
    if depth > 6:
        return []
    if isinstance(e, ast.Call):
        nm = e.func.id if isinstance(e.func, ast.Name) else (e.func.attr if isinstance(e.func, ast.Attribute) else None)
        if nm in v.repo.classes:
            return [e]
        return []
    if isinstance(e, ast.IfExp):
        return _constructor_calls(v, e.body, at, depth + 1) + _constructor_calls(v, e.orelse, at, depth + 1)
    if isinstance(e, ast.Name) and isinstance(e.ctx, ast.Load):
        out: List[ast.Call] = []
        for d in sorted(v.p.rd.defs_reaching(at, e.id)):
            st = v.g.stmt[d]
            val = None
            if isinstance(st, ast.Assign) and len(st.targets) == 1 and isinstance(st.targets[0], ast.Name):
                val = st.value
            elif isinstance(st, ast.AnnAssign) and isinstance(st.target, ast.Name):
                val = st.value
            elif isinstance(st, ast.With):
                val = next((i.context_expr for i in st.items if isinstance(i.optional_vars, ast.Name) and i.optional_vars.id == e.id), None)
            if val is not None:
                out += _constructor_calls(v, val, d, depth + 1)
        return out
    return []


def _check_full_parse(r: RuleResult, v: _View, what: str) -> None:
    """the object the agent file is read with is configured to return the whole file"""
    f, g, repo = v.f, v.g, v.repo
    meth = v.marker.split(":", 1)[1]
    for c in L.calls_in(f.node):
        if not (isinstance(c.func, ast.Attribute) and c.func.attr == meth):
            continue
        at = g.node_containing(c)
        if at is None or v.file_loop_of(at) is None:
            continue        # not the parser of a discovered agent file
        for ctor in _constructor_calls(v, c.func.value, at):
            cname = ctor.func.id if isinstance(ctor.func, ast.Name) else ctor.func.attr
            init = repo.find_method(cname, "__init__")
            if init is None or any(isinstance(a, ast.Starred) for a in ctor.args) or any(k.arg is None for k in ctor.keywords):
                continue
            for opt, wanted in FULL_PARSE_OPTIONS.items():
                if opt not in init.params:
                    continue
                r.site(f"{f.qn} [{cname}.{opt}]")
                a = L.arg_of(ctor, init, opt)
                where = f.mod.name
                if a is None:
                    a, where = init.defaults.get(opt), init.mod.name
                ok, val = repo.fold(a, where) if a is not None else (False, None)
                if ok and bool(val) != wanted:
                    r.fail(Finding("C17.fields", f, f"agent-file-read-partially:{opt}", f"the agent {what} files are read with {cname}({opt}={val!r}): the parser leaves out "
                                   f"parts of the file (preconditions and effects of the actions), the combination is not the union of what the files contain", node=ctor))
                else:
                    r.ok({"parser": cname, opt: val if ok else "not a constant (undecided)"})


def rule_fields(repo: Repo) -> RuleResult:
    r = RuleResult("C17.fields", "each mergeable field of the combination is fed from the same-named field of every agent file",
                   "the union of types, constants, predicates, functions, actions / objects, facts, fluents, goals")
    d, q = _views(repo)
    _check_fields(r, d, DOMAIN_FIELDS, "domain")
    _check_loop(r, d, DOMAIN_FIELDS, "domain")
    _check_name(r, d, "domain")
    _check_full_parse(r, d, "domain")
    _check_fields(r, q, PROBLEM_FIELDS, "problem")
    _check_loop(r, q, PROBLEM_FIELDS, "problem")
    _check_name(r, q, "problem")
    _check_full_parse(r, q, "problem")
    r.require_sites(16)
    return r


# ------------------------------------------------------------------------------------------------ C17.dedup
def _elements_of(v: _View, e: ast.AST, at: int, depth: int = 0) -> List[ast.AST]:
    """the expressions whose evaluation stands for 'one element is inserted': the element of a comprehension, the argument of the
    append / add calls that fill a local collection, otherwise the expression itself"""
    for _ in range(3):
        if isinstance(e, ast.Call) and isinstance(e.func, ast.Name) and e.func.id in ("set", "list", "frozenset", "tuple", "sorted", "iter") and len(e.args) == 1:
            e = e.args[0]
    if isinstance(e, (ast.ListComp, ast.SetComp, ast.GeneratorExp)):
        return [e.elt]
    if isinstance(e, ast.Name) and depth < 3:
        out: List[ast.AST] = []
        for d in sorted(v.p.rd.defs_reaching(at, e.id)):
            st = v.g.stmt[d]
            val = st.value if isinstance(st, (ast.Assign, ast.AnnAssign)) else None
            if val is None:
                return [e]
            if L._is_empty_literal(val):
                continue
            out += _elements_of(v, val, d, depth + 1)
        for c in L.calls_in(v.f.node):
            if isinstance(c.func, ast.Attribute) and isinstance(c.func.value, ast.Name) and c.func.value.id == e.id and c.args:
                n = v.g.node_containing(c)
                if n is None:
                    continue
                if c.func.attr in ("append", "add"):
                    out.append(c.args[0])
                elif c.func.attr in ("extend", "update"):
                    out += _elements_of(v, c.args[0], n, depth + 1)
        return out or [e]
    return [e]


def _present_matcher(v: _View):
    """atom 'present': the ground text of an agent fact is among the ground texts of the combined facts"""
    TEXT = "attr:untyped_representation"

    def agent_text(e) -> bool:
        for x in v.trace(e):
            if x[-1] == TEXT and v.agent_field(x) == "initial_state_predicates":
                return True
        return False

    def combined_text(e) -> bool:
        return any(x[0] == v.root and len(x) > 2 and x[1] == "attr:initial_state_predicates" and TEXT in x for x in v.trace(e))

    def matcher(e):
        if isinstance(e, ast.Compare) and len(e.ops) == 1 and isinstance(e.ops[0], (ast.In, ast.NotIn)):
            if agent_text(e.left) and combined_text(e.comparators[0]):
                return "present" if isinstance(e.ops[0], ast.In) else "!present"
        if isinstance(e, ast.Call) and isinstance(e.func, ast.Name) and e.func.id == "any" and len(e.args) == 1 and \
                isinstance(e.args[0], (ast.GeneratorExp, ast.ListComp)) and not any(g_.ifs for g_ in e.args[0].generators):
            c = e.args[0].elt
            if isinstance(c, ast.Compare) and len(c.ops) == 1 and isinstance(c.ops[0], ast.Eq):
                a, b = c.left, c.comparators[0]
                if (agent_text(a) and combined_text(b)) or (agent_text(b) and combined_text(a)):
                    return "present"
        return None

    return matcher


def _through_set(v: _View, st: _Store, fld: str) -> bool:
    """the stored value is the field's content passed through a set"""
    if st.kind not in ("assign", "setitem"):
        return False
    SETS = ("arg0:set", "arg0:frozenset", "arg0:fromkeys")
    for val in st.values:
        paths = v.trace(val)
        for x in paths:
            if f"attr:{fld}" in x:
                i = x.index(f"attr:{fld}")
                if any(s in SETS for s in x[i + 1:]):
                    return True
        if any(f"attr:{fld}" in x for x in paths):
            # set display / set comprehension / set operators written out
            todo, seen = [(val, st.node)], set()
            while todo:
                e, at = todo.pop()
                for n in ast.walk(e):
                    if isinstance(n, (ast.Set, ast.SetComp)):
                        return True
                    if isinstance(n, ast.Name) and isinstance(n.ctx, ast.Load) and (n.id, at) not in seen and len(seen) < 12:
                        seen.add((n.id, at))
                        for d in v.p.rd.defs_reaching(at, n.id):
                            s2 = v.g.stmt[d]
                            if isinstance(s2, (ast.Assign, ast.AnnAssign)) and s2.value is not None:
                                todo.append((s2.value, d))
    return False


def _anc_nodes(pm, n):
    cur = n
    while cur in pm:
        cur = pm[cur]
        yield cur


def rule_dedup(repo: Repo) -> RuleResult:
    r = RuleResult("C17.dedup", "facts are inserted only when their ground text is not present yet; goal literals pass through a set", "without duplicates")
    _d, v = _views(repo)
    f, g = v.f, v.g
    adds = [m for m in v.merges("initial_state_predicates") if m.vsrc]
    r.site(f.qn + " [facts]")
    if not adds:
        r.fail(Finding("C17.dedup", f, "facts-not-added", "initial facts of the agents are not inserted into the combination"))
    else:
        G = L.Guards(f, _present_matcher(v))
        bad = None
        if "present" not in G.atoms_seen:
            bad = adds[0]
        else:
            seen_t, seen_f = G.reach({"present": True}), G.reach({"present": False})
            for st in adds:
                for e in _elements_of(v, st.values[0], st.node):
                    if G.reaches_expr({"present": True}, e, seen=seen_t) or not G.reaches_expr({"present": False}, e, seen=seen_f):
                        bad = st
                        break
        # a fact that is NOT present yet must be inserted: no other test may let an iteration end without the insertion
        skipped = None
        if bad is None:
            pmf = L.parents_of(f)
            for st in adds:
                site = st.site
                stmt = site
                while stmt in pmf and not isinstance(stmt, ast.stmt):
                    stmt = pmf[stmt]
                loops_ = [a_ for a_ in _anc_nodes(pmf, stmt) if isinstance(a_, ast.For)]
                comps_ = [a_ for a_ in _anc_nodes(pmf, site) if isinstance(a_, (ast.SetComp, ast.ListComp, ast.GeneratorExp))]
                val = G._val({"present": False}, G.reach({"present": False}))
                for c_ in comps_:
                    for gen in c_.generators:
                        if any(C.eval3(t, val) is not True for t in gen.ifs):
                            skipped = st
                if loops_ and not comps_:
                    if not L.must_pass_in_loop(G, {"present": False}, loops_[0], {st.node}):
                        skipped = st
        left_early = None
        if bad is None and skipped is None:
            for st in adds:
                stmt = st.site
                while stmt in pmf and not isinstance(stmt, ast.stmt):
                    stmt = pmf[stmt]
                loops_ = [a_ for a_ in _anc_nodes(pmf, stmt) if isinstance(a_, ast.For)]
                if loops_ and any(L.leaves_loop_early(G, {"present": pres}, loops_[0]) for pres in (True, False)):
                    left_early = st
        if bad is None and skipped is None and left_early is not None:
            r.fail(Finding("C17.dedup", f, "facts-loop-left-early", "the walk over an agent's facts can end at the first fact that is already present (or inserted): "
                           "the remaining facts of that agent are left out of the combination", node=left_early.site))
        elif bad is None and skipped is not None:
            r.fail(Finding("C17.dedup", f, "facts-skipped", "a fact whose ground text is not present yet can be left out of the combination: another test "
                           "decides whether it is inserted", node=skipped.site))
        elif bad is None:
            r.ok({"fact_inserted_iff": "its ground text is not yet among the combined facts", "sites": [unparse(s.site, 50) for s in adds]})
        else:
            r.fail(Finding("C17.dedup", f, "facts-dedup", "a fact whose ground text is already present can be inserted again (or a new one is skipped)", node=bad.site))
    r.site(f.qn + " [goals]")
    fld = "goal_state_predicates"
    ms = v.merges(fld)
    dd = {s.node for s in v.stores() if s.field == fld and _through_set(v, s, fld)}
    leaks = [m for m in ms if m.node not in dd and g.exit in C.reachable_from(g, m.node, avoid=dd)]
    if ms and dd and not leaks:
        r.ok({"goal_literals": "rebound through a set on every path after the merge"})
    else:
        r.fail(Finding("C17.dedup", f, "goals-dedup", "goal literals are not de-duplicated" if not dd else
                       "goal literals are merged on a path that does not pass the de-duplication", node=leaks[0].site if leaks else None))
    r.require_sites(2)
    return r


# ------------------------------------------------------------------------------------------------ C17.dummy
def _predicate_constant(repo: Repo, modname: str, name: str) -> Optional[str]:
    """the predicate name of a module-level constant `X = Predicate(name=.., ..)`"""
    d = repo.lookup(modname, name)
    if not d or d[0] != "const" or not isinstance(d[1], ast.Call):
        return None
    call = d[1]
    cn = call.func.id if isinstance(call.func, ast.Name) else (call.func.attr if isinstance(call.func, ast.Attribute) else None)
    init = repo.find_method(cn, "__init__") if cn in repo.classes and "Predicate" in repo.mro(cn) else None
    if init is None:
        return None
    a = L.arg_of(call, init, "name", 0)
    ok, val = repo.fold(a, d[2]) if a is not None else (False, None)
    return val if ok and isinstance(val, str) else None


def _check_added_vocabulary(r: RuleResult, v: _View, G: "L.Guards") -> None:
    f, g, repo = v.f, v.g, v.repo
    modname = f.mod.name

    def predicate_constants(e: ast.AST) -> Dict[str, str]:
        out = {}
        for x in v.trace(e):
            if x[0].startswith("global:") and not any(s_.startswith(("attr:", "call:")) for s_ in x[1:]):
                nm = _predicate_constant(repo, modname, x[0][7:])
                if nm is not None:
                    out[nm] = x[0][7:]
        return out

    # predicates mentioned by the fields of a fresh Action
    used: Dict[str, List[Tuple[int, ast.AST]]] = {}
    for n in ast.walk(f.node):
        tgts, val = ([t for t in n.targets], n.value) if isinstance(n, ast.Assign) else (([n.target], n.value) if isinstance(n, ast.AnnAssign) and n.value is not None else ([], None))
        for t in tgts:
            if isinstance(t, ast.Attribute) and any(x == ("fresh:Action",) for x in v.trace(t.value)):
                at = g.node_of(n)
                if at is not None:
                    for nm in predicate_constants(val):
                        used.setdefault(nm, []).append((at, n))
    if not used:
        return
    declared: Dict[str, Set[int]] = {}
    for st in v.stores():
        if st.field != "predicates" or st.src:
            continue
        for val in st.values:
            for nm in predicate_constants(val):
                keys_ok = True
                for k in st.keys:
                    ok, kv = repo.fold(k, modname)
                    if ok:
                        keys_ok = keys_ok and kv == nm
                        continue
                    names = {_predicate_constant(repo, modname, x[0][7:]) for x in v.trace(k) if x[0].startswith("global:") and x[1:] == ("attr:name",)}
                    if names and None not in names:
                        keys_ok = keys_ok and names == {nm}
                if keys_ok:
                    declared.setdefault(nm, set()).add(st.node)
    for nm, sites in sorted(used.items()):
        r.site(f"{f.qn} [predicate {nm} of the added actions]")
        seen = G.reach({"dummy": True}, avoid=declared.get(nm, set()))
        live = [site for at, site in sites if at in seen]
        if g.exit in seen and live:
            r.fail(Finding("C17.dummy", f, "added-predicate-undeclared", f"the added actions use the predicate `{nm}` ({unparse(live[0], 60)}) but it is not stored into the "
                           f"combination's predicates under that name on every such path: the exported domain mentions an undeclared predicate and cannot be "
                           f"parsed back", node=live[0]))
        else:
            r.ok({"predicate": nm, "declared_with_the_added_actions": True})


def rule_dummy(repo: Repo) -> RuleResult:
    r = RuleResult("C17.dummy", "content that does not come from an agent file (dummy predicate / actions) is added only when add_dummy_actions is true",
                   "the combination is the union, nothing more")
    v, q = _views(repo)
    f, p = v.f, v.p
    PARAM = "add_dummy_actions"
    G = L.Guards(f, lambda e: "dummy" if PARAM in f.params and L.is_param(p, e, PARAM) else None)
    r.site(f.qn)
    extras = [s for s in v.stores() if s.extra and not s.src and s.field in DOMAIN_FIELDS]
    seen = G.reach({"dummy": False})

    def live(st: _Store) -> bool:
        e = st.site if isinstance(st.site, ast.expr) else getattr(st.site, "value", None)
        if e is None:
            return st.node in seen
        return G.reaches_expr({"dummy": False}, e, seen=seen)

    leaked = [s for s in extras if live(s)]
    if "dummy" in G.atoms_seen and not leaked:
        r.ok({"dummy_actions": "only under add_dummy_actions", "guarded_stores": [unparse(s.site, 50) for s in extras][:4]})
    else:
        r.fail(Finding("C17.dummy", f, "dummy-unconditional", "dummy actions / predicate are added although add_dummy_actions is false" +
                       (f" ({unparse(leaked[0].site, 60)})" if leaked else ""), node=leaked[0].site if leaked else None))
    # what the added content mentions is declared: a predicate in the effects / preconditions of an added (non-agent) action is stored into
    # the combination's predicates under its own name on every path that adds the action -- otherwise the exported domain uses an
    # undeclared predicate and cannot be parsed back
    _check_added_vocabulary(r, v, G)
    # default False
    d = v.raw.defaults.get(PARAM)
    r.site(f.qn + " [default]")
    ok, val = repo.fold(d, f.mod.name) if d is not None else (False, None)
    if ok and val is False:
        r.ok({"default": False})
    else:
        r.fail(Finding("C17.dummy", f, "dummy-default", "add_dummy_actions does not default to False"))
    # the problem combination has no flag: nothing but agent content may be stored
    r.site(q.f.qn + " [nothing more]")
    extras = [s for s in q.stores() if s.extra and not s.src and s.field in PROBLEM_FIELDS]
    if extras:
        r.fail(Finding("C17.dummy", q.f, "extra-content", f"{unparse(extras[0].site, 60)} stores content into the combined problem that does not come from an agent problem",
                       node=extras[0].site))
    else:
        r.ok({"stores_into_combined_problem": len(q.stores()), "not_from_agents": 0})
    r.require_sites(3)
    return r


# ------------------------------------------------------------------------------------------------ C17.global
def rule_global(repo: Repo) -> RuleResult:
    """C07.global with one local refinement of the effect analysis (candidate for promotion into sa/effects.py): when the summary of a
    callee is applied at a call site, the contents of containers built in the caller are read flow-sensitively *at that call site*,
    exactly as the engine already does for writes performed directly in the caller.  Without it a helper that writes below
    `param.[]` is charged with everything the caller stores into the container after the call (extracting the re-parenting loop of
    parse_types into a helper made `pddl_types["object"] = ObjectType`, executed last, look like a write into ObjectType)."""
    from .. import effects as E
    base = getattr(E, "_Analyzer", None)
    if base is None or not hasattr(base, "apply_summary") or not hasattr(base, "field"):
        return c07.rule_global(repo, "C17.global")

    class _CallSiteAnalyzer(base):
        _site = None

        def apply_summary(self, callee, bind, node, at, is_ctor):
            prev, self._site = self._site, at
            try:
                return super().apply_summary(callee, bind, node, at, is_ctor)
            finally:
                self._site = prev

        def field(self, atoms, f, at=None):
            return super().field(atoms, f, self._site if at is None else at)

    # second local refinement (candidate for promotion into the flattener): the effect analysis reads the flattened functions; positional
    # hand-overs written as a comprehension over a literal pair (`own, other = (x.f for x in (self, other))`, what `map(attrgetter(f),
    # (self, other))` in an unrolled table loop becomes) or as a starred literal are written out element by element first, so that
    # the receiver of the following `own.update(other)` is the combination's own field and not "either of the two"
    from .. import inline as I
    flatten0 = I.flatten

    def flatten_written_out(repo_, f_, *a, **k):
        return written_out(flatten0(repo_, f_, *a, **k))

    E._Analyzer = _CallSiteAnalyzer
    I.flatten = flatten_written_out
    try:
        r = c07.rule_global(repo, "C17.global")
    finally:
        E._Analyzer = base
        I.flatten = flatten0
    _check_own_fields(repo, r)
    return r


def _check_own_fields(repo: Repo, r: RuleResult) -> None:
    """the fields that the combiners merge into in place start as objects of the new Domain / Problem, not as (parts of) a module-level
    object.  The effect analysis above decides this as well, but it does not see writes made through getattr(obj, name); this clause
    reads the constructor by provenance and the merges from the normalised combiner."""
    for v in _views(repo):
        if repo.find_method(v.cls, "__init__") is None:
            continue
        init = L.fn(repo, f"{v.cls}.__init__")
        pi = L.prov(repo, init)
        inplace = {s.field for s in v.stores() if s.src and s.kind != "assign"}
        for n in ast.walk(init.node):
            if isinstance(n, ast.Assign):
                tgts, val = n.targets, n.value
            elif isinstance(n, ast.AnnAssign) and n.value is not None:
                tgts, val = [n.target], n.value
            else:
                continue
            for t in tgts:
                if not (isinstance(t, ast.Attribute) and isinstance(t.value, ast.Name) and t.value.id == init.self_name and t.attr in inplace):
                    continue
                shared = set()
                for x in pi.trace(val):
                    if x[0].startswith("global:") and all(s_.startswith(("attr:", "item")) for s_ in x[1:]):
                        d = repo.lookup(init.mod.name, x[0][7:])
                        if d and d[0] == "const" and not isinstance(d[1], (ast.Constant, ast.JoinedStr, ast.Tuple, ast.Lambda)):
                            shared.add(x[0][7:])
                where = f"{v.cls}.{t.attr} [starts as an object of its own]"
                if not shared:
                    r.site(where)
                    r.ok({"field": f"{v.cls}.{t.attr}", "merged_in_place_by": v.f.qn, "initialised_from_module_object": False})
                for name in sorted(shared):
                    role = f"write:global:{name}"
                    if any(f_.role == role and f_.function == v.f.qn.split("::", 1)[1] for f_ in r.findings):
                        continue
                    r.site(where)
                    r.fail(Finding("C17.global", v.f, role, f"{v.cls}.{t.attr} is initialised with the module-level object {name} itself ({unparse(n, 60)}) and "
                                   f"{v.f.qn.split('::', 1)[1]} merges the agent files into it in place: shared by every later instance",
                                   node=next((s_.site for s_ in v.stores() if s_.field == t.attr and s_.src and s_.kind != "assign"), None)))


def rules(repo: Repo, tier: str) -> List[RuleResult]:
    from . import c08
    return [rule_global(repo), rule_fields(repo), rule_dedup(repo), rule_dummy(repo),
            # "exporting the combination and parsing it back succeeds": the writer keeps every constant of the union
            c08.rule_allconstants(repo, "C17.export.constants"),
            # ... and the problem writer prints every object / fact / fluent of the combination with all the parts the reader needs
            _c09().rule_elements(repo, "C17.export.elements")]


def _c09():
    from . import c09
    return c09
