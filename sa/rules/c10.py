"""C10 -- a serialized trajectory parses back to the same states and actions."""
from __future__ import annotations

import ast
from typing import Dict, List, Optional, Set

from .. import cfg as C
from .. import lib as L
from .. import templates as T
from ..core import AnalysisError, FuncInfo, Repo, unparse
from ..prov import callee_name
from ..report import Finding, RuleResult
from . import c01, c05, c07, c08, c14, c16
from . import _c10_util as U

TP = "lisp_parsers.trajectory_parser"

EXPLANATION = (
    "C10.keywords: the section keywords written by State.serialize and the two trajectory exporters ({:init, :state, operator:, "
    "operators:}, extracted from their string templates) equal the heads that TrajectoryParser.parse_trajectory tests. C10.siblings: "
    "ProblemParser.parse_grounded_numeric_fluent and TrajectoryParser.parse_grounded_numeric_fluent read the same (= (f a b) v) form; "
    "every return of the trajectory reader must discharge the obligations of its sibling: arity check, type check when the objects "
    "are known, repeated-argument bookkeeping handed to PDDLFunction. C10.thread: in parse_trajectory each component's pre-state is "
    "the initial state or a copy of the previous post-state, one add_component per operator line: the action of the k-th component is "
    "read from item 1+2k of the token sequence (as the first argument of parse_action_call / parse_joint_action), its post-state from "
    "item 2+2k (positions affine in the loop counter, through ranges, slices, zip / enumerate / count, induction variables, records), "
    "a missing :state raises. "
    "C10.nodrop: parse_state rejects unknown components. C10.value: fluent values are float(third item) stored under the fluent's "
    "name. C10.export: the exporter layout (first state, then per step one operator line and the post-state). C10.call: the action "
    "call keeps name and arguments in order; joint actions keep one entry per agent with nop as such. "
    "C10.statewalk: in parse_state, under the valuation of the guard atoms that describes a well-formed element (head '=' and three items / head a declared "
    "predicate) every turn stores the element (fluents / facts) and goes on with the next one; State(..) gets the two stores under the right fields. "
    "C10.fluentreader / C10.atomreader: a declared fluent of the declared arity reaches a return in both modes (objects known / deduced), name = token 0, "
    "signature keys = tokens 1.., the type check tests the object's type against the declared one, arguments occurring twice are recorded, facts are positive, "
    "a signature is bound in either mode, self.problem is not read when it is None. C10.jointwalk: every entry of an operators: line is parsed (nop as "
    "ActionCall('nop', [])), all entries are visited, the list is returned. C10.deduce: per kind of element the object names / the declared signature come from "
    "the positions in ELEMENT_LAYOUT, paired in order. C10.sections: every section reader gets item[1:], no keyword test rejects a well-formed trajectory, "
    "MultiAgentObservation iff agents are given."
)
UNDECIDED = "state equality after the round trip for all trajectories (fact / fluent fidelity beyond the clauses above)"


def _is_head_like(f: FuncInfo, e: ast.AST) -> bool:
    """X[0] or a local alias of such a subscript"""
    if L.subscript0_of(e) is not None:
        return True
    if isinstance(e, ast.Name):
        return any(name == e.id and L.subscript0_of(v) is not None for name, v, _st in C.simple_bindings(f.node))
    return False


def _keyword_tests(repo: Repo, f: FuncInfo):
    """[(compare node, keyword, positive?)] for tests of a list head against a keyword constant (literal or module constant)"""
    out = []
    for n in ast.walk(f.node):
        if isinstance(n, ast.Compare) and len(n.ops) == 1 and isinstance(n.ops[0], (ast.Eq, ast.NotEq)):
            for a_, b_ in ((n.left, n.comparators[0]), (n.comparators[0], n.left)):
                k = None
                if isinstance(b_, ast.Constant) and isinstance(b_.value, str):
                    k = b_.value
                elif isinstance(b_, ast.Name):
                    ok, v = repo.const_value(f.mod.name, b_.id)
                    k = v if ok and isinstance(v, str) else None
                if k is not None and _is_head_like(f, a_):
                    out.append((n, k, isinstance(n.ops[0], ast.Eq)))
                    break
    return out


def rule_keywords(repo: Repo) -> RuleResult:
    r = RuleResult("C10.keywords", "keywords written by the trajectory writers = heads dispatched on by the trajectory reader",
                   "what is exported can be read back")
    writers = ["State.serialize", "TrajectoryExporter.export", "MultiAgentTrajectoryExporter.export"]
    written: Set[str] = set()
    for w in writers:
        f = U.deep(repo, w)        # helpers in place also where they are called inside comprehensions; templates of their modules folded
        lits = list(T.function_literals(f))
        # literals kept in module constants
        for n in ast.walk(f.node):
            if isinstance(n, ast.Name) and isinstance(n.ctx, ast.Load):
                ok, v = repo.const_value(f.mod.name, n.id)
                if ok and isinstance(v, str):
                    lits.append(v)
        kw = {k for k in T.keywords(lits) if k.startswith(":") or k.endswith(":")}
        r.site(f.qn)
        written |= kw
        r.ok({"writer": f.qn, "keywords": sorted(kw)})
    f = U.deep(repo, "TrajectoryParser.parse_trajectory")
    read: Set[str] = {k for _n, k, _pos in _keyword_tests(repo, f)}
    r.site(f.qn)
    if written == read and written:
        r.ok({"written": sorted(written), "read": sorted(read)})
    else:
        r.fail(Finding("C10.keywords", f, "keyword-mismatch", f"writers emit {sorted(written)}, the reader dispatches on {sorted(read)}"))
    r.require_sites(4)
    return r


def _fluent_obligations(repo: Repo, f: FuncInfo) -> List[Dict[str, object]]:
    """for the case 'problem objects known' and 'unknown': which obligations every return discharges"""
    g = C.cfg_of(f.node)
    p = L.prov(repo, f)
    arity = set(c05._raising_if_nodes(g, lambda t: c05._is_arity_test(t, p)))
    typechk = set(c05._subtype_check_nodes(repo, f, g))
    init = repo.find_method("PDDLFunction", "__init__")

    problem_absent = U.none_test_atoms(p, {PROBLEM: "noproblem"}, L.parents_of(f))      # `self.problem is None`, also as a truth value

    def matcher(e):
        a = problem_absent(e)
        if a is not None:
            return a
        if isinstance(e, ast.Compare) and len(e.ops) == 1 and isinstance(e.ops[0], (ast.Eq, ast.NotEq)) and c05._is_arity_test(e, p):
            return "arity" if isinstance(e.ops[0], ast.Eq) else "!arity"
        return None

    G = L.Guards(f, matcher)
    cases = [True, False] if "noproblem" in G.atoms_seen else [True]
    out = []
    rets = [n for n in g.nodes() if g.kind[n] == "return"]
    for known in cases:
        val = {"noproblem": not known} if "noproblem" in G.atoms_seen else {}
        seen = G.reach(val)
        live = [n for n in rets if n in seen]
        if not live:
            continue
        ob = {"objects_known": known, "line": g.stmt[live[0]].lineno}
        ob["arity"] = not any(n in G.reach(val, avoid=arity) for n in live) and bool(arity)
        if not ob["arity"] and "arity" in G.atoms_seen:
            # the same obligation written the other way round (`if len(a) == len(b): ... return ..` / `raise` after it): with the
            # arity test decided `unequal` no return is reached
            ob["arity"] = not any(n in G.reach(dict(val, arity=False)) for n in live)
        ob["types"] = not any(n in G.reach(val, avoid=typechk) for n in live) and bool(typechk)
        under = G.under(val, seen)
        rep = True
        ctors = [c for c in L.calls_in(f.node) if callee_name(c) == "PDDLFunction" and g.node_containing(c) in seen]
        if not ctors:
            rep = False
        for c in ctors:
            rv = L.arg_of(c, init, "repeating_variables")
            if rv is None or not any(any(s_.startswith("arg0:Counter") for s_ in x) for x in p.trace(rv, under=under)):
                rep = False
        ob["repeats"] = rep
        out.append(ob)
    return out


def rule_siblings(repo: Repo) -> RuleResult:
    r = RuleResult("C10.siblings", "the trajectory reader of (= (f a b) v) discharges what its sibling in the problem parser discharges",
                   "the same fluents with the same argument lists (including repeated arguments)")
    ref = L.fn(repo, "ProblemParser.parse_grounded_numeric_fluent")
    refob = _fluent_obligations(repo, ref)
    r.site(ref.qn)
    if not refob:
        raise AnalysisError("ProblemParser.parse_grounded_numeric_fluent: no return found")
    want = {k for k in ("arity", "types", "repeats") if all(o[k] for o in refob)}
    r.ok({"reference": ref.qn, "discharges": sorted(want)})
    f = L.fn(repo, "TrajectoryParser.parse_grounded_numeric_fluent")
    obs = _fluent_obligations(repo, f)
    if len(obs) < 2:
        raise AnalysisError("TrajectoryParser.parse_grounded_numeric_fluent: the cases 'problem given' / 'no problem' were not recognised")
    for ob in obs:
        r.site(f"{f.qn} [return, objects {'known' if ob['objects_known'] else 'unknown'}]")
        need = set(want)
        if not ob["objects_known"]:
            need.discard("types")
        missing = sorted(k for k in need if not ob[k])
        if missing:
            r.fail(Finding("C10.siblings", f, f"sibling-obligation:{'/'.join(missing)}:{'objects-known' if ob['objects_known'] else 'objects-unknown'}",
                           f"with the problem objects {'known' if ob['objects_known'] else 'unknown'} the reader lacks {missing} that "
                           f"ProblemParser.parse_grounded_numeric_fluent performs (repeats: (= (dist c0 c0) 1) comes back as (dist c0))"))
        else:
            r.ok({"objects_known": ob["objects_known"], "discharges": sorted(need)})
    # ground atoms: arity + declared parameter order
    a = L.fn(repo, "TrajectoryParser.parse_grounded_predicate")
    g = C.cfg_of(a.node)
    dom = C.dominators(g)
    pa = L.prov(repo, a)
    ar = c05._raising_if_nodes(g, lambda t: c05._is_arity_test(t, pa))
    rets = [n for n in g.nodes() if g.kind[n] == "return"]
    r.site(a.qn)
    # the object mapping handed to the grounded atom pairs declared parameters with the argument tokens position by position
    ctor = [c for c in L.calls_in(a.node) if callee_name(c) == "GroundedPredicate"]
    ginit = repo.find_method("GroundedPredicate", "__init__")
    zip_ok = False
    for c in ctor:
        om = L.arg_of(c, ginit, "object_mapping")
        if om is None:
            continue
        ents = L.map_entries(pa.trace(om))
        keys = {e for k, e in ents if k == "key"}
        vals = {e for k, e in ents if k == "value"}
        ksig = bool(keys) and all(e[:2] == ("param:lifted_predicate", "attr:signature") and e[-1].startswith("zip") for e in keys)
        vtok = bool(vals) and all(e[0] == "param:grounded_predicate_ast" and any(st.startswith("slice:1") for st in e) and e[-1].startswith("zip") for e in vals)
        zip_ok = zip_ok or (ksig and vtok and {e[-1] for e in keys} != {e[-1] for e in vals})
    if rets and all(dom[n] & set(ar) for n in rets) and zip_ok:
        r.ok({"atoms": "arity check; mapping pairs declared parameters with the arguments in order"})
    else:
        r.fail(Finding("C10.siblings", a, "atom-reader", "the trajectory atom reader lacks the arity check or does not pair arguments with the declared parameters in order"))
    r.require_sites(3)
    return r


def rule_thread(repo: Repo) -> RuleResult:
    r = RuleResult("C10.thread", "parse_trajectory: pre-state = initial state or copy of the previous post-state; one component per operator line; missing :state raises",
                   "the parsed observation is a chain with one component per action")
    f = U.deep(repo, "TrajectoryParser.parse_trajectory")
    p = L.prov(repo, f)
    g = C.cfg_of(f.node)
    adds = [c for c in L.calls_in(f.node) if callee_name(c) == "add_component"]
    if len(adds) != 1:
        raise AnalysisError("parse_trajectory: exactly one add_component call expected")
    a = adds[0]
    if len(a.args) < 3:
        raise AnalysisError("parse_trajectory: add_component(previous_state, action, next_state) with positional arguments expected")
    pre, act, post = a.args[0], a.args[1], a.args[2]
    parsed = lambda x: any(s_.endswith("parse_state") for s_ in x)
    recv_only = lambda x: x[0] == "self" and all(s_.startswith("call:") for s_ in x[1:])     # the parser object itself
    r.site(L.site(f, a, "pre-state"))
    tr = {x for x in p.trace(pre) if parsed(x) and not recv_only(x)}
    init = [x for x in tr if "call:copy" not in x]
    carried = [x for x in tr if "call:copy" in x]
    # the first pre-state: parse_state(<first item>[1:]); carried: a copy of the post-state of the previous component
    ok_init = bool(init) and all(L.has_pos(x, 0) for x in init)
    ok_car = bool(carried) and all(x[-1] == "call:copy" for x in carried)
    post_tr = {x for x in p.trace(post) if parsed(x) and not recv_only(x)}
    carried_is_post = bool(carried) and {x[:-1] for x in carried} <= post_tr
    other = [x for x in p.trace(pre) if not parsed(x) and x[0].startswith(("param:", "fresh:", "ext:", "const:"))]
    if ok_init and ok_car and carried_is_post and not other:
        r.ok({"pre_state": "parse_state(first item) | <post-state>.copy()"})
    else:
        r.fail(Finding("C10.thread", f, "pre-state", f"the pre-state of a component is {sorted(tr | set(other))[:3]}", node=a))
    r.site(L.site(f, a, "post-state / action"))
    ok_post = bool(post_tr) and all("call:copy" not in x for x in post_tr) and \
        not [x for x in p.trace(post) if not parsed(x) and x[0].startswith(("param:", "fresh:", "ext:", "const:"))]
    act_tr = p.trace(act)
    # what is read from the token sequence for the action enters parse_action_call / parse_joint_action as their first parameter (the call AST)
    readers = {}
    for nm in ("parse_action_call", "parse_joint_action"):
        m_ = repo.find_method("TrajectoryParser", nm)
        readers[nm] = m_.params[1] if m_ is not None and len(m_.params) > 1 else None
    from_tokens = [x for x in act_tr if "call:parse" in x and any(s_.endswith(":parse_action_call") or s_.endswith(":parse_joint_action") for s_ in x)]
    ok_act = bool(from_tokens) and all(any(s_ == f"arg0:{nm}" or (first and s_ == f"kw:{first}:{nm}") for nm, first in readers.items() for s_ in x)
                                       for x in from_tokens)
    if ok_post and ok_act:
        r.ok({"post_state": "parse_state(item after the operator line)", "action": "parse_action_call | parse_joint_action"})
    else:
        r.fail(Finding("C10.thread", f, "post-or-action", "post-state / action of a component do not come from the operator line and the following :state item", node=a))
    # positions: the action of the k-th component is computed from item 1 + 2k of the token sequence, its post-state from item 2 + 2k
    # (however the items are reached: indices of a range, slices, zip / enumerate / count, an induction variable, records, tuples)
    r.site(f.qn + " [alternation]")

    def whole_sequence(e):
        tr = p.trace(e)
        return bool(tr) and all(x[-1] == "call:parse" for x in tr)

    pos = U.Positions(repo, f, whole_sequence)
    act_src, post_src = pos.sources(act), pos.sources(post)
    ok = len(act_src) == 1 and len(post_src) == 1
    if ok:
        (a,), (b,) = tuple(act_src), tuple(post_src)
        ok = len(a) == 3 and len(b) == 3 and a[:2] == (1, 2) and b[:2] == (2, 2) and a[2] is not None and a[2] == b[2]
    if ok:
        r.ok({"alternation": "operator at i, state at i+1, i = 1, 3, 5, ..."})
    else:
        fmt = lambda srcs: sorted("?" if x == pos.UNKNOWN else f"{x[0]}+{x[1]}k" for x in srcs)
        r.fail(Finding("C10.thread", f, "alternation", f"operator lines and states are not read alternately from index 1 (action from items {fmt(act_src)}, "
                       f"post-state from items {fmt(post_src)})"))
    # missing :state / unknown operator keyword raise
    r.site(f.qn + " [rejections]")
    tests = {id(n): (k, pos) for n, k, pos in _keyword_tests(repo, f) if k in ("operator:", "operators:", ":state")}

    def matcher(e):
        if id(e) in tests:
            k, pos = tests[id(e)]
            return k if pos else "!" + k
        return None

    G = L.Guards(f, matcher)
    an = g.node_containing(a)
    s1 = G.reach({"operator:": False, "operators:": False, ":state": True})
    s2 = G.reach({"operator:": True, "operators:": False, ":state": False})
    if not {"operator:", "operators:", ":state"} <= G.atoms_seen:
        r.fail(Finding("C10.thread", f, "rejections", f"the reader does not test the heads 'operator:' / 'operators:' / ':state' (tests seen: {sorted(G.atoms_seen)})"))
    elif an not in s1 and an not in s2:
        r.ok({"unknown_operator_keyword": "raises", "missing_state": "raises"})
    else:
        r.fail(Finding("C10.thread", f, "rejections", "a component is added although the operator keyword is unknown or the :state item is missing"))
    # objects
    r.site(f.qn + " [objects]")
    apo = [c for c in L.calls_in(f.node) if callee_name(c) == "add_problem_objects"]
    srcs = set()
    for c in apo:
        for x in p.trace(c.args[0]):
            if "attr:objects" in x:
                srcs.add("problem.objects")
            if any(s_.endswith("deduce_problem_objects") for s_ in x):
                srcs.add("deduced from the first state")
    if srcs == {"problem.objects", "deduced from the first state"}:
        r.ok({"objects": sorted(srcs)})
    else:
        r.fail(Finding("C10.thread", f, "objects", f"observation objects come from {sorted(srcs)}"))
    r.require_sites(5)
    return r


def rule_call(repo: Repo) -> RuleResult:
    r = RuleResult("C10.call", "action calls keep name and arguments in order; joint actions keep one entry per agent, nop as nop",
                   "the same sequence of action calls")
    f = L.fn(repo, "TrajectoryParser.parse_action_call")
    p = L.prov(repo, f)
    r.site(f.qn)
    ctor = [c for c in L.calls_in(f.node) if callee_name(c) == "ActionCall"]
    init = repo.find_method("ActionCall", "__init__")
    ok = False
    if ctor:
        nm, ps = L.arg_of(ctor[0], init, "name"), L.arg_of(ctor[0], init, "grounded_parameters")
        tn, tp = p.trace(nm), p.trace(ps)
        ok = any(x[-2:] == ("item:0", "item:0") for x in tn) and any(x[-2:] == ("item:0", "slice:1:") for x in tp)
    if ok:
        r.ok({"name": "call[0][0]", "parameters": "call[0][1:]"})
    else:
        r.fail(Finding("C10.call", f, "action-call", "name / parameters of the action call are not the first token / the remaining tokens"))
    j = L.fn(repo, "TrajectoryParser.parse_joint_action")
    pj = L.prov(repo, j)
    r.site(j.qn)
    loops = [n for n in ast.walk(j.node) if isinstance(n, ast.For)]
    ok = False
    if loops:
        it = loops[0].iter
        okzip = isinstance(it, ast.Call) and callee_name(it) == "zip" and any(all(x == ("param:joint_action_call_ast",) for x in pj.trace(a)) for a in it.args)
        paths = C.acyclic_paths(C.cfg_of(j.node), C.cfg_of(j.node).node_of(loops[0]), lambda n: False)
        g = C.cfg_of(j.node)
        apps = {g.node_containing(c) for c in L.calls_in(loops[0]) if isinstance(c.func, ast.Attribute) and c.func.attr == "append"}
        counts = {sum(1 for n, _ in pt[1:] if n in apps) for pt in paths if len(pt) > 1 and pt[0][1] == "iter"}
        ok = okzip and counts == {1}
    if not loops:
        # the same walk written as one comprehension over zip(.., <the entries>): one element per entry, in order, returned
        comps = [n for n in ast.walk(j.node) if isinstance(n, (ast.ListComp, ast.GeneratorExp))]
        for c0 in comps:
            gen = c0.generators[0]
            it = gen.iter
            okzip = isinstance(it, ast.Call) and callee_name(it) == "zip" and any(all(x == ("param:joint_action_call_ast",) for x in pj.trace(a)) for a in it.args)
            if okzip and len(c0.generators) == 1 and not gen.ifs and not gen.is_async and L.flows_to_return(j, c0) and \
                    any(callee_name(c) == "parse_action_call" for c in L.calls_in(c0.elt)):
                ok = True
    if ok:
        r.ok({"joint_action": "one ActionCall appended per entry, in order"})
    else:
        r.fail(Finding("C10.call", j, "joint-action", "a joint action line does not yield exactly one action call per entry in order"))
    r.require_sites(2)
    return r



# ------------------------------------------------------------------------------------------------ oracle tables of the hardening clauses
PREDICATES_TABLE = ("self", "attr:partial_domain", "attr:predicates")
FUNCTIONS_TABLE = ("self", "attr:partial_domain", "attr:functions")
PROBLEM = ("self", "attr:problem")
ASSIGN = "="                    # State.serialize writes a fluent as (= (f a b) v): the head token of an assignment
ASSIGNMENT_LENGTH = 3           # ['=', [f, a, b], 'v']: the token list of a well-formed assignment has three items
# where the parts of ONE state element are, by the kind of the element (positions relative to the element's token list):
#   assignment ['=', [f, a..], v]: fluent name at [1][0], arguments [1][1:]      fact [p, a..]: name at [0], arguments [1:]
ELEMENT_LAYOUT = {
    "assignment": {"name": ("item:1", "item:0"), "arguments": ("item:1", "slice:1:"), "table": "attr:functions"},
    "fact": {"name": ("item:0",), "arguments": ("slice:1:",), "table": "attr:predicates"},
}
# valuations of the guard atoms that describe a well-formed element ('=' is not a predicate name: PDDL names start with a letter)
VAL_ASSIGNMENT = {"assign": True, "fact": False, "three": True}
VAL_FACT = {"assign": False, "fact": True}
SECTION_PAYLOAD = "slice:1:"    # every section is (<keyword> item item ...): what is handed to the section's reader is everything after the keyword
REPEATED = 2                    # an argument that occurs twice is a repeated argument ((dist a a)): the smallest count the bookkeeping must keep


def _first_param(f: FuncInfo) -> str:
    ps = [x for x in f.params if x != f.self_name]
    if not ps:
        raise AnalysisError(f"{f.qn}: a parameter holding the token list was expected")
    return ps[0]


def _state_walk_atoms(p, param: str):
    elem = (f"param:{param}", "elem")
    return U.element_atoms(p, elem, {ASSIGN: "assign"}, {PREDICATES_TABLE: "fact"}, (ASSIGNMENT_LENGTH, "three")), elem


def rule_statewalk(repo: Repo) -> RuleResult:
    r = RuleResult("C10.statewalk", "parse_state: every well-formed element of a state reaches its store (assignments -> fluents, facts -> predicates) "
                   "and the walk goes on; State(..) receives the two stores under the right fields",
                   "the same facts and the same fluents")
    f = U.deep(repo, "TrajectoryParser.parse_state")
    p = L.prov(repo, f)
    g = C.cfg_of(f.node)
    param = _first_param(f)
    matcher, elem = _state_walk_atoms(p, param)
    has = lambda callee: (lambda paths: any(x[:2] == ("self", f"call:{callee}") for x in paths))
    is_fluent, is_fact = has("parse_grounded_numeric_fluent"), has("parse_grounded_predicate")
    # the constructor fields
    r.site(f.qn + " [State fields]")
    sinit = repo.find_method("State", "__init__")
    ctors = [c for c in L.calls_in(f.node) if callee_name(c) == "State"]
    if not ctors:
        raise AnalysisError("parse_state: no State(..) constructor call found")
    bad = []
    for c in ctors:
        pa, fa = L.arg_of(c, sinit, "predicates", 0), L.arg_of(c, sinit, "fluents", 1)
        tp = U.safe_trace(p, pa) if pa is not None else set()
        tf = U.safe_trace(p, fa) if fa is not None else set()
        flows = lambda paths, callee: any(x[:2] == ("self", f"call:{callee}") and any(s_.startswith("in:") for s_ in x[2:]) for x in paths)
        # the parsed values reach the store directly, or through a local name for one of its members (`group = store[key]; group.add(v)`)
        if not (flows(tp, "parse_grounded_predicate") or (pa is not None and U.stored_into_member(f, p, g, pa, is_fact))) or is_fluent(tp):
            bad.append("predicates")
        if not (flows(tf, "parse_grounded_numeric_fluent") or (fa is not None and U.stored_into_member(f, p, g, fa, is_fluent))) or is_fact(tf):
            bad.append("fluents")
    if bad:
        r.fail(Finding("C10.statewalk", f, "state-fields", f"State(..) does not receive the parsed facts as `predicates` and the parsed fluents as `fluents` "
                       f"(wrong: {sorted(set(bad))})", node=ctors[0]))
    else:
        r.ok({"State": "predicates <- parse_grounded_predicate results, fluents <- parse_grounded_numeric_fluent results"})
    # misplaced tests
    r.site(f.qn + " [dispatch]")
    mis = U.misplaced_head_tests(f, p, elem, [ASSIGN], [PREDICATES_TABLE])
    if mis:
        r.fail(Finding("C10.statewalk", f, "dispatch-position", f"the kind of a state element is decided by `{unparse(mis[0], 60)}`, not by its first token", node=mis[0]))
    else:
        r.ok({"dispatch": "on the first token"})
    # the walk
    G = L.Guards(f, matcher)
    loops = U.loops_over(f, p, (f"param:{param}",))
    for kind, val, sel, need in (("assignment", VAL_ASSIGNMENT, is_fluent, {"assign"}), ("fact", VAL_FACT, is_fact, {"fact"})):
        r.site(f.qn + f" [walk: {kind}]")
        if not loops or not need <= G.atoms_seen:
            r.ok({kind: "no statement loop over the state with a test of the first token: nothing to decide here"})
            continue
        sinks = U.storing_nodes(f, p, g, sel)
        loop = next((l for l in loops if any(g.node_of(x) in sinks for x in ast.walk(l) if isinstance(x, ast.stmt))), loops[0])
        v = {k: b for k, b in val.items() if k in G.atoms_seen}
        why = U.walk_defect(G, v, loop, sinks)
        if why is None:
            r.ok({kind: "stored on every path through a turn, the walk goes on"})
        else:
            r.fail(Finding("C10.statewalk", f, f"{kind}-walk", f"a well-formed {kind} {why}", node=loop))
    r.require_sites(4)
    return r


def _case_guards(repo: Repo, f: FuncInfo, p, extra=None):
    m = U.none_test_atoms(p, {PROBLEM: "noproblem"}, L.parents_of(f))
    return L.Guards(f, U.any_matcher(m, extra) if extra is not None else m)


def _no_problem_dereference(r: RuleResult, rid: str, f: FuncInfo, p, G) -> None:
    """with `self.problem is None` decided, no attribute of self.problem is read"""
    r.site(f.qn + " [problem absent]")
    if "noproblem" not in G.atoms_seen:
        r.ok({"problem": "never tested against None here"})
        return
    val = {"noproblem": True}
    seen = G.reach(val)
    hit = [a for a in U.dereferences(f, p, PROBLEM) if G.reaches_expr(val, a, seen=seen)]
    if hit:
        r.fail(Finding(rid, f, "problem-absent-dereference", f"`{unparse(hit[0], 50)}` is evaluated although self.problem is None "
                       "(objects deduced from the first state): the parse fails with AttributeError", node=hit[0]))
    else:
        r.ok({"problem is None": "no attribute of self.problem is read"})


def rule_fluentreader(repo: Repo) -> RuleResult:
    rid = "C10.fluentreader"
    r = RuleResult(rid, "parse_grounded_numeric_fluent: a declared fluent with the declared number of arguments is accepted in both modes; name = first "
                   "token, signature keys = remaining tokens; the type check tests the object's type against the declared one; repeated arguments from count 2",
                   "the same fluents with the same argument lists")
    f = U.deep(repo, "TrajectoryParser.parse_grounded_numeric_fluent")
    p = L.prov(repo, f)
    g = C.cfg_of(f.node)
    param = _first_param(f)
    root = f"param:{param}"
    name_path = (root, "item:0")

    def is_count(e):
        tr = U.safe_trace(p, e)
        return bool(tr) and all(len(x) >= 4 and x[-1] == "unpack:1" and x[-2] == "elem" and x[-3] == "call:items" and any(s_.endswith(":Counter") for s_ in x) for x in tr)

    def extra(e):
        if isinstance(e, ast.Compare) and len(e.ops) == 1:
            if isinstance(e.ops[0], (ast.Eq, ast.NotEq)) and c05._is_arity_test(e, p):
                return "arity" if isinstance(e.ops[0], ast.Eq) else "!arity"
            if isinstance(e.ops[0], (ast.In, ast.NotIn)):
                tl, tr = U.safe_trace(p, e.left), U.safe_trace(p, e.comparators[0])
                if tl and all(x == name_path for x in tl) and tr and all(x == FUNCTIONS_TABLE for x in tr):
                    return "declared" if isinstance(e.ops[0], ast.In) else "!declared"
            v = U.compare_at(e, is_count, REPEATED)
            if v is not None:
                return "repeated" if v else "!repeated"
        return None

    G = _case_guards(repo, f, p, extra)
    init = repo.find_method("PDDLFunction", "__init__")
    rets = [n for n in g.nodes() if g.kind[n] == "return"]
    cases = [True, False] if "noproblem" in G.atoms_seen else [None]
    for noproblem in cases:
        label = "objects-known" if noproblem is False else "objects-unknown" if noproblem else "any"
        val = {k: True for k in ("arity", "declared") if k in G.atoms_seen}
        if noproblem is not None:
            val["noproblem"] = noproblem
        seen = G.reach(val)
        r.site(f"{f.qn} [well-formed fluent, {label}]")
        live = [n for n in rets if n in seen]
        if not live:
            r.fail(Finding(rid, f, f"wellformed-rejected:{label}", "a declared fluent with the declared number of arguments never reaches a return "
                           "(the arity / declaration test is inverted or the case has no result)"))
            continue
        r.ok({label: "accepted"})
        under = G.under(val, seen)
        ctors = [c for c in L.calls_in(f.node) if callee_name(c) == "PDDLFunction" and g.node_containing(c) in seen]
        r.site(f"{f.qn} [constructor fields, {label}]")
        bad = []
        for c in ctors:
            nm, sg = L.arg_of(c, init, "name", 0), L.arg_of(c, init, "signature", 1)
            tn = U.safe_trace(p, nm, under=under) if nm is not None else set()
            if not tn or not all(x[0] == root and U.position_of(x, 1) == ("item:0",) and len(x) == 2 for x in tn):
                bad.append("name is not the first token")
            ts = U.safe_trace(p, sg, under=under) if sg is not None and not U.unbound_names(f, p, g, sg, seen) else set()
            ents = L.map_entries(ts)
            keys = [e for k, e in ents if k == "key" and e and e[0] == root]
            if not keys:
                bad.append("no signature whose keys are argument tokens reaches the constructor")
            elif not all(U.position_of(e, 1) == (SECTION_PAYLOAD,) for e in keys):
                bad.append(f"signature keys are taken from {sorted({'/'.join(U.position_of(e, 1)) for e in keys})}, not from the tokens after the name")
        if not ctors:
            bad.append("no PDDLFunction is built")
        if bad:
            r.fail(Finding(rid, f, f"fluent-fields:{label}", "; ".join(sorted(set(bad)))))
        else:
            r.ok({label: "name = token 0, signature keys = tokens 1.."})
    _no_problem_dereference(r, rid, f, p, G)
    # direction / pairing of the type check
    r.site(f.qn + " [type check pairing]")
    bad = []
    for c in L.calls_in(f.node):
        if callee_name(c) == "is_sub_type" and isinstance(c.func, ast.Attribute) and c.args:
            rv, av = U.safe_trace(p, c.func.value, keys=True), U.safe_trace(p, c.args[0], keys=True)
            if any("attr:signature" in x for x in rv):
                bad.append((c, "the tested type is (looked up through) a declared parameter type"))
            elif av and not any("attr:signature" in x for x in av):
                bad.append((c, "the type it is tested against is not a declared parameter type"))
    if bad:
        r.fail(Finding(rid, f, "typecheck-pairing", f"`{unparse(bad[0][0], 60)}`: {bad[0][1]} (argument tokens and declared types are paired the wrong way round)", node=bad[0][0]))
    else:
        r.ok({"type check": "object's type .is_sub_type(declared type)"})
    # repeated arguments: the bookkeeping keeps every count >= 2
    r.site(f.qn + " [repeat threshold]")
    if "repeated" in G.atoms_seen:
        val = {"repeated": True}
        seen = G.reach(val)
        pm = L.parents_of(f)
        uses = []
        for n in ast.walk(f.node):
            if isinstance(n, ast.Name) and isinstance(n.ctx, ast.Load) and is_count(n):
                par = pm.get(n)
                if isinstance(par, ast.Compare):
                    continue
                uses.append(n)
        if uses and not any(G.reaches_expr(val, u, seen=seen) for u in uses):
            r.fail(Finding(rid, f, "repeat-threshold", "an argument that occurs twice is not recorded as repeated: (= (dist a a) 1) comes back as (dist a)", node=uses[0]))
        else:
            r.ok({"repeated arguments": "kept from count 2"})
    else:
        r.ok({"repeated arguments": "no count threshold test found"})
    r.require_sites(4)
    return r


def rule_atomreader(repo: Repo) -> RuleResult:
    rid = "C10.atomreader"
    r = RuleResult(rid, "parse_grounded_predicate: in both modes a signature reaches the constructor, facts are positive literals, self.problem is not read when absent",
                   "the same facts")
    f = U.deep(repo, "TrajectoryParser.parse_grounded_predicate")
    p = L.prov(repo, f)
    g = C.cfg_of(f.node)
    G = _case_guards(repo, f, p)
    init = repo.find_method("GroundedPredicate", "__init__")
    cases = [True, False] if "noproblem" in G.atoms_seen else [None]
    for noproblem in cases:
        label = "objects-known" if noproblem is False else "objects-unknown" if noproblem else "any"
        val = {} if noproblem is None else {"noproblem": noproblem}
        seen = G.reach(val)
        under = G.under(val, seen)
        r.site(f"{f.qn} [constructor fields, {label}]")
        ctors = [c for c in L.calls_in(f.node) if callee_name(c) == "GroundedPredicate" and g.node_containing(c) in seen]
        bad = []
        if not ctors:
            bad.append("no GroundedPredicate is built")
        for c in ctors:
            sg = L.arg_of(c, init, "signature", 1)
            if sg is None or not U.safe_trace(p, sg, under=under) or U.unbound_names(f, p, g, sg, seen):
                bad.append("no signature reaches the constructor (it is only bound in the other case)")
            pos = L.arg_of(c, init, "is_positive", 3)
            if pos is None:
                d = init.defaults.get("is_positive") if init is not None else None
                if not (isinstance(d, ast.Constant) and d.value is True):
                    bad.append("is_positive is not given")
            else:
                tp = U.safe_trace(p, pos, under=under)
                if not tp or not all(x == ("const:True",) for x in tp):
                    bad.append("a fact read from a state is not a positive literal")
        if bad:
            r.fail(Finding(rid, f, f"atom-fields:{label}", "; ".join(sorted(set(bad)))))
        else:
            r.ok({label: "signature present, is_positive=True"})
    _no_problem_dereference(r, rid, f, p, G)
    r.require_sites(2)
    return r



NOP = "nop"                     # MultiAgentTrajectoryExporter writes an idle agent's entry as (nop )


def rule_jointwalk(repo: Repo) -> RuleResult:
    rid = "C10.jointwalk"
    r = RuleResult(rid, "parse_joint_action: every entry of the joint action line yields its action call (an entry that is not nop through parse_action_call, "
                   "a nop entry as ActionCall('nop', []) or the same way), the walk visits all entries, the list is returned",
                   "joint actions keep one entry per agent, nop as such")
    f = U.deep(repo, "TrajectoryParser.parse_joint_action")
    p = L.prov(repo, f)
    g = C.cfg_of(f.node)
    param = _first_param(f)
    root = f"param:{param}"

    def is_entry(path) -> bool:
        """an element of the joint action line (directly or as the partner of the agents in zip / enumerate)"""
        if not path or path[0] != root:
            return False
        rest = [s_ for s_ in path[1:] if not (s_.startswith("arg") and s_.endswith((":zip", ":enumerate", ":list", ":tuple", ":iter")))]
        rest = [s_ for s_ in rest if not s_.startswith("unpack:")]
        return rest in (["elem"], ["item"])

    def entry_head(e) -> Optional[bool]:
        """True: the first token of an entry; False: another token of an entry; None: something else"""
        tr = U.safe_trace(p, e)
        if not tr:
            return None
        kinds = set()
        for x in tr:
            k = None
            for i in range(len(x), 0, -1):
                if is_entry(x[:i]):
                    pos = U.position_of(x, i)
                    if len(pos) == len(x) - i and len(pos) == 1 and pos[0].startswith("item:"):
                        k = pos == ("item:0",)
                    break
            kinds.add(k)
        return kinds.pop() if len(kinds) == 1 else None

    misplaced = []

    def matcher(e):
        if isinstance(e, ast.Compare) and len(e.ops) == 1 and isinstance(e.ops[0], (ast.Eq, ast.NotEq)):
            for a_, b_ in ((e.left, e.comparators[0]), (e.comparators[0], e.left)):
                if isinstance(b_, ast.Constant) and b_.value == NOP:
                    h = entry_head(a_)
                    if h is True:
                        return "nop" if isinstance(e.ops[0], ast.Eq) else "!nop"
                    if h is False and not any(e is m_ for m_ in misplaced):
                        misplaced.append(e)
        return None

    G = L.Guards(f, matcher)
    r.site(f.qn + " [nop test]")
    if misplaced:
        r.fail(Finding(rid, f, "nop-test-position", f"`{unparse(misplaced[0], 50)}` tests a token of the entry that is not its first one "
                       "(the entry (nop ) has one token)", node=misplaced[0]))
    else:
        r.ok({"nop test": "on the first token of the entry" if "nop" in G.atoms_seen else "none"})
    # sinks
    ainit = repo.find_method("ActionCall", "__init__")

    def parsed_entry(paths) -> bool:
        # self.parse_action_call([entry]): the entry is the only element of the list handed over
        return any(x[:2] == ("self", "call:parse_action_call") for x in paths) and \
            any(any(is_entry(x[:i]) and x[i:i + 2] == ("in:0", "arg0:parse_action_call") for i in range(1, len(x))) for x in paths)

    def nop_call(v: ast.AST) -> bool:
        for c in ([v] if isinstance(v, ast.Call) else []):
            if callee_name(c) == "ActionCall":
                nm, ps = L.arg_of(c, ainit, "name", 0), L.arg_of(c, ainit, "grounded_parameters", 1)
                tn = U.safe_trace(p, nm) if nm is not None else set()
                okn = bool(tn) and all(x == (f"const:{NOP!r}",) for x in tn)
                okp = isinstance(ps, (ast.List, ast.Tuple)) and not ps.elts
                if not okp and ps is not None:
                    tp = U.safe_trace(p, ps)
                    okp = bool(tp) and all(x == ("fresh:list",) for x in tp) and isinstance(ps, ast.Name) and False
                return okn and okp
        return False

    aparams = [x for x in (ainit.params if ainit is not None else ["self", "name", "grounded_parameters"]) if x != (ainit.self_name if ainit is not None else "self")]
    name_steps = {"kw:name:ActionCall"} | ({f"arg{aparams.index('name')}:ActionCall"} if "name" in aparams else set())
    nop_root = f"const:{NOP!r}"
    # every ActionCall named by the constant 'nop' has an empty parameter list
    nop_ctors = [c for c in L.calls_in(f.node) if callee_name(c) == "ActionCall" and (lambda a: a is not None and U.safe_trace(p, a) == {(nop_root,)})(L.arg_of(c, ainit, "name", 0))]
    nop_wellformed = all(nop_call(c) for c in nop_ctors)

    def idle_value(paths) -> bool:
        named = [x for x in paths if len(x) >= 2 and x[1] in name_steps]
        return bool(named) and all(x[0] == nop_root for x in named) and nop_wellformed

    def real_value(paths) -> bool:
        return parsed_entry(paths) and not any(len(x) >= 2 and x[1] in name_steps for x in paths)

    appends = []
    for n in ast.walk(f.node):
        if isinstance(n, ast.Expr) and isinstance(n.value, ast.Call) and isinstance(n.value.func, ast.Attribute) and n.value.func.attr in ("append", "add") \
                and len(n.value.args) == 1 and g.node_of(n) is not None:
            tr = U.safe_trace(p, n.value.args[0])
            if parsed_entry(tr) or any(len(x) >= 2 and x[1] in name_steps for x in tr):
                appends.append(n)
    loops = [l for l in ast.walk(f.node) if isinstance(l, ast.For) and any(any(x is a for a in appends) for x in ast.walk(l))]
    cases = [("entry", {"nop": False}, (real_value,)), ("nop-entry", {"nop": True}, (real_value, idle_value))] if "nop" in G.atoms_seen else [("entry", {}, (real_value, idle_value))]
    r.site(f.qn + " [entries]")
    if not loops:
        # no statement loop (a comprehension): the element expression under the two valuations of the nop test
        real_calls = [c for c in L.calls_in(f.node) if callee_name(c) == "parse_action_call" and parsed_entry(U.safe_trace(p, c))]
        idle_calls = [c for c in nop_ctors if nop_wellformed]
        why = None
        for label, val, _sel in cases:
            calls = real_calls if len(_sel) == 1 else real_calls + idle_calls
            live = [c for c in calls if G.reaches_expr(val, c) and L.flows_to_return(f, c)]
            if not live:
                why = label
                break
        if why is None:
            r.ok({"entries": "each one parsed (nop as nop) and part of the result; no statement loop"})
        else:
            what = "an entry that is not nop" if why == "entry" else "a nop entry (as ActionCall('nop', []))"
            r.fail(Finding(rid, f, f"joint-{why}", f"{what} is not parsed into the result"))
    else:
        loop = loops[0]
        for label, val, sels in cases:
            seen = G.reach(val)
            under = G.under(val, seen)
            sinks = [g.node_of(a) for a in appends if any(sel(U.safe_trace(p, a.value.args[0], under=under)) for sel in sels)]
            why = U.walk_defect(G, val, loop, sinks)
            if why is not None:
                what = "an entry that is not nop" if label == "entry" else "a nop entry (as ActionCall('nop', []))"
                r.fail(Finding(rid, f, f"joint-{label}", f"{what} {why}", node=loop))
                break
        else:
            r.ok({"entries": "each one parsed and stored, nop as nop; the walk visits all"})
    # the result
    r.site(f.qn + " [result]")
    ends = [n for n, _l in g.pred[g.exit]]
    rets = L.func_returns(f)
    carried = [x for x in rets if x.value is not None and any(any(s_.startswith("in:") for s_ in y) and y[:2] == ("self", "call:parse_action_call")
                                                                 for y in U.safe_trace(p, x.value))]
    if ends and all(g.kind[n] == "return" for n in ends) and rets and len(carried) == len(rets):
        r.ok({"result": "the list of parsed entries"})
    else:
        r.fail(Finding(rid, f, "joint-result", "the parsed entries are not returned on every path (a path ends without `return <the list>`)"))
    r.require_sites(3)
    return r


def _object_ctor_steps(repo: Repo):
    init = repo.find_method("PDDLObject", "__init__")
    ps = [x for x in (init.params if init is not None else ["self", "name", "type"]) if x != (init.self_name if init is not None else "self")]
    steps = {}
    for field in ("name", "type"):
        steps[field] = {f"kw:{field}:PDDLObject"} | ({f"arg{ps.index(field)}:PDDLObject"} if field in ps else set())
    return steps


def rule_deduce(repo: Repo) -> RuleResult:
    rid = "C10.deduce"
    r = RuleResult(rid, "deduce_problem_objects: per kind of element the object names are the argument tokens, typed by the declared signature looked up by the "
                   "element's name token, names and types paired position by position",
                   "parsing with objects deduced from the first state reproduces the same states")
    f = U.deep(repo, "TrajectoryParser.deduce_problem_objects")
    p = L.prov(repo, f)
    g = C.cfg_of(f.node)
    param = _first_param(f)
    root = f"param:{param}"
    elem = (root, "elem")
    matcher = U.element_atoms(p, elem, {ASSIGN: "assign"}, {PREDICATES_TABLE: "fact"})
    G = L.Guards(f, matcher)
    r.site(f.qn + " [dispatch]")
    mis = U.misplaced_head_tests(f, p, elem, [ASSIGN], [PREDICATES_TABLE])
    if mis:
        r.fail(Finding(rid, f, "dispatch-position", f"the kind of a state element is decided by `{unparse(mis[0], 60)}`, not by its first token "
                       "(zero-arity atoms have one token)", node=mis[0]))
    else:
        r.ok({"dispatch": "on the first token"})
    steps = _object_ctor_steps(repo)
    rets = [x for x in L.func_returns(f) if x.value is not None]
    for kind, val, need in (("assignment", {"assign": True, "fact": False}, "assign"), ("fact", {"assign": False, "fact": True}, "fact")):
        r.site(f.qn + f" [{kind}]")
        if need not in G.atoms_seen or not rets:
            r.ok({kind: "no test of the first token found: nothing to decide here"})
            continue
        lay = ELEMENT_LAYOUT[kind]
        v = {k: b for k, b in val.items() if k in G.atoms_seen}
        seen = G.reach(v)
        under = G.under(v, seen)
        paths = set()
        for x in rets:
            if g.node_of(x) in seen:
                paths |= U.safe_trace(p, x.value, keys=True, under=under)
        names = [x for x in paths if any(s_ in steps["name"] for s_ in x)]
        types = [x for x in paths if any(s_ in steps["type"] for s_ in x)]
        if not names and not types:
            r.ok({kind: "no PDDLObject built from the element on this path (objects not collected here)"})
            continue
        bad = []
        for x in names:
            if x[:2] != elem or "askey" in x or "attr:signature" in x:
                bad.append("an object name is not an argument token of the element")
            elif U.position_of(x, 2) != lay["arguments"]:
                bad.append(f"object names are read from {'/'.join(U.position_of(x, 2)) or 'the element'} instead of {'/'.join(lay['arguments'])}")
        for x in types:
            if "attr:signature" not in x:
                bad.append("an object type is not a declared parameter type")
            elif x[:2] == elem:
                if "askey" not in x or U.position_of(x, 2) != lay["name"] or x[2 + len(lay["name"])] != "askey":
                    bad.append(f"the declared signature is looked up by {'/'.join(U.position_of(x, 2)) or 'the element'} instead of {'/'.join(lay['name'])}")
            elif x[0] == "self" and x[:2] == ("self", "attr:partial_domain") and x[2] != lay["table"]:
                bad.append(f"the declared signature is looked up in {x[2][5:]}")
        # names and types are zip partners: different components of the same zip
        zn = {s_ for x in names for s_ in x if s_.startswith("arg") and s_.endswith(":zip")}
        zt = {s_ for x in types for s_ in x if s_.startswith("arg") and s_.endswith(":zip")}
        if zn and zt and zn & zt:
            bad.append("names and declared types are not paired position by position")
        if bad:
            r.fail(Finding(rid, f, f"deduce-{kind}", "; ".join(sorted(set(bad)))))
        else:
            r.ok({kind: f"names {'/'.join(lay['arguments'])}, signature of {'/'.join(lay['name'])} in {lay['table'][5:]}"})
    r.require_sites(3)
    return r


WELL_FORMED = (          # heads of the items of an exported trajectory: (:init ..) then (operator: ..) / (operators: ..) and (:state ..) alternately
    {":init": True, "operator:": True, "operators:": False, ":state": True},
    {":init": True, "operator:": False, "operators:": True, ":state": True},
)
SECTION_READERS = ("parse_state", "parse_action_call", "parse_joint_action", "deduce_problem_objects")


def rule_sections(repo: Repo) -> RuleResult:
    rid = "C10.sections"
    r = RuleResult(rid, "parse_trajectory: every section reader receives the items after the section keyword; a well-formed trajectory is never rejected by a "
                   "keyword test; the observation is multi-agent exactly when agents are given; self.problem is not read when absent",
                   "the same states and the same action calls, single-agent and joint")
    f = U.deep(repo, "TrajectoryParser.parse_trajectory")
    p = L.prov(repo, f)
    g = C.cfg_of(f.node)
    # payloads
    r.site(f.qn + " [section payloads]")
    bad = []
    n_calls = 0
    for c in L.calls_in(f.node):
        nm = callee_name(c)
        if nm in SECTION_READERS and isinstance(c.func, ast.Attribute) and c.args:
            n_calls += 1
            for x in U.safe_trace(p, c.args[0]):
                if "call:parse" not in x:
                    continue
                tail = [s_ for s_ in x[x.index("call:parse") + 1:]]
                slices = [s_ for s_ in tail if s_.startswith("slice:")]
                picks = [i for i, s_ in enumerate(tail) if s_ == "item" or s_.startswith("item:") or s_ == "elem" or (s_.startswith("unpack:") and s_[7:].isdigit())]
                if not picks:
                    continue        # not one item of the token sequence: not understood, left alone
                after = [s_ for s_ in tail[picks[-1] + 1:] if not s_.startswith("unpack:")]
                if after != [SECTION_PAYLOAD] and all(s_.startswith("slice:") for s_ in after):
                    bad.append((c, nm, "/".join(after) or "the whole item"))
    if bad:
        c, nm, got = bad[0]
        r.fail(Finding(rid, f, f"section-payload:{nm}", f"{nm} receives {got} of the section's item, not the items after the keyword ([1:])", node=c))
    elif n_calls:
        r.ok({"payload": "item[1:] for every section reader"})
    else:
        raise AnalysisError("parse_trajectory: no section reader call found")
    # well-formed input is not rejected by a keyword test
    r.site(f.qn + " [well-formed accepted]")
    tests = {id(n): (k, pos) for n, k, pos in _keyword_tests(repo, f)}

    def matcher(e):
        if id(e) in tests:
            k, pos = tests[id(e)]
            return k if pos else "!" + k
        return None

    G = L.Guards(f, matcher)
    atoms = sorted(G.atoms_seen)
    hit = None
    if atoms:
        import itertools as _it
        for n in g.nodes():
            st = g.stmt[n]
            if g.kind[n] != "if" or not isinstance(st, ast.If) or isinstance(st, C.InlineBlock):
                continue
            in_body = any(isinstance(x, ast.Raise) for x in st.body)
            in_else = any(isinstance(x, ast.Raise) for x in st.orelse)
            if in_body == in_else:
                continue
            outcomes = set()
            for bits in _it.product((True, False), repeat=len(atoms)):
                v = G.value(dict(zip(atoms, bits)), st.test)
                outcomes.add(v if isinstance(v, bool) else "residual" if v is not None else None)
            if len(outcomes) < 2:
                continue            # the test does not depend on the section keywords
            for w in WELL_FORMED:
                val = {k: b for k, b in w.items() if k in G.atoms_seen}
                seen = G.reach(val)
                if n not in seen:
                    continue
                v = G.value(val, st.test, seen=seen)
                if isinstance(v, bool):
                    if v is in_body:
                        hit = (st, v)
                        break
                    continue
                # undecided: counted only when what is left is an option of the call (a parameter used as a truth value), not a
                # further look at the input
                res = v
                while isinstance(res, ast.UnaryOp) and isinstance(res.op, ast.Not):
                    res = res.operand
                tr = U.safe_trace(p, res) if isinstance(res, ast.Name) else set()
                if tr and all(len(x) == 1 and x[0].startswith("param:") for x in tr):
                    hit = (st, v)
                    break
            if hit:
                break
    if hit:
        st, v = hit
        more = "always" if isinstance(v, bool) else f"depending on `{unparse(v, 40)}`" if v is not None else "for some inputs"
        r.fail(Finding(rid, f, "wellformed-rejected", f"`{unparse(st.test, 70)}` rejects a trajectory whose items start with :init / operator(s): / :state {more}", node=st))
    else:
        r.ok({"well-formed": "no keyword test raises"})
    # the observation class
    r.site(f.qn + " [observation class]")
    adds = [c for c in L.calls_in(f.node) if callee_name(c) == "add_component" and isinstance(c.func, ast.Attribute)]
    minit = repo.find_method("MultiAgentObservation", "__init__")
    agent_roots = set()
    for c in L.calls_in(f.node):
        if callee_name(c) == "MultiAgentObservation":
            a = L.arg_of(c, minit, "executing_agents", 0)
            for x in (U.safe_trace(p, a) if a is not None else ()):
                if len(x) == 1 and x[0].startswith("param:"):
                    agent_roots.add(x)
    G2 = L.Guards(f, U.none_test_atoms(p, {x: "single" for x in agent_roots}))
    if adds and "single" in G2.atoms_seen:
        bad = []
        for single, want in ((True, "fresh:Observation"), (False, "fresh:MultiAgentObservation")):
            val = {"single": single}
            seen = G2.reach(val)
            under = G2.under(val, seen)
            got = {x[0] for c in adds for x in U.safe_trace(p, c.func.value, under=under) if x[0].startswith("fresh:")}
            if got and got != {want}:
                bad.append(f"with{'out' if single else ''} executing agents the components are added to {sorted(y[6:] for y in got)}")
        if bad:
            r.fail(Finding(rid, f, "observation-class", "; ".join(bad) + " (single-agent: Observation, joint: MultiAgentObservation)"))
        else:
            r.ok({"observation": "MultiAgentObservation iff executing agents are given"})
    else:
        r.ok({"observation": "class choice not expressed as a None test of the agents parameter"})
    _no_problem_dereference(r, rid, f, p, _case_guards(repo, f, p))
    r.require_sites(4)
    return r


def rules(repo: Repo, tier: str) -> List[RuleResult]:
    return [
        rule_keywords(repo), rule_siblings(repo), rule_thread(repo),
        c01.rule_nodrop(repo, "C10.nodrop", (TP,), 1, only={"TrajectoryParser.parse_state"}, anchors=["TrajectoryParser.parse_state"]),
        c05.rule_value(repo, "C10.value", "TrajectoryParser.parse_state", "state_fluents"),
        c16.rule_export(repo, "C10.export", "TrajectoryExporter", "operator:"),
        rule_call(repo),
        rule_statewalk(repo), rule_fluentreader(repo), rule_atomreader(repo),
        rule_jointwalk(repo), rule_deduce(repo), rule_sections(repo),
        c14.rule_serialize(repo, "C10.fields"), c08.rule_valuetext(repo, "C10.valuetext"),
        c01.rule_dupkeys(repo, "C10.dupkeys", ["TrajectoryParser.parse_grounded_numeric_fluent"]),
        c07.rule_global(repo, "C10.global"),
    ]
