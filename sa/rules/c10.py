"""C10 -- a serialized trajectory parses back to the same states and actions."""
from __future__ import annotations

import ast
from typing import Dict, List, Set

from .. import cfg as C
from .. import lib as L
from .. import templates as T
from ..core import AnalysisError, FuncInfo, Repo, unparse
from ..prov import callee_name
from ..report import Finding, RuleResult
from . import c01, c05, c07, c08, c14, c16
from . import _c10_util as U

TP = "lisp_parsers.trajectory_parser"

EXPLANATION = (
    "C10.keywords: the section keywords written by State.serialize and the two trajectory exporters ({:init, :state, operator:, "
    "operators:}, extracted from their string templates) equal the heads that TrajectoryParser.parse_trajectory tests. C10.siblings: "
    "ProblemParser.parse_grounded_numeric_fluent and TrajectoryParser.parse_grounded_numeric_fluent read the same (= (f a b) v) form; "
    "every return of the trajectory reader must discharge the obligations of its sibling: arity check, type check when the objects "
    "are known, repeated-argument bookkeeping handed to PDDLFunction. C10.thread: in parse_trajectory each component's pre-state is "
    "the initial state or a copy of the previous post-state, one add_component per operator line: the action of the k-th component is "
    "read from item 1+2k of the token sequence (as the first argument of parse_action_call / parse_joint_action), its post-state from "
    "item 2+2k (positions affine in the loop counter, through ranges, slices, zip / enumerate / count, induction variables, records), "
    "a missing :state raises. "
    "C10.nodrop: parse_state rejects unknown components. C10.value: fluent values are float(third item) stored under the fluent's "
    "name. C10.export: the exporter layout (first state, then per step one operator line and the post-state). C10.call: the action "
    "call keeps name and arguments in order; joint actions keep one entry per agent with nop as such."
)
UNDECIDED = "state equality after the round trip for all trajectories (fact / fluent fidelity beyond the clauses above)"


def _is_head_like(f: FuncInfo, e: ast.AST) -> bool:
    """X[0] or a local alias of such a subscript"""
    if L.subscript0_of(e) is not None:
        return True
    if isinstance(e, ast.Name):
        return any(name == e.id and L.subscript0_of(v) is not None for name, v, _st in C.simple_bindings(f.node))
    return False


def _keyword_tests(repo: Repo, f: FuncInfo):
    """[(compare node, keyword, positive?)] for tests of a list head against a keyword constant (literal or module constant)"""
    out = []
    for n in ast.walk(f.node):
        if isinstance(n, ast.Compare) and len(n.ops) == 1 and isinstance(n.ops[0], (ast.Eq, ast.NotEq)):
            for a_, b_ in ((n.left, n.comparators[0]), (n.comparators[0], n.left)):
                k = None
                if isinstance(b_, ast.Constant) and isinstance(b_.value, str):
                    k = b_.value
                elif isinstance(b_, ast.Name):
                    ok, v = repo.const_value(f.mod.name, b_.id)
                    k = v if ok and isinstance(v, str) else None
                if k is not None and _is_head_like(f, a_):
                    out.append((n, k, isinstance(n.ops[0], ast.Eq)))
                    break
    return out


def rule_keywords(repo: Repo) -> RuleResult:
    r = RuleResult("C10.keywords", "keywords written by the trajectory writers = heads dispatched on by the trajectory reader",
                   "what is exported can be read back")
    writers = ["State.serialize", "TrajectoryExporter.export", "MultiAgentTrajectoryExporter.export"]
    written: Set[str] = set()
    for w in writers:
        f = U.deep(repo, w)        # helpers in place also where they are called inside comprehensions; templates of their modules folded
        lits = list(T.function_literals(f))
        # literals kept in module constants
        for n in ast.walk(f.node):
            if isinstance(n, ast.Name) and isinstance(n.ctx, ast.Load):
                ok, v = repo.const_value(f.mod.name, n.id)
                if ok and isinstance(v, str):
                    lits.append(v)
        kw = {k for k in T.keywords(lits) if k.startswith(":") or k.endswith(":")}
        r.site(f.qn)
        written |= kw
        r.ok({"writer": f.qn, "keywords": sorted(kw)})
    f = U.deep(repo, "TrajectoryParser.parse_trajectory")
    read: Set[str] = {k for _n, k, _pos in _keyword_tests(repo, f)}
    r.site(f.qn)
    if written == read and written:
        r.ok({"written": sorted(written), "read": sorted(read)})
    else:
        r.fail(Finding("C10.keywords", f, "keyword-mismatch", f"writers emit {sorted(written)}, the reader dispatches on {sorted(read)}"))
    r.require_sites(4)
    return r


def _fluent_obligations(repo: Repo, f: FuncInfo) -> List[Dict[str, object]]:
    """for the case 'problem objects known' and 'unknown': which obligations every return discharges"""
    g = C.cfg_of(f.node)
    p = L.prov(repo, f)
    arity = set(c05._raising_if_nodes(g, lambda t: c05._is_arity_test(t, p)))
    typechk = set(c05._subtype_check_nodes(repo, f, g))
    init = repo.find_method("PDDLFunction", "__init__")

    def matcher(e):
        if isinstance(e, ast.Compare) and len(e.ops) == 1 and isinstance(e.ops[0], (ast.Is, ast.IsNot, ast.Eq, ast.NotEq)) and \
                isinstance(e.comparators[0], ast.Constant) and e.comparators[0].value is None:
            try:
                tr = p.trace(e.left)
            except KeyError:
                return None
            if tr and all(x == ("self", "attr:problem") for x in tr):
                return "noproblem" if isinstance(e.ops[0], (ast.Is, ast.Eq)) else "!noproblem"
        return None

    G = L.Guards(f, matcher)
    cases = [True, False] if "noproblem" in G.atoms_seen else [True]
    out = []
    rets = [n for n in g.nodes() if g.kind[n] == "return"]
    for known in cases:
        val = {"noproblem": not known} if "noproblem" in G.atoms_seen else {}
        seen = G.reach(val)
        live = [n for n in rets if n in seen]
        if not live:
            continue
        ob = {"objects_known": known, "line": g.stmt[live[0]].lineno}
        ob["arity"] = not any(n in G.reach(val, avoid=arity) for n in live) and bool(arity)
        ob["types"] = not any(n in G.reach(val, avoid=typechk) for n in live) and bool(typechk)
        under = G.under(val, seen)
        rep = True
        ctors = [c for c in L.calls_in(f.node) if callee_name(c) == "PDDLFunction" and g.node_containing(c) in seen]
        if not ctors:
            rep = False
        for c in ctors:
            rv = L.arg_of(c, init, "repeating_variables")
            if rv is None or not any(any(s_.startswith("arg0:Counter") for s_ in x) for x in p.trace(rv, under=under)):
                rep = False
        ob["repeats"] = rep
        out.append(ob)
    return out


def rule_siblings(repo: Repo) -> RuleResult:
    r = RuleResult("C10.siblings", "the trajectory reader of (= (f a b) v) discharges what its sibling in the problem parser discharges",
                   "the same fluents with the same argument lists (including repeated arguments)")
    ref = L.fn(repo, "ProblemParser.parse_grounded_numeric_fluent")
    refob = _fluent_obligations(repo, ref)
    r.site(ref.qn)
    if not refob:
        raise AnalysisError("ProblemParser.parse_grounded_numeric_fluent: no return found")
    want = {k for k in ("arity", "types", "repeats") if all(o[k] for o in refob)}
    r.ok({"reference": ref.qn, "discharges": sorted(want)})
    f = L.fn(repo, "TrajectoryParser.parse_grounded_numeric_fluent")
    obs = _fluent_obligations(repo, f)
    if len(obs) < 2:
        raise AnalysisError("TrajectoryParser.parse_grounded_numeric_fluent: the cases 'problem given' / 'no problem' were not recognised")
    for ob in obs:
        r.site(f"{f.qn} [return, objects {'known' if ob['objects_known'] else 'unknown'}]")
        need = set(want)
        if not ob["objects_known"]:
            need.discard("types")
        missing = sorted(k for k in need if not ob[k])
        if missing:
            r.fail(Finding("C10.siblings", f, f"sibling-obligation:{'/'.join(missing)}:{'objects-known' if ob['objects_known'] else 'objects-unknown'}",
                           f"with the problem objects {'known' if ob['objects_known'] else 'unknown'} the reader lacks {missing} that "
                           f"ProblemParser.parse_grounded_numeric_fluent performs (repeats: (= (dist c0 c0) 1) comes back as (dist c0))"))
        else:
            r.ok({"objects_known": ob["objects_known"], "discharges": sorted(need)})
    # ground atoms: arity + declared parameter order
    a = L.fn(repo, "TrajectoryParser.parse_grounded_predicate")
    g = C.cfg_of(a.node)
    dom = C.dominators(g)
    pa = L.prov(repo, a)
    ar = c05._raising_if_nodes(g, lambda t: c05._is_arity_test(t, pa))
    rets = [n for n in g.nodes() if g.kind[n] == "return"]
    r.site(a.qn)
    # the object mapping handed to the grounded atom pairs declared parameters with the argument tokens position by position
    ctor = [c for c in L.calls_in(a.node) if callee_name(c) == "GroundedPredicate"]
    ginit = repo.find_method("GroundedPredicate", "__init__")
    zip_ok = False
    for c in ctor:
        om = L.arg_of(c, ginit, "object_mapping")
        if om is None:
            continue
        ents = L.map_entries(pa.trace(om))
        keys = {e for k, e in ents if k == "key"}
        vals = {e for k, e in ents if k == "value"}
        ksig = bool(keys) and all(e[:2] == ("param:lifted_predicate", "attr:signature") and e[-1].startswith("zip") for e in keys)
        vtok = bool(vals) and all(e[0] == "param:grounded_predicate_ast" and any(st.startswith("slice:1") for st in e) and e[-1].startswith("zip") for e in vals)
        zip_ok = zip_ok or (ksig and vtok and {e[-1] for e in keys} != {e[-1] for e in vals})
    if rets and all(dom[n] & set(ar) for n in rets) and zip_ok:
        r.ok({"atoms": "arity check; mapping pairs declared parameters with the arguments in order"})
    else:
        r.fail(Finding("C10.siblings", a, "atom-reader", "the trajectory atom reader lacks the arity check or does not pair arguments with the declared parameters in order"))
    r.require_sites(3)
    return r


def rule_thread(repo: Repo) -> RuleResult:
    r = RuleResult("C10.thread", "parse_trajectory: pre-state = initial state or copy of the previous post-state; one component per operator line; missing :state raises",
                   "the parsed observation is a chain with one component per action")
    f = U.deep(repo, "TrajectoryParser.parse_trajectory")
    p = L.prov(repo, f)
    g = C.cfg_of(f.node)
    adds = [c for c in L.calls_in(f.node) if callee_name(c) == "add_component"]
    if len(adds) != 1:
        raise AnalysisError("parse_trajectory: exactly one add_component call expected")
    a = adds[0]
    if len(a.args) < 3:
        raise AnalysisError("parse_trajectory: add_component(previous_state, action, next_state) with positional arguments expected")
    pre, act, post = a.args[0], a.args[1], a.args[2]
    parsed = lambda x: any(s_.endswith("parse_state") for s_ in x)
    recv_only = lambda x: x[0] == "self" and all(s_.startswith("call:") for s_ in x[1:])     # the parser object itself
    r.site(L.site(f, a, "pre-state"))
    tr = {x for x in p.trace(pre) if parsed(x) and not recv_only(x)}
    init = [x for x in tr if "call:copy" not in x]
    carried = [x for x in tr if "call:copy" in x]
    # the first pre-state: parse_state(<first item>[1:]); carried: a copy of the post-state of the previous component
    ok_init = bool(init) and all(L.has_pos(x, 0) for x in init)
    ok_car = bool(carried) and all(x[-1] == "call:copy" for x in carried)
    post_tr = {x for x in p.trace(post) if parsed(x) and not recv_only(x)}
    carried_is_post = bool(carried) and {x[:-1] for x in carried} <= post_tr
    other = [x for x in p.trace(pre) if not parsed(x) and x[0].startswith(("param:", "fresh:", "ext:", "const:"))]
    if ok_init and ok_car and carried_is_post and not other:
        r.ok({"pre_state": "parse_state(first item) | <post-state>.copy()"})
    else:
        r.fail(Finding("C10.thread", f, "pre-state", f"the pre-state of a component is {sorted(tr | set(other))[:3]}", node=a))
    r.site(L.site(f, a, "post-state / action"))
    ok_post = bool(post_tr) and all("call:copy" not in x for x in post_tr) and \
        not [x for x in p.trace(post) if not parsed(x) and x[0].startswith(("param:", "fresh:", "ext:", "const:"))]
    act_tr = p.trace(act)
    # what is read from the token sequence for the action enters parse_action_call / parse_joint_action as their first parameter (the call AST)
    readers = {}
    for nm in ("parse_action_call", "parse_joint_action"):
        m_ = repo.find_method("TrajectoryParser", nm)
        readers[nm] = m_.params[1] if m_ is not None and len(m_.params) > 1 else None
    from_tokens = [x for x in act_tr if "call:parse" in x and any(s_.endswith(":parse_action_call") or s_.endswith(":parse_joint_action") for s_ in x)]
    ok_act = bool(from_tokens) and all(any(s_ == f"arg0:{nm}" or (first and s_ == f"kw:{first}:{nm}") for nm, first in readers.items() for s_ in x)
                                       for x in from_tokens)
    if ok_post and ok_act:
        r.ok({"post_state": "parse_state(item after the operator line)", "action": "parse_action_call | parse_joint_action"})
    else:
        r.fail(Finding("C10.thread", f, "post-or-action", "post-state / action of a component do not come from the operator line and the following :state item", node=a))
    # positions: the action of the k-th component is computed from item 1 + 2k of the token sequence, its post-state from item 2 + 2k
    # (however the items are reached: indices of a range, slices, zip / enumerate / count, an induction variable, records, tuples)
    r.site(f.qn + " [alternation]")

    def whole_sequence(e):
        tr = p.trace(e)
        return bool(tr) and all(x[-1] == "call:parse" for x in tr)

    pos = U.Positions(repo, f, whole_sequence)
    act_src, post_src = pos.sources(act), pos.sources(post)
    ok = len(act_src) == 1 and len(post_src) == 1
    if ok:
        (a,), (b,) = tuple(act_src), tuple(post_src)
        ok = len(a) == 3 and len(b) == 3 and a[:2] == (1, 2) and b[:2] == (2, 2) and a[2] is not None and a[2] == b[2]
    if ok:
        r.ok({"alternation": "operator at i, state at i+1, i = 1, 3, 5, ..."})
    else:
        fmt = lambda srcs: sorted("?" if x == pos.UNKNOWN else f"{x[0]}+{x[1]}k" for x in srcs)
        r.fail(Finding("C10.thread", f, "alternation", f"operator lines and states are not read alternately from index 1 (action from items {fmt(act_src)}, "
                       f"post-state from items {fmt(post_src)})"))
    # missing :state / unknown operator keyword raise
    r.site(f.qn + " [rejections]")
    tests = {id(n): (k, pos) for n, k, pos in _keyword_tests(repo, f) if k in ("operator:", "operators:", ":state")}

    def matcher(e):
        if id(e) in tests:
            k, pos = tests[id(e)]
            return k if pos else "!" + k
        return None

    G = L.Guards(f, matcher)
    an = g.node_containing(a)
    s1 = G.reach({"operator:": False, "operators:": False, ":state": True})
    s2 = G.reach({"operator:": True, "operators:": False, ":state": False})
    if not {"operator:", "operators:", ":state"} <= G.atoms_seen:
        r.fail(Finding("C10.thread", f, "rejections", f"the reader does not test the heads 'operator:' / 'operators:' / ':state' (tests seen: {sorted(G.atoms_seen)})"))
    elif an not in s1 and an not in s2:
        r.ok({"unknown_operator_keyword": "raises", "missing_state": "raises"})
    else:
        r.fail(Finding("C10.thread", f, "rejections", "a component is added although the operator keyword is unknown or the :state item is missing"))
    # objects
    r.site(f.qn + " [objects]")
    apo = [c for c in L.calls_in(f.node) if callee_name(c) == "add_problem_objects"]
    srcs = set()
    for c in apo:
        for x in p.trace(c.args[0]):
            if "attr:objects" in x:
                srcs.add("problem.objects")
            if any(s_.endswith("deduce_problem_objects") for s_ in x):
                srcs.add("deduced from the first state")
    if srcs == {"problem.objects", "deduced from the first state"}:
        r.ok({"objects": sorted(srcs)})
    else:
        r.fail(Finding("C10.thread", f, "objects", f"observation objects come from {sorted(srcs)}"))
    r.require_sites(5)
    return r


def rule_call(repo: Repo) -> RuleResult:
    r = RuleResult("C10.call", "action calls keep name and arguments in order; joint actions keep one entry per agent, nop as nop",
                   "the same sequence of action calls")
    f = L.fn(repo, "TrajectoryParser.parse_action_call")
    p = L.prov(repo, f)
    r.site(f.qn)
    ctor = [c for c in L.calls_in(f.node) if callee_name(c) == "ActionCall"]
    init = repo.find_method("ActionCall", "__init__")
    ok = False
    if ctor:
        nm, ps = L.arg_of(ctor[0], init, "name"), L.arg_of(ctor[0], init, "grounded_parameters")
        tn, tp = p.trace(nm), p.trace(ps)
        ok = any(x[-2:] == ("item:0", "item:0") for x in tn) and any(x[-2:] == ("item:0", "slice:1:") for x in tp)
    if ok:
        r.ok({"name": "call[0][0]", "parameters": "call[0][1:]"})
    else:
        r.fail(Finding("C10.call", f, "action-call", "name / parameters of the action call are not the first token / the remaining tokens"))
    j = L.fn(repo, "TrajectoryParser.parse_joint_action")
    pj = L.prov(repo, j)
    r.site(j.qn)
    loops = [n for n in ast.walk(j.node) if isinstance(n, ast.For)]
    ok = False
    if loops:
        it = loops[0].iter
        okzip = isinstance(it, ast.Call) and callee_name(it) == "zip" and any(all(x == ("param:joint_action_call_ast",) for x in pj.trace(a)) for a in it.args)
        paths = C.acyclic_paths(C.cfg_of(j.node), C.cfg_of(j.node).node_of(loops[0]), lambda n: False)
        g = C.cfg_of(j.node)
        apps = {g.node_containing(c) for c in L.calls_in(loops[0]) if isinstance(c.func, ast.Attribute) and c.func.attr == "append"}
        counts = {sum(1 for n, _ in pt[1:] if n in apps) for pt in paths if len(pt) > 1 and pt[0][1] == "iter"}
        ok = okzip and counts == {1}
    if ok:
        r.ok({"joint_action": "one ActionCall appended per entry, in order"})
    else:
        r.fail(Finding("C10.call", j, "joint-action", "a joint action line does not yield exactly one action call per entry in order"))
    r.require_sites(2)
    return r


def rules(repo: Repo, tier: str) -> List[RuleResult]:
    return [
        rule_keywords(repo), rule_siblings(repo), rule_thread(repo),
        c01.rule_nodrop(repo, "C10.nodrop", (TP,), 1, only={"TrajectoryParser.parse_state"}, anchors=["TrajectoryParser.parse_state"]),
        c05.rule_value(repo, "C10.value", "TrajectoryParser.parse_state", "state_fluents"),
        c16.rule_export(repo, "C10.export", "TrajectoryExporter", "operator:"),
        rule_call(repo),
        c14.rule_serialize(repo, "C10.fields"), c08.rule_valuetext(repo, "C10.valuetext"),
        c01.rule_dupkeys(repo, "C10.dupkeys", ["TrajectoryParser.parse_grounded_numeric_fluent"]),
        c07.rule_global(repo, "C10.global"),
    ]
