"""Local engine pieces of C19 (candidates for promotion into sa/lib.py).

  * `anchor(repo, spec)`      -- the public function with every same-class / same-module callee inlined (private or not)
  * `View(repo, f, G, val)`   -- a flattened function under a valuation of guard atoms:
        - reaching definitions recomputed on the part of the CFG the valuation allows (so `x = A; if c: x = B; return x` has ONE
          definition of x at the return under c=True -- the unrestricted chains filtered by reachability keep both);
        - `alts(expr)`      the expressions a value can come from (aliases, conditional expressions, tuple pairing, module constants);
        - `chains(expr)`    (operations, base): the method calls / subscripts applied on the way from a base value to `expr`;
        - `lists(expr)`     shapes (sa.strshape) of every list the expression can denote, evaluated with the restricted definitions.

Nothing here looks at local variable names or source text.
"""
from __future__ import annotations

import ast
import re
from typing import Dict, List, Optional, Set, Tuple

from .. import cfg as C
from .. import lib as L
from .. import strshape as S
from ..core import FuncInfo, Repo


# --------------------------------------------------------------------------------------------------------- anchors
def anchor(repo: Repo, spec: str) -> FuncInfo:
    """`spec` flattened; besides private helpers also the other methods of its class and the functions of its module are inlined,
    so it does not matter whether a helper is private, public, static or a module function"""
    f0 = repo.func(spec)
    also: Set[str] = set()
    if f0.cls and f0.cls in repo.classes:
        for c in repo.mro(f0.cls):
            also |= {m for m in repo.classes[c].methods if not (m.startswith("__") and m.endswith("__"))}
    for g in repo.all_funcs():
        if g.mod is f0.mod and g.cls is None:
            also.add(g.name)
    also.discard(f0.name)
    return L.fn(repo, spec, depth=8, also=also or None)


# --------------------------------------------------------------------------------------------------------- values
class Leaf:
    """an expression a value comes from; `mod` is set when the node lives at module level (a constant), `via` lists the global
    names that were followed to get there"""

    def __init__(self, node: ast.AST, mod: Optional[str] = None, via: Tuple[str, ...] = ()):
        self.node, self.mod, self.via = node, mod, via


Op = Tuple[str, Tuple[object, ...], Optional[ast.AST]]     # (name, constant arguments or ('?',) , node)

TRANSPARENT = ("list", "tuple", "iter")
REORDER = ("sorted", "reversed", "set", "frozenset")


def is_empty_list(n: ast.AST) -> bool:
    if isinstance(n, (ast.List, ast.Tuple)) and not n.elts:
        return True
    return isinstance(n, ast.Call) and isinstance(n.func, ast.Name) and n.func.id == "list" and not n.args and not n.keywords


def const_int(e: Optional[ast.AST]):
    if isinstance(e, ast.Constant) and isinstance(e.value, int) and not isinstance(e.value, bool):
        return e.value
    if isinstance(e, ast.UnaryOp) and isinstance(e.op, ast.USub) and isinstance(e.operand, ast.Constant) and isinstance(e.operand.value, int):
        return -e.operand.value
    return None


class View:
    def __init__(self, repo: Repo, f: FuncInfo, G: L.Guards, valuation: Dict[str, bool]):
        self.repo, self.f, self.G, self.g = repo, f, G, G.g
        self.valuation = dict(valuation)
        self.val, self.seen = G.under(self.valuation)
        self.p = L.prov(repo, f)
        self._full = L.rd_of(f)
        self._in: Dict[int, Set[Tuple[str, int]]] = {}
        self.aug_transparent: Set[str] = set()
        self._solve()
        self.ev = _Ev(repo, f)
        self.ev.rd = self          # the shape evaluator follows the restricted definitions

    # ---------------------------------------------------------------- restricted reaching definitions
    def _allowed(self, n: int, label) -> bool:
        kind, st = self.g.kind[n], self.g.stmt[n]
        if kind == "if" or (kind == "loop" and isinstance(st, ast.While)):
            bv = C.eval3(st.test, self.val)
            if kind == "if" and bv is not None and label != bv:
                return False
            if kind == "loop" and bv is not None and label in ("iter", "done") and (label == "iter") != bv:
                return False
        if kind == "assert":
            bv = C.eval3(st.test, self.val)
            if (bv is True and label == "fail") or (bv is False and label == "ok"):
                return False
        return True

    def _solve(self) -> None:
        g = self.g
        nodes = [n for n in g.nodes() if n in self.seen]
        gen: Dict[int, Set[Tuple[str, int]]] = {}
        kill: Dict[int, Set[str]] = {}
        for n in nodes:
            names = set(self.f.params) if n == g.entry else C.defs_of(g.stmt[n])
            gen[n] = {(x, n) for x in names}
            kill[n] = names
        preds: Dict[int, List[int]] = {n: [] for n in nodes}
        succs: Dict[int, List[int]] = {n: [] for n in nodes}
        for n in nodes:
            for m, l in g.succ[n]:
                if m in self.seen and self._allowed(n, l):
                    preds[m].append(n)
                    succs[n].append(m)
        IN = {n: set() for n in nodes}
        OUT = {n: set(gen[n]) for n in nodes}
        work = list(nodes)
        while work:
            n = work.pop()
            new_in: Set[Tuple[str, int]] = set()
            for q in preds[n]:
                new_in |= OUT[q]
            IN[n] = new_in
            new_out = {d for d in new_in if d[0] not in kill[n]} | gen[n]
            if new_out != OUT[n]:
                OUT[n] = new_out
                work.extend(succs[n])
        self._in = IN

    def defs_reaching(self, node: int, name: str) -> Set[int]:
        """same interface as cfg.ReachingDefs.  For the names in `aug_transparent` an augmented assignment (`xs += [..]`: an
        in-place extension of a list) is a mutation, not a definition: the definitions that reach IT are returned instead."""
        if node in self._in:
            ds = {d for (x, d) in self._in[node] if x == name}
        else:
            ds = self._full.defs_reaching(node, name)
        if name in self.aug_transparent:
            done: Set[int] = set()
            while any(isinstance(self.g.stmt[d], ast.AugAssign) for d in ds):
                nxt: Set[int] = set()
                for d in ds:
                    if isinstance(self.g.stmt[d], ast.AugAssign):
                        if d not in done:
                            done.add(d)
                            nxt |= {x for x in (self.defs_reaching_raw(d, name))}
                    else:
                        nxt.add(d)
                ds = nxt
        return ds

    def defs_reaching_raw(self, node: int, name: str) -> Set[int]:
        if node in self._in:
            return {d for (x, d) in self._in[node] if x == name}
        return self._full.defs_reaching(node, name)

    # ---------------------------------------------------------------- helpers
    def node_of(self, e: ast.AST) -> Optional[int]:
        try:
            return self.p.node_of(e)
        except KeyError:
            return None

    def reachable(self, e: ast.AST) -> bool:
        n = self.node_of(e)
        return n is not None and n in self.seen and self.G.reaches_expr(self.valuation, e, seen=self.seen)

    def returns(self) -> List[ast.Return]:
        g = self.g
        return [g.stmt[n] for n in sorted(self.seen) if g.kind[n] == "return"]

    def _global(self, name: str, mod: str):
        r = self.repo.lookup(mod, name)
        if r and r[0] == "const":
            return r[1], r[2]
        return None

    def _class_const(self, e: ast.Attribute):
        """self.X / Class.X where X is assigned once in the class body and nowhere through an instance: (value node, module)"""
        if not (isinstance(e.value, ast.Name) and self.f.cls and self.f.cls in self.repo.classes):
            return None
        recv = e.value.id
        if not (recv == self.f.self_name or recv == self.f.cls or recv == "cls"):
            return None
        if recv != self.f.cls:
            n = self.node_of(e.value)
            if n is not None and self.defs_reaching(n, recv) - {self.g.entry}:
                return None
        for c in self.repo.mro(self.f.cls):
            ci = self.repo.classes[c]
            vals = [b.value for b in ci.node.body if (isinstance(b, ast.Assign) and any(isinstance(t, ast.Name) and t.id == e.attr for t in b.targets))
                    or (isinstance(b, ast.AnnAssign) and isinstance(b.target, ast.Name) and b.target.id == e.attr and b.value is not None)]
            if vals:
                stored = any(isinstance(x, ast.Attribute) and x.attr == e.attr and isinstance(x.ctx, ast.Store) for x in ast.walk(ci.node))
                return None if stored or len(vals) != 1 else (vals[0], ci.mod)
        return None

    def is_module_ref(self, e: ast.AST, modname: str, ctx_mod: Optional[str] = None) -> bool:
        """the expression names the external module `modname` (import re / import re as regex)"""
        if not isinstance(e, ast.Name):
            return False
        if ctx_mod is None:
            n = self.node_of(e)
            if n is not None and self.defs_reaching(n, e.id):
                return False
        r = self.repo.lookup(ctx_mod or self.f.mod.name, e.id)
        return bool(r) and r[0] in ("module", "external") and (r[1] == modname or r[1] == (modname, None))

    def external_attr(self, e: ast.AST, modname: str, ctx_mod: Optional[str] = None) -> Optional[str]:
        """`re.X` / `from re import X [as Y]` -> 'X'"""
        if isinstance(e, ast.Attribute) and self.is_module_ref(e.value, modname, ctx_mod):
            return e.attr
        if isinstance(e, ast.Name):
            if ctx_mod is None:
                n = self.node_of(e)
                if n is not None and self.defs_reaching(n, e.id):
                    return None
            r = self.repo.lookup(ctx_mod or self.f.mod.name, e.id)
            if r and r[0] == "external" and isinstance(r[1], tuple) and r[1][0] == modname and r[1][1]:
                return r[1][1]
        return None

    # ---------------------------------------------------------------- alternatives
    @staticmethod
    def _paired(target: ast.AST, value: ast.AST, name: str) -> Optional[ast.AST]:
        if isinstance(target, ast.Name):
            return value if target.id == name else None
        if isinstance(target, (ast.Tuple, ast.List)) and isinstance(value, (ast.Tuple, ast.List)) and len(target.elts) == len(value.elts) \
                and not any(isinstance(x, ast.Starred) for x in list(target.elts) + list(value.elts)):
            for te, ve in zip(target.elts, value.elts):
                if name in C.target_names(te):
                    return View._paired(te, ve, name)
        return None

    def _def_value(self, d: int, name: str) -> Optional[ast.AST]:
        """the expression assigned to `name` by the definition at node d (None when it is not a plain assignment)"""
        st = self.g.stmt[d]
        if isinstance(st, ast.Assign):
            for t in st.targets:
                if name in C.target_names(t):
                    return self._paired(t, st.value, name)
            return None
        if isinstance(st, ast.AnnAssign) and st.value is not None and isinstance(st.target, ast.Name):
            return st.value
        h = C.header(st) if st is not None else None
        if h is not None and not isinstance(st, (ast.For, ast.With, ast.AugAssign)):
            for n in ast.walk(h):
                if isinstance(n, ast.NamedExpr) and isinstance(n.target, ast.Name) and n.target.id == name:
                    return n.value
        return None

    def alts(self, e: ast.AST, mod: Optional[str] = None, alias_only: bool = False, _via: Tuple[str, ...] = (), _vis: frozenset = frozenset(),
             _depth: int = 0) -> List[Leaf]:
        """where the value of `e` can come from under the valuation.  alias_only: definitions are followed only while they are plain
        copies / choices (the name that holds a freshly built container stays a leaf, so that its later mutations are seen)"""
        if _depth > 30:
            return [Leaf(e, mod, _via)]
        R = lambda x, **kw: self.alts(x, kw.get("mod", mod), alias_only, kw.get("via", _via), kw.get("vis", _vis), _depth + 1)
        if isinstance(e, ast.IfExp):
            tv = C.eval3(e.test, self.val) if mod is None else None
            if tv is True:
                return R(e.body)
            if tv is False:
                return R(e.orelse)
            return R(e.body) + R(e.orelse)
        if isinstance(e, ast.NamedExpr):
            return R(e.value)
        if isinstance(e, ast.Attribute) and isinstance(e.ctx, ast.Load) and mod is None:
            cc = self._class_const(e)
            if cc is not None and ("c", e.attr) not in _vis:
                return R(cc[0], mod=cc[1], via=_via + (e.attr,), vis=_vis | {("c", e.attr)})
        if not (isinstance(e, ast.Name) and isinstance(e.ctx, ast.Load)):
            return [Leaf(e, mod, _via)]
        if mod is not None:
            gl = self._global(e.id, mod)
            if gl is None or ("g", mod, e.id) in _vis:
                return [Leaf(e, mod, _via)]
            return R(gl[0], mod=gl[1], via=_via + (e.id,), vis=_vis | {("g", mod, e.id)})
        if self.p._comp_binding(e) is not None:
            return [Leaf(e, None, _via)]
        at = self.node_of(e)
        if at is None:
            return [Leaf(e, None, _via)]
        ds = self.defs_reaching(at, e.id)
        if not ds:
            gl = self._global(e.id, self.f.mod.name)
            if gl is None:
                return [Leaf(e, None, _via)]
            return R(gl[0], mod=gl[1], via=_via + (e.id,), vis=_vis | {("g", gl[1], e.id)})
        out: List[Leaf] = []
        stop = False
        for d in sorted(ds):
            if (e.id, d) in _vis or d == self.g.entry:
                stop = True
                continue
            v = self._def_value(d, e.id)
            if v is None:
                stop = True
                continue
            if alias_only and not isinstance(v, (ast.Name, ast.IfExp, ast.NamedExpr)):
                whole = getattr(self.g.stmt[d], "value", None) is v
                if len(ds) == 1 and (whole or e.id in getattr(self.p, "_content", {})):
                    stop = True                         # the name that holds the container: its mutations are looked at
                else:
                    out.append(Leaf(v, None, _via))     # one of several definitions / one side of a tuple assignment: the built value
                continue
            out += R(v, vis=_vis | {(e.id, d)})
        if stop:
            out.append(Leaf(e, None, _via))
        return out

    # ---------------------------------------------------------------- operation chains
    def chains(self, e: ast.AST, mod: Optional[str] = None, _depth: int = 0, stop=None) -> List[Tuple[Tuple[Op, ...], Leaf]]:
        """[(operations applied innermost-first, base leaf)] for every alternative of e; an expression for which stop(node, mod)
        holds is a base"""
        out: List[Tuple[Tuple[Op, ...], Leaf]] = []
        if _depth > 30:
            return [((), Leaf(e, mod))]
        for leaf in self.alts(e, mod):
            n, m = leaf.node, leaf.mod
            inner: Optional[ast.AST] = None
            op: Optional[Op] = None
            if stop is not None and stop(n, m):
                pass
            elif isinstance(n, ast.Call) and isinstance(n.func, ast.Attribute) and not self._is_module_attr(n.func, m):
                args: Tuple[object, ...] = tuple(a.value if isinstance(a, ast.Constant) else (const_int(a) if const_int(a) is not None else "?") for a in n.args) + \
                    tuple(f"{k.arg}=" + (repr(k.value.value) if isinstance(k.value, ast.Constant) else "?") for k in n.keywords)
                inner, op = n.func.value, (n.func.attr, args, n)
            elif isinstance(n, ast.Call) and isinstance(n.func, ast.Name) and n.args and n.func.id in TRANSPARENT + REORDER + ("str",) \
                    and not (m is None and self._local(n.func)):
                plain = len(n.args) == 1 and not n.keywords
                if n.func.id in REORDER:
                    inner, op = n.args[0], (n.func.id, () if plain else ("?",), n)
                elif plain:
                    inner = n.args[0]
            elif isinstance(n, ast.Subscript):
                if isinstance(n.slice, ast.Slice):
                    inner, op = n.value, ("slice", (), n)
                else:
                    ci = const_int(n.slice)
                    inner, op = n.value, ("item", (ci if ci is not None else "?",), n)
            elif isinstance(n, ast.FormattedValue) and n.format_spec is None and n.conversion in (-1, 115):
                inner = n.value
            elif isinstance(n, ast.JoinedStr) and len(n.values) == 1 and isinstance(n.values[0], ast.FormattedValue) \
                    and n.values[0].format_spec is None and n.values[0].conversion in (-1, 115):
                inner = n.values[0].value
            if inner is None:
                out.append(((), leaf))
                continue
            for ops, base in self.chains(inner, m, _depth + 1, stop):
                out.append((ops + ((op,) if op is not None else ()), Leaf(base.node, base.mod, base.via + leaf.via)))
        return out

    def _is_module_attr(self, fn: ast.Attribute, mod: Optional[str]) -> bool:
        """`re.finditer` -- an attribute of an imported module, not a method call on a value"""
        v = fn.value
        if not isinstance(v, ast.Name):
            return False
        if mod is None:
            n = self.node_of(v)
            if n is not None and self.defs_reaching(n, v.id):
                return False
            if self.p._comp_binding(v) is not None:
                return False
        r = self.repo.lookup(mod or self.f.mod.name, v.id)
        return bool(r) and r[0] in ("module", "external")

    # ---------------------------------------------------------------- constants
    def strings(self, e: ast.AST, mod: Optional[str] = None) -> List[Tuple[Optional[str], Leaf]]:
        """constant text of every alternative of the expression (None when an alternative is not a constant)"""
        out = []
        for leaf in self.alts(e, mod):
            n = leaf.node
            if isinstance(n, ast.Constant) and isinstance(n.value, str):
                out.append((n.value, leaf))
                continue
            ok, v = (False, None)
            if leaf.mod is not None or not any(isinstance(x, ast.Name) and self._local(x) for x in ast.walk(n)):
                ok, v = self.repo.fold(n, leaf.mod or self.f.mod.name)
            out.append((v if ok and isinstance(v, str) else None, leaf))
        return out

    def _local(self, name: ast.Name) -> bool:
        n = self.node_of(name)
        return n is not None and bool(self.defs_reaching(n, name.id))

    # ---------------------------------------------------------------- lists
    def lists(self, e: ast.AST, _depth: int = 0) -> List[Tuple[str, object, ast.AST]]:
        """every list the expression can denote:
        ('empty', None, node) | ('seq', strshape.Seq, node) | ('partial', why, node): interpreted, but only a part / a filtered
        copy of a list | ('opaque', why, node): not interpreted"""
        out: List[Tuple[str, object, ast.AST]] = []
        for leaf in self.alts(e, alias_only=True):
            n = leaf.node
            if leaf.mod is not None:
                out.append(("opaque", "a module-level value", n))
                continue
            if is_empty_list(n):
                out.append(("empty", None, n))
                continue
            if isinstance(n, ast.Call) and isinstance(n.func, ast.Name) and n.func.id in TRANSPARENT + REORDER and n.args and _depth < 8 \
                    and not self._local(n.func) and not isinstance(n.args[0], (ast.ListComp, ast.GeneratorExp, ast.SetComp)):
                for k, sq, nn in self.lists(n.args[0], _depth + 1):
                    if k == "seq" and n.func.id in REORDER:
                        sq = S.Seq(sq.items, n.func.id)
                    out.append((k, sq, nn if k != "seq" else n))
                continue
            if isinstance(n, ast.Subscript) and isinstance(n.slice, ast.Slice) and _depth < 8:
                inner = self.lists(n.value, _depth + 1)
                if inner and all(k in ("seq", "empty", "partial") for k, _s, _n in inner):
                    out.append(("partial", "a slice of the list", n))
                    continue
            try:
                seq = self.ev.sequence(n)
            except S.NotInterpretable as ex:
                out.append(("opaque", str(ex), n))
                continue
            except (KeyError, RecursionError) as ex:   # expression outside the CFG
                out.append(("opaque", f"not located ({type(ex).__name__})", n))
                continue
            if not seq.items and not seq.ordered:
                out.append(("empty", None, n))
            else:
                out.append(("seq", seq, n))
        return out

    def loop_var(self, loop: S.Loop) -> Tuple[Optional[ast.AST], ast.AST, bool]:
        """(element target, iterated expression, enumerate-wrapped) of a repetition"""
        tgt, it = loop.target, loop.iter
        for leaf in self.alts(it) if isinstance(it, ast.Name) else [Leaf(it)]:
            n = leaf.node
            if isinstance(n, ast.Call) and isinstance(n.func, ast.Name) and n.func.id == "enumerate" and n.args and \
                    isinstance(tgt, (ast.Tuple, ast.List)) and len(tgt.elts) == 2:
                return tgt.elts[1], n.args[0], True
        return tgt, it, False

    def bound_by(self, name: ast.AST, loop: S.Loop, target: Optional[ast.AST]) -> bool:
        """the Name is the element variable `target` of that repetition (for statement or comprehension)"""
        if not (isinstance(name, ast.Name) and isinstance(target, ast.Name) and name.id == target.id):
            return False
        node = loop.node
        if isinstance(node, ast.For):
            at = self.node_of(name)
            ds = self.defs_reaching(at, name.id) if at is not None else set()
            return bool(ds) and all(self.g.stmt[d] is node for d in ds)
        if isinstance(node, (ast.ListComp, ast.SetComp, ast.GeneratorExp)):
            gen = self.p._comp_binding(name)
            return gen is not None and gen != "lambda" and any(gen is x for x in node.generators)
        return False


class _Ev(S.Evaluator):
    """strshape evaluator + printf-style templates ('(%s)\\n' % x)"""

    def _list_name(self, e: ast.Name, depth: int) -> S.Seq:
        tr = getattr(self.rd, "aug_transparent", None)
        if tr is None or e.id in tr:
            return super()._list_name(e, depth)
        tr.add(e.id)
        try:
            return super()._list_name(e, depth)
        finally:
            tr.discard(e.id)

    def string(self, e: ast.AST, depth: int = 0) -> S.Shape:
        if isinstance(e, ast.BinOp) and isinstance(e.op, ast.Mod) and depth <= 25:
            t = self.string(e.left, depth + 1)
            if isinstance(t, S.Lit):
                pieces = re.split(r"(%%|%s)", t.text)
                args = list(e.right.elts) if isinstance(e.right, ast.Tuple) else [e.right]
                if "%" not in "".join(x for x in pieces if x not in ("%%", "%s")) and pieces.count("%s") == len(args):
                    parts: List[S.Shape] = []
                    for x in pieces:
                        if x == "%s":
                            parts.append(self.string(args.pop(0), depth + 1))
                        elif x == "%%":
                            parts.append(S.Lit("%"))
                        elif x:
                            parts.append(S.Lit(x))
                    return S.Cat(parts)
            return S.Hole(e)
        return super().string(e, depth)


# --------------------------------------------------------------------------------------------------------- regular expressions
def re_flag_value(view: View, e: Optional[ast.AST], mod: Optional[str] = None, _depth: int = 0) -> Optional[int]:
    """integer value of a flags expression (re.MULTILINE | re.S, module constants, 0); None when it cannot be decided"""
    if e is None:
        return 0
    if _depth > 10:
        return None
    vals: List[Optional[int]] = []
    for leaf in view.alts(e, mod):
        n, m = leaf.node, leaf.mod
        if isinstance(n, ast.Constant) and isinstance(n.value, int):
            vals.append(int(n.value))
            continue
        a = view.external_attr(n, "re", m)
        if a is not None:
            v = getattr(re, a, None)
            vals.append(int(v) if isinstance(v, int) else None)
            continue
        if isinstance(n, ast.BinOp) and isinstance(n.op, ast.BitOr):
            l, r_ = re_flag_value(view, n.left, m, _depth + 1), re_flag_value(view, n.right, m, _depth + 1)
            vals.append(None if l is None or r_ is None else l | r_)
            continue
        vals.append(None)
    if not vals or any(v is None for v in vals):
        return None
    acc = 0
    for v in vals:      # several alternatives: a flag that may be set counts as set
        acc |= v
    return acc


class Scan:
    """one use of a regular expression: re.<fn>(pattern, text, flags) or <compiled>.<fn>(text)"""

    def __init__(self, call: ast.Call, fn: str, pattern: Optional[ast.AST], pattern_mod: Optional[str], text: Optional[ast.AST],
                 flags: Optional[int], extra_positional: bool):
        self.call, self.fn, self.pattern, self.pattern_mod, self.text, self.flags, self.extra_positional = \
            call, fn, pattern, pattern_mod, text, flags, extra_positional


RE_FUNCS = ("finditer", "findall", "search", "match", "fullmatch")


def scan_of(view: View, call: ast.AST, mod: Optional[str] = None) -> Optional[Scan]:
    if not (isinstance(call, ast.Call) and isinstance(call.func, (ast.Attribute, ast.Name))):
        return None
    kw = {k.arg: k.value for k in call.keywords if k.arg}
    direct = view.external_attr(call.func, "re", mod)
    if direct in RE_FUNCS:
        pat = call.args[0] if call.args else kw.get("pattern")
        txt = call.args[1] if len(call.args) > 1 else kw.get("string")
        fl = call.args[2] if len(call.args) > 2 else kw.get("flags")
        return Scan(call, direct, pat, mod, txt, re_flag_value(view, fl, mod), False)
    if isinstance(call.func, ast.Attribute) and call.func.attr in RE_FUNCS:
        for ops, base in view.chains(call.func.value, mod):
            b = base.node
            if not ops and isinstance(b, ast.Call) and view.external_attr(b.func, "re", base.mod) == "compile":
                kw2 = {k.arg: k.value for k in b.keywords if k.arg}
                pat = b.args[0] if b.args else kw2.get("pattern")
                fl = b.args[1] if len(b.args) > 1 else kw2.get("flags")
                txt = call.args[0] if call.args else kw.get("string")
                return Scan(call, call.func.attr, pat, base.mod, txt, re_flag_value(view, fl, base.mod), len(call.args) > 1 or bool(set(kw) - {"string"}))
    return None


def find_calls(view: View, e: ast.AST, _depth: int = 0) -> Set[int]:
    """ids of the str.find / str.rfind calls whose result (possibly shifted by arithmetic) is the value of e"""
    out: Set[int] = set()
    if _depth > 12:
        return out
    for leaf in view.alts(e):
        n = leaf.node
        if leaf.mod is not None:
            continue
        if isinstance(n, ast.Call) and isinstance(n.func, ast.Attribute) and n.func.attr in ("find", "rfind"):
            out.add(id(n))
        elif isinstance(n, ast.BinOp):
            out |= find_calls(view, n.left, _depth + 1) | find_calls(view, n.right, _depth + 1)
        elif isinstance(n, ast.IfExp):
            out |= find_calls(view, n.body, _depth + 1) | find_calls(view, n.orelse, _depth + 1)
    return out


def absent_matcher(view: View, target: Set[int]):
    """guard atom 'absent': the result of (one of) the given find calls is -1"""
    def side(x):
        return bool(find_calls(view, x) & target)

    def matcher(e):
        if not (isinstance(e, ast.Compare) and len(e.ops) == 1):
            return None
        l, r_, op = e.left, e.comparators[0], e.ops[0]
        c, flip = const_int(r_), False
        x = l
        if c is None:
            c, x, flip = const_int(l), r_, True
        if c is None or isinstance(x, ast.Constant) or not side(x):
            return None
        if flip:
            op = {ast.Lt: ast.Gt, ast.Gt: ast.Lt, ast.LtE: ast.GtE, ast.GtE: ast.LtE}.get(type(op), type(op))()
        t = type(op)
        if (t, c) in ((ast.GtE, 0), (ast.Gt, -1), (ast.NotEq, -1)):
            return "!absent"
        if (t, c) in ((ast.Lt, 0), (ast.LtE, -1), (ast.Eq, -1)):
            return "absent"
        return None

    return matcher
