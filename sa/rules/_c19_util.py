"""Local engine pieces of C19 (candidates for promotion into sa/lib.py).

  * `anchor(repo, spec)`      -- the public function with every same-class / same-module callee inlined (private or not), normalised
                                 and re-flattened until stable
  * `Normaliser`              -- AST -> AST normal form of a flattened function: callable values applied symbolically (lambdas,
                                 closures, operator.methodcaller / attrgetter / itemgetter, functools.partial, bound-method aliases),
                                 map / filter -> generator expressions, loops / comprehensions over comprehensions fused, constant
                                 tables indexed, record (NamedTuple / dataclass) fields, properties and one-expression methods resolved
  * `View(repo, f, G, val)`   -- a flattened function under a valuation of guard atoms:
        - reaching definitions recomputed on the part of the CFG the valuation allows (so `x = A; if c: x = B; return x` has ONE
          definition of x at the return under c=True -- the unrestricted chains filtered by reachability keep both);
        - `alts(expr)`      the expressions a value can come from (aliases, conditional expressions, tuple pairing, module constants);
        - `chains(expr)`    (operations, base): the method calls / subscripts applied on the way from a base value to `expr`;
        - `lists(expr)`     shapes (sa.strshape) of every list the expression can denote, evaluated with the restricted definitions.

Nothing here looks at local variable names or source text.
"""
from __future__ import annotations

import ast
import copy
import itertools
import re
from typing import Dict, List, Optional, Set, Tuple

from .. import cfg as C
from .. import lib as L
from .. import strshape as S
from ..core import FuncInfo, Repo


# --------------------------------------------------------------------------------------------------------- anchors
def anchor(repo: Repo, spec: str) -> FuncInfo:
    """`spec` flattened; besides private helpers also the other methods of its class and the functions of its module are inlined,
    so it does not matter whether a helper is private, public, static or a module function.  The flattened body is then brought
    into a normal form (see `Normaliser`) and flattened again until nothing changes: helpers that were only reachable through a
    callable value (map(self._fmt, ..), a dispatch table, functools.partial) and generator helpers consumed inside an inlined
    helper are expanded as well"""
    cache = repo.__dict__.setdefault("_c19_anchors", {})
    if spec in cache:
        return cache[spec]
    from ..inline import Flattener
    f0 = repo.func(spec)
    also: Set[str] = set()
    if f0.cls and f0.cls in repo.classes:
        for c in repo.mro(f0.cls):
            also |= {m for m in repo.classes[c].methods if not (m.startswith("__") and m.endswith("__"))}
    for g in repo.all_funcs():
        if g.mod is f0.mod and g.cls is None:
            also.add(g.name)
    also.discard(f0.name)
    f = L.fn(repo, spec, depth=8, also=also or None)
    keep = cache.setdefault("#nodes", [])
    prev = ast.dump(f.node)
    for _round in range(4):
        node = copy.deepcopy(f.node)
        try:
            Normaliser(repo, f0, node).run()
        except (AttributeError, TypeError, ValueError, KeyError, IndexError, RecursionError):
            node = copy.deepcopy(f.node)      # an unexpected construct: judged as written (never less strict)
        g = FuncInfo(f0.mod, f0.cls, node, static=f0.static)
        g.qn = f0.qn
        h = Flattener(repo, g, 8, also or None).run()
        h.flat_of = f0
        keep.append(h.node)           # the engines cache by id(node): the node must stay alive
        cur = ast.dump(h.node)
        f = h
        if cur == prev:
            break
        prev = cur
    cache[spec] = f
    return f


# --------------------------------------------------------------------------------------------------------- normal form
_fresh = itertools.count(1)
SCOPES = (ast.FunctionDef, ast.AsyncFunctionDef, ast.Lambda, ast.ClassDef)
COMPS = (ast.ListComp, ast.SetComp, ast.GeneratorExp, ast.DictComp)
BOOL_CALLS = ("any", "all", "bool", "isinstance", "issubclass", "callable", "hasattr")
BOOL_METHODS = ("startswith", "endswith", "isdigit", "isalpha", "isalnum", "isspace", "islower", "isupper", "isidentifier")
OP_BIN = {"add": ast.Add, "concat": ast.Add, "sub": ast.Sub, "mul": ast.Mult, "mod": ast.Mod, "or_": ast.BitOr, "and_": ast.BitAnd,
          "floordiv": ast.FloorDiv, "truediv": ast.Div}
OP_CMP = {"eq": ast.Eq, "ne": ast.NotEq, "lt": ast.Lt, "le": ast.LtE, "gt": ast.Gt, "ge": ast.GtE, "is_": ast.Is, "is_not": ast.IsNot}


def _walk_scope(node: ast.AST):
    """ast.walk that does not enter nested function / class definitions (the definition node itself is yielded)"""
    todo = [node]
    first = True
    while todo:
        n = todo.pop()
        yield n
        if isinstance(n, SCOPES) and not first:
            continue
        first = False
        todo.extend(ast.iter_child_nodes(n))


def _relocate(e: ast.AST, at: ast.AST) -> ast.AST:
    """a substituted expression is reported (and ordered) at the place where it is put"""
    for x in ast.walk(e):
        if isinstance(x, (ast.expr, ast.stmt)):
            ast.copy_location(x, at)
    return e


class _Subst(ast.NodeTransformer):
    def __init__(self, mapping: Dict[str, ast.AST]):
        self.m = mapping

    def visit_Name(self, n):
        if isinstance(n.ctx, ast.Load) and n.id in self.m:
            return copy.deepcopy(self.m[n.id])
        return n


class _Rename(ast.NodeTransformer):
    def __init__(self, mapping: Dict[str, str]):
        self.m = mapping

    def visit_Name(self, n):
        if n.id in self.m:
            return ast.copy_location(ast.Name(id=self.m[n.id], ctx=n.ctx), n)
        return n


def _names(e: ast.AST, ctx=None) -> Set[str]:
    return {x.id for x in ast.walk(e) if isinstance(x, ast.Name) and (ctx is None or isinstance(x.ctx, ctx))}


def _bound_inside(e: ast.AST) -> Set[str]:
    """names bound by the expression itself (comprehension variables, lambda parameters, walrus targets)"""
    out = _names(e, ast.Store)
    for x in ast.walk(e):
        if isinstance(x, ast.Lambda):
            a = x.args
            out |= {y.arg for y in a.posonlyargs + a.args + a.kwonlyargs} | ({a.vararg.arg} if a.vararg else set()) | ({a.kwarg.arg} if a.kwarg else set())
    return out


class _Applicable:
    """a callable value that can be applied symbolically: apply(args, keywords) -> the expression the call evaluates, or None"""

    def __init__(self, apply):
        self.apply = apply


class Normaliser:
    """Rewrites a flattened function into an equivalent one in which values are computed by plain expressions:

      * calls of callable VALUES are replaced by what they evaluate: lambdas / one-expression local functions (closures), module
        level `NAME = lambda ..` / `NAME = operator.methodcaller(..)` / `NAME = TEMPLATE.format`, operator.* functions,
        operator.methodcaller / attrgetter / itemgetter, functools.partial, unbound `str.lower(x)`, `(A if c else B)(x)`;
      * `map(F, it)` / `filter(F, it)` become generator expressions, a `for` over a one-generator comprehension becomes a loop
        over its source (`for x in (E for y in IT if C): B` -> `for y in IT: if C: x = E; B`), a comprehension over a
        comprehension is fused, an iterator alias that is consumed once is put where it is consumed;
      * a constant dict indexed with a constant gives that value, a {True: A, False: B} table indexed with a boolean expression is
        `A if k else B` (also `.get`);
      * a field read from a freshly built NamedTuple / dataclass record (`R(a, b).x`, `r = R(a, b); r.x`, `r[0]`) is the argument;
      * `Class.method(self, ..)` in the anchor's class is `self.method(..)`.

    Nothing is decided here by names of locals or by source text: only bindings, imports and definitions are followed."""

    def __init__(self, repo: Repo, f0: FuncInfo, fn: ast.FunctionDef):
        self.repo, self.f0, self.fn = repo, f0, fn
        self.mod = f0.mod.name
        self.changed = False

    # ---------------------------------------------------------------- bindings of the function
    def _scan(self) -> None:
        fn = self.fn
        self.binds: Dict[str, List[ast.AST]] = {}       # name -> binding statements / markers
        self.loads: Dict[str, int] = {}
        self.unsafe_dict_use: Set[str] = set()
        a = fn.args
        for x in a.posonlyargs + a.args + a.kwonlyargs + ([a.vararg] if a.vararg else []) + ([a.kwarg] if a.kwarg else []):
            self.binds.setdefault(x.arg, []).append(x)
        simple: Dict[int, ast.AST] = {}
        self.tuple_assign: Dict[int, ast.Assign] = {}      # id(target Name) -> `a, b = x, y` statement
        for n in _walk_scope(fn):
            if n is fn:
                continue
            if isinstance(n, ast.Assign) and len(n.targets) == 1 and isinstance(n.targets[0], (ast.Tuple, ast.List)) and isinstance(n.value, (ast.Tuple, ast.List)):
                for x in ast.walk(n.targets[0]):
                    if isinstance(x, ast.Name):
                        self.tuple_assign[id(x)] = n
            if isinstance(n, (ast.FunctionDef, ast.AsyncFunctionDef, ast.ClassDef)):
                self.binds.setdefault(n.name, []).append(n)
            elif isinstance(n, ast.Assign) and len(n.targets) == 1 and isinstance(n.targets[0], ast.Name):
                simple[id(n.targets[0])] = n
            elif isinstance(n, ast.AnnAssign) and isinstance(n.target, ast.Name) and n.value is not None:
                simple[id(n.target)] = n
            elif isinstance(n, ast.ExceptHandler) and n.name:
                self.binds.setdefault(n.name, []).append(n)
            elif isinstance(n, (ast.Import, ast.ImportFrom)):
                for al in n.names:
                    self.binds.setdefault((al.asname or al.name).split(".")[0], []).append(n)
            elif isinstance(n, (ast.Global, ast.Nonlocal)):
                for nm in n.names:
                    self.binds.setdefault(nm, []).append(n)
        for n in _walk_scope(fn):
            if isinstance(n, ast.Name) and isinstance(n.ctx, (ast.Store, ast.Del)):
                self.binds.setdefault(n.id, []).append(simple.get(id(n), n))
        for n in ast.walk(fn):
            if isinstance(n, ast.Name) and isinstance(n.ctx, ast.Load):
                self.loads[n.id] = self.loads.get(n.id, 0) + 1
            # names bound in nested scopes are treated as locals too (conservative)
            if isinstance(n, ast.Name) and isinstance(n.ctx, ast.Store) and n.id not in self.binds:
                self.binds[n.id] = [n, n]
            if isinstance(n, ast.arg) and n.arg not in self.binds:
                self.binds[n.arg] = [n, n]
        safe: Dict[str, int] = {}
        for n in ast.walk(fn):
            if isinstance(n, ast.Subscript) and isinstance(n.ctx, ast.Load) and isinstance(n.value, ast.Name):
                safe[n.value.id] = safe.get(n.value.id, 0) + 1
            elif isinstance(n, ast.Call) and isinstance(n.func, ast.Attribute) and n.func.attr == "get" and isinstance(n.func.value, ast.Name):
                safe[n.func.value.id] = safe.get(n.func.value.id, 0) + 1
        for nm, cnt in self.loads.items():
            if safe.get(nm, 0) != cnt:
                self.unsafe_dict_use.add(nm)

    def iterated_only(self, name: str) -> bool:
        """every use of the local is as the iterable of a `for` / the first iterable of a comprehension"""
        uses = 0
        for n in ast.walk(self.fn):
            its = [n.iter] if isinstance(n, ast.For) else [g.iter for g in n.generators] if isinstance(n, COMPS) else []
            uses += sum(1 for x in its if isinstance(x, ast.Name) and x.id == name)
        return uses > 0 and uses == self.loads.get(name, 0)

    def is_local(self, name: str) -> bool:
        return name in self.binds

    def single(self, name: str) -> Optional[ast.AST]:
        """the one binding of a local: an Assign / AnnAssign / FunctionDef statement"""
        b = self.binds.get(name)
        if b and len(b) == 1 and isinstance(b[0], (ast.Assign, ast.AnnAssign, ast.FunctionDef)):
            return b[0]
        return None

    # ---------------------------------------------------------------- references
    def _shadowed(self, e: ast.AST) -> bool:
        """a module-level expression put into the function would see a local instead of the global it names"""
        return any(self.is_local(x) for x in _names(e, ast.Load) - _bound_inside(e))

    def external(self, e: ast.AST, ctx_mod: Optional[str]) -> Optional[Tuple[str, str]]:
        """(module, attribute) for `operator.add` / `op.add` (import operator as op) / `add` (from operator import add)"""
        mod = ctx_mod or self.mod
        if isinstance(e, ast.Attribute) and isinstance(e.value, ast.Name) and not (ctx_mod is None and self.is_local(e.value.id)):
            r = self.repo.lookup(mod, e.value.id)
            if r and r[0] in ("module", "external"):
                m = r[1] if isinstance(r[1], str) else (r[1][0] if r[1][1] is None else None)
                if m:
                    return m, e.attr
        if isinstance(e, ast.Name) and not (ctx_mod is None and self.is_local(e.id)):
            r = self.repo.lookup(mod, e.id)
            if r and r[0] == "external" and isinstance(r[1], tuple) and r[1][1]:
                return r[1][0], r[1][1]
        return None

    def _builtin(self, e: ast.AST, name: str, ctx_mod: Optional[str] = None) -> bool:
        return isinstance(e, ast.Name) and e.id == name and not (ctx_mod is None and self.is_local(name)) and not self.repo.lookup(ctx_mod or self.mod, name)

    def _global_value(self, name: str, ctx_mod: Optional[str]):
        r = self.repo.lookup(ctx_mod or self.mod, name)
        if r and r[0] == "const":
            return r[1], r[2]
        return None

    # ---------------------------------------------------------------- callable values
    def _lam(self, args: ast.arguments, body: ast.AST, ctx_mod: Optional[str]) -> Optional[_Applicable]:
        if args.vararg or args.kwarg or args.kwonlyargs:
            return None
        params = [x.arg for x in args.posonlyargs + args.args]
        defaults = dict(zip(params[len(params) - len(args.defaults):], args.defaults))
        inner = _bound_inside(body)
        if inner & set(params):
            return None
        if ctx_mod is not None and any(self.is_local(x) for x in _names(body, ast.Load) - inner - set(params)):
            return None
        if any(isinstance(x, (ast.Yield, ast.YieldFrom, ast.Await)) for x in ast.walk(body)):
            return None

        def apply(cargs, ckws):
            if any(isinstance(x, ast.Starred) for x in cargs) or any(k.arg is None for k in ckws) or len(cargs) > len(params):
                return None
            bound: Dict[str, ast.AST] = dict(zip(params, cargs))
            for k in ckws:
                if k.arg not in params or k.arg in bound:
                    return None
                bound[k.arg] = k.value
            for p_ in params:
                if p_ not in bound:
                    if p_ not in defaults:
                        return None
                    bound[p_] = defaults[p_]
            if any(_names(v) & inner for v in bound.values()):
                return None     # a comprehension variable of the body would capture a name of the argument
            return _Subst(bound).visit(copy.deepcopy(body))

        return _Applicable(apply)

    def callable_value(self, e: ast.AST, ctx_mod: Optional[str] = None, bound_ok: bool = False, depth: int = 0) -> Optional[_Applicable]:
        if depth > 8:
            return None
        if isinstance(e, ast.Lambda):
            return self._lam(e.args, e.body, ctx_mod)
        if isinstance(e, ast.Name):
            if ctx_mod is None and self.is_local(e.id):
                b = self.single(e.id)
                if isinstance(b, ast.FunctionDef):
                    body = list(b.body)
                    if body and isinstance(body[0], ast.Expr) and isinstance(body[0].value, ast.Constant) and isinstance(body[0].value.value, str):
                        body = body[1:]
                    if len(body) == 1 and isinstance(body[0], ast.Return) and body[0].value is not None and not b.decorator_list:
                        return self._lam(b.args, body[0].value, None)
                    return None
                if b is not None:
                    return self.callable_value(b.value, None, True, depth + 1)
                return None
            gv = self._global_value(e.id, ctx_mod)
            if gv is not None:
                return self.callable_value(gv[0], gv[1], True, depth + 1)
            ext = self.external(e, ctx_mod)
            return self._external_fn(*ext) if ext else None
        if isinstance(e, ast.Attribute):
            ext = self.external(e, ctx_mod)
            if ext:
                return self._external_fn(*ext)
            if self._builtin(e.value, "str", ctx_mod):
                attr = e.attr

                def unbound(cargs, ckws):
                    if not cargs or isinstance(cargs[0], ast.Starred):
                        return None
                    return ast.Call(func=ast.Attribute(value=copy.deepcopy(cargs[0]), attr=attr, ctx=ast.Load()), args=[copy.deepcopy(x) for x in cargs[1:]],
                                    keywords=[copy.deepcopy(k) for k in ckws])
                return _Applicable(unbound)
            if bound_ok and not (isinstance(e.value, ast.Name) and self._names_module_or_class(e.value, ctx_mod)):
                if ctx_mod is not None and self._shadowed(e):
                    return None
                return _Applicable(lambda cargs, ckws: ast.Call(func=copy.deepcopy(e), args=[copy.deepcopy(x) for x in cargs], keywords=[copy.deepcopy(k) for k in ckws]))
            return None
        if isinstance(e, ast.Call):
            ext = self.external(e.func, ctx_mod)
            if ext is None or any(isinstance(x, ast.Starred) for x in e.args) or any(k.arg is None for k in e.keywords):
                return None
            if ctx_mod is not None and self._shadowed(e):
                return None
            if ext == ("operator", "methodcaller") and e.args and isinstance(e.args[0], ast.Constant) and isinstance(e.args[0].value, str):
                def mc(cargs, ckws):
                    if len(cargs) != 1 or ckws or isinstance(cargs[0], ast.Starred):
                        return None
                    return ast.Call(func=ast.Attribute(value=copy.deepcopy(cargs[0]), attr=e.args[0].value, ctx=ast.Load()),
                                    args=[copy.deepcopy(x) for x in e.args[1:]], keywords=[copy.deepcopy(k) for k in e.keywords])
                return _Applicable(mc)
            if ext == ("operator", "attrgetter") and len(e.args) == 1 and not e.keywords and isinstance(e.args[0], ast.Constant) and isinstance(e.args[0].value, str):
                def ag(cargs, ckws):
                    if len(cargs) != 1 or ckws or isinstance(cargs[0], ast.Starred):
                        return None
                    out = copy.deepcopy(cargs[0])
                    for part in e.args[0].value.split("."):
                        out = ast.Attribute(value=out, attr=part, ctx=ast.Load())
                    return out
                return _Applicable(ag)
            if ext == ("operator", "itemgetter") and len(e.args) == 1 and not e.keywords:
                def ig(cargs, ckws):
                    if len(cargs) != 1 or ckws or isinstance(cargs[0], ast.Starred):
                        return None
                    return ast.Subscript(value=copy.deepcopy(cargs[0]), slice=copy.deepcopy(e.args[0]), ctx=ast.Load())
                return _Applicable(ig)
            if ext == ("functools", "partial") and e.args:
                inner = e.args[0]

                def pt(cargs, ckws):
                    if {k.arg for k in ckws} & {k.arg for k in e.keywords}:
                        return None
                    a2 = [copy.deepcopy(x) for x in list(e.args[1:]) + list(cargs)]
                    k2 = [copy.deepcopy(k) for k in list(e.keywords) + list(ckws)]
                    r = self.callable_value(inner, ctx_mod, True, depth + 1)
                    out = r.apply(a2, k2) if r is not None else None
                    if out is None:
                        if ctx_mod is not None and not isinstance(inner, (ast.Name, ast.Attribute)):
                            return None
                        out = ast.Call(func=copy.deepcopy(inner), args=a2, keywords=k2)
                    return out
                return _Applicable(pt)
            return None
        if isinstance(e, ast.IfExp):
            if ctx_mod is not None and self._shadowed(e.test):
                return None
            ra, rb = (self.callable_value(x, ctx_mod, True, depth + 1) for x in (e.body, e.orelse))

            def br(r, x):
                def go(cargs, ckws):
                    out = r.apply(cargs, ckws) if r is not None else None
                    if out is None and isinstance(x, (ast.Name, ast.Attribute)) and not (ctx_mod is not None and self._shadowed(x)):
                        out = ast.Call(func=copy.deepcopy(x), args=[copy.deepcopy(a) for a in cargs], keywords=[copy.deepcopy(k) for k in ckws])
                    return out
                return go

            def ie(cargs, ckws):
                a, b = br(ra, e.body)(cargs, ckws), br(rb, e.orelse)(cargs, ckws)
                if a is None or b is None:
                    return None
                return ast.IfExp(test=copy.deepcopy(e.test), body=a, orelse=b)
            return _Applicable(ie)
        return None

    def _names_module_or_class(self, n: ast.Name, ctx_mod: Optional[str]) -> bool:
        if ctx_mod is None and self.is_local(n.id):
            return False
        r = self.repo.lookup(ctx_mod or self.mod, n.id)
        return bool(r) and r[0] in ("module", "external", "class")

    def _external_fn(self, mod: str, attr: str) -> Optional[_Applicable]:
        if mod not in ("operator", "_operator"):
            return None
        attr = attr.strip("_") if attr.startswith("__") else attr
        plain = lambda cargs, ckws, n: len(cargs) == n and not ckws and not any(isinstance(x, ast.Starred) for x in cargs)
        cp = copy.deepcopy
        if attr in OP_BIN or attr + "_" in OP_BIN:
            op = OP_BIN.get(attr) or OP_BIN[attr + "_"]
            return _Applicable(lambda a, k: ast.BinOp(left=cp(a[0]), op=op(), right=cp(a[1])) if plain(a, k, 2) else None)
        if attr in OP_CMP:
            op2 = OP_CMP[attr]
            return _Applicable(lambda a, k: ast.Compare(left=cp(a[0]), ops=[op2()], comparators=[cp(a[1])]) if plain(a, k, 2) else None)
        if attr == "contains":
            return _Applicable(lambda a, k: ast.Compare(left=cp(a[1]), ops=[ast.In()], comparators=[cp(a[0])]) if plain(a, k, 2) else None)
        if attr in ("not_", "not"):
            return _Applicable(lambda a, k: ast.UnaryOp(op=ast.Not(), operand=cp(a[0])) if plain(a, k, 1) else None)
        if attr == "truth":
            return _Applicable(lambda a, k: ast.Call(func=ast.Name(id="bool", ctx=ast.Load()), args=[cp(a[0])], keywords=[]) if plain(a, k, 1) else None)
        if attr == "getitem":
            return _Applicable(lambda a, k: ast.Subscript(value=cp(a[0]), slice=cp(a[1]), ctx=ast.Load()) if plain(a, k, 2) else None)
        return None

    # ---------------------------------------------------------------- constant tables and records
    def dict_value(self, e: ast.AST, ctx_mod: Optional[str] = None, depth: int = 0) -> Optional[Tuple[ast.Dict, Optional[str]]]:
        if depth > 6:
            return None
        d: Optional[Tuple[ast.AST, Optional[str]]] = None
        if isinstance(e, ast.Dict):
            d = (e, ctx_mod)
        elif isinstance(e, ast.Name):
            if ctx_mod is None and self.is_local(e.id):
                b = self.single(e.id)
                if b is None or isinstance(b, ast.FunctionDef) or e.id in self.unsafe_dict_use:
                    return None
                return self.dict_value(b.value, None, depth + 1)
            gv = self._global_value(e.id, ctx_mod)
            return self.dict_value(gv[0], gv[1], depth + 1) if gv else None
        elif isinstance(e, ast.Attribute) and isinstance(e.value, ast.Name) and self.f0.cls and self.f0.cls in self.repo.classes and \
                e.value.id in (self.f0.self_name, "cls", self.f0.cls) and (e.value.id == self.f0.cls or len(self.binds.get(e.value.id, [])) <= 1):
            for c in self.repo.mro(self.f0.cls):
                ci = self.repo.classes[c]
                vals = [b.value for b in ci.node.body if (isinstance(b, ast.Assign) and any(isinstance(t, ast.Name) and t.id == e.attr for t in b.targets))
                        or (isinstance(b, ast.AnnAssign) and isinstance(b.target, ast.Name) and b.target.id == e.attr and b.value is not None)]
                if vals:
                    stored = any(isinstance(x, ast.Attribute) and x.attr == e.attr and isinstance(x.ctx, ast.Store) for x in ast.walk(ci.node))
                    return None if stored or len(vals) != 1 else self.dict_value(vals[0], ci.mod, depth + 1)
            return None
        if d is None:
            return None
        dn = d[0]
        if not dn.keys or any(k is None or not isinstance(k, ast.Constant) for k in dn.keys):
            return None
        if d[1] is not None and any(self._shadowed(v) for v in dn.values):
            return None
        return dn, d[1]

    def const_set(self, name: str, depth: int = 0) -> Optional[Set[object]]:
        """the constants a local can hold: every binding is a constant or a copy of a local for which that holds"""
        if depth > 6 or not self.is_local(name):
            return None
        out: Set[object] = set()
        bs = self.binds.get(name, [])
        if not bs:
            return None
        for b in bs:
            if not isinstance(b, (ast.Assign, ast.AnnAssign)) or b.value is None:
                return None
            v = b.value
            if isinstance(v, ast.Constant):
                out.add(v.value)
            elif isinstance(v, ast.Name):
                sub = self.const_set(v.id, depth + 1)
                if sub is None:
                    return None
                out |= sub
            else:
                return None
        return out

    def table_call(self, call: ast.Call) -> Optional[ast.AST]:
        """`TABLE[key](args)` for a dict display of callables with distinct string keys and a local name as key: the calls of the
        entries chosen by `key == k`; the lookup as written stays as the last alternative unless the key can only be one of the keys"""
        fn = call.func
        if not (isinstance(fn, ast.Subscript) and isinstance(fn.slice, ast.Name) and isinstance(fn.ctx, ast.Load)) or getattr(fn, "_c19_kept", False):
            return None
        if any(isinstance(a, ast.Starred) for a in call.args) or any(k.arg is None for k in call.keywords):
            return None
        d = self.dict_value(fn.value)
        if d is None:
            return None
        dn = d[0]
        ks = [k.value for k in dn.keys]
        if not ks or len(ks) > 12 or not all(type(k) is str for k in ks) or len(set(ks)) != len(ks):
            return None
        if not all(isinstance(v, ast.Lambda) or self.is_function_ref(v) or (isinstance(v, ast.Call) and self.external(v.func, d[1]) is not None) for v in dn.values):
            return None
        entries: List[Tuple[ast.AST, ast.AST]] = []
        for k, v in zip(dn.keys, dn.values):
            r = self.callable_value(v, d[1], bound_ok=True)
            out = r.apply([copy.deepcopy(a) for a in call.args], [copy.deepcopy(kw) for kw in call.keywords]) if r is not None else None
            if out is None:
                if d[1] is not None or not isinstance(v, (ast.Name, ast.Attribute)):
                    return None
                out = ast.Call(func=copy.deepcopy(v), args=[copy.deepcopy(a) for a in call.args], keywords=[copy.deepcopy(kw) for kw in call.keywords])
            entries.append((k, out))
        possible = self.const_set(fn.slice.id)
        if possible is not None and all(type(x) is str and x in ks for x in possible):
            entries = [(k, o) for k, o in entries if k.value in possible]
            if not entries:
                return None
            result: ast.AST = entries[-1][1]
            entries = entries[:-1]
        else:
            kept = copy.deepcopy(call)
            kept.func._c19_kept = True
            result = kept
        for k, o in reversed(entries):
            result = ast.IfExp(test=ast.Compare(left=copy.deepcopy(fn.slice), ops=[ast.Eq()], comparators=[copy.deepcopy(k)]), body=o, orelse=result)
        return result

    def is_boolean(self, e: ast.AST, depth: int = 0) -> bool:
        if depth > 6:
            return False
        if isinstance(e, ast.Compare):
            return True
        if isinstance(e, ast.Constant):
            return isinstance(e.value, bool)
        if isinstance(e, ast.UnaryOp) and isinstance(e.op, ast.Not):
            return True
        if isinstance(e, ast.BoolOp):
            return all(self.is_boolean(v, depth + 1) for v in e.values)
        if isinstance(e, ast.NamedExpr):
            return self.is_boolean(e.value, depth + 1)
        if isinstance(e, ast.IfExp):
            return self.is_boolean(e.body, depth + 1) and self.is_boolean(e.orelse, depth + 1)
        if isinstance(e, ast.Call):
            if isinstance(e.func, ast.Name) and e.func.id in BOOL_CALLS and self._builtin(e.func, e.func.id):
                return True
            return isinstance(e.func, ast.Attribute) and e.func.attr in BOOL_METHODS
        if isinstance(e, ast.Name) and self.is_local(e.id):
            bs = self.binds.get(e.id, [])
            return bool(bs) and all(isinstance(b, (ast.Assign, ast.AnnAssign)) and b.value is not None and self.is_boolean(b.value, depth + 1) for b in bs)
        return False

    def _pick(self, d: ast.Dict, key: ast.AST, default: Optional[ast.AST]) -> Optional[ast.AST]:
        """value of the constant table for the key expression"""
        if isinstance(key, ast.Constant):
            for k, v in zip(d.keys, d.values):
                if type(k.value) is type(key.value) and k.value == key.value:
                    return copy.deepcopy(v)
            return copy.deepcopy(default) if default is not None else None
        ks = [k.value for k in d.keys]
        if isinstance(key, ast.Name) and default is not None and ks and all(type(k) is str for k in ks) and len(set(ks)) == len(ks) and len(ks) <= 12:
            # TABLE.get(name, default) over string keys: the value of the first key the name equals, else the default
            out: ast.AST = copy.deepcopy(default)
            for k, v in reversed(list(zip(d.keys, d.values))):
                out = ast.IfExp(test=ast.Compare(left=copy.deepcopy(key), ops=[ast.Eq()], comparators=[copy.deepcopy(k)]), body=copy.deepcopy(v), orelse=out)
            return out
        if len(ks) == 2 and all(type(k) is bool for k in ks) and set(ks) == {True, False} and self.is_boolean(key):
            by = {k.value: v for k, v in zip(d.keys, d.values)}
            return ast.IfExp(test=copy.deepcopy(key), body=copy.deepcopy(by[True]), orelse=copy.deepcopy(by[False]))
        return None

    def record_fields(self, e: ast.AST) -> Optional[Dict[str, ast.AST]]:
        """{field: argument} (in field order) when the expression builds a NamedTuple / dataclass record of the repository"""
        return record_fields(self.repo, self.mod, e, lambda n: self.is_local(n))

    def record_member(self, recv: ast.AST, attr: str, cargs, ckws) -> Optional[ast.AST]:
        """`R(..).m(args)` / `R(..).prop` for a one-expression method / property of the record class: its expression with the
        fields of self replaced by the constructor arguments (cargs None: property access)"""
        rec = self._record_of(recv)
        ctor = recv
        if isinstance(recv, ast.Name):
            b = self.single(recv.id)
            ctor = b.value if b is not None and not isinstance(b, ast.FunctionDef) else None
        if rec is None or not isinstance(ctor, ast.Call) or not isinstance(ctor.func, ast.Name):
            return None
        ci = self.repo.classes.get(ctor.func.id)
        m = ci.methods.get(attr) if ci is not None else None
        if m is None or attr in rec:
            return None
        is_prop = attr in ci.props
        if (cargs is None) != is_prop or attr in ci.static or len(m.decorator_list) != (1 if is_prop else 0):
            return None
        body = list(m.body)
        if body and isinstance(body[0], ast.Expr) and isinstance(body[0].value, ast.Constant) and isinstance(body[0].value.value, str):
            body = body[1:]
        if len(body) != 1 or not isinstance(body[0], ast.Return) or body[0].value is None or not m.args.args:
            return None
        self_name = m.args.args[0].arg
        expr = body[0].value
        return self._apply_member(m, expr, self_name, rec, cargs, ckws, ci.mod)

    @staticmethod
    def _only_field_reads(expr: ast.AST, self_name: str, rec: Dict[str, ast.AST]) -> bool:
        reads = {id(p_.value) for p_ in ast.walk(expr) if isinstance(p_, ast.Attribute) and isinstance(p_.value, ast.Name) and p_.value.id == self_name and p_.attr in rec
                 and isinstance(p_.ctx, ast.Load)}
        return all(id(x) in reads for x in ast.walk(expr) if isinstance(x, ast.Name) and x.id == self_name)

    def _apply_member(self, m: ast.FunctionDef, expr: ast.AST, self_name: str, rec: Dict[str, ast.AST], cargs, ckws, cls_mod: str) -> Optional[ast.AST]:
        if not self._only_field_reads(expr, self_name, rec):
            return None
        if cls_mod != self.mod:
            return None
        lam = self._lam(m.args, expr, cls_mod)
        if lam is None:
            return None
        marker = f"__rec{next(_fresh)}"
        out = lam.apply([ast.Name(id=marker, ctx=ast.Load())] + list(cargs or []), ckws or [])
        if out is None:
            return None

        class F(ast.NodeTransformer):
            def visit_Attribute(self, a):
                if isinstance(a.value, ast.Name) and a.value.id == marker and a.attr in rec:
                    return copy.deepcopy(rec[a.attr])
                return self.generic_visit(a)
        out = F().visit(out)
        return None if marker in _names(out) else out

    def _record_of(self, e: ast.AST) -> Optional[Dict[str, ast.AST]]:
        if isinstance(e, ast.Name) and self.is_local(e.id):
            b = self.single(e.id)
            if b is None or isinstance(b, ast.FunctionDef):
                return None
            e = b.value
        return self.record_fields(e)

    # ---------------------------------------------------------------- helpers called where no statement can be put
    @staticmethod
    def _one_expression(fn: ast.AST) -> Optional[ast.AST]:
        """the expression a function returns when its body is nothing but `return <expr>` (after the docstring)"""
        if not isinstance(fn, ast.FunctionDef):
            return None
        body = list(fn.body)
        if body and isinstance(body[0], ast.Expr) and isinstance(body[0].value, ast.Constant) and isinstance(body[0].value.value, str):
            body = body[1:]
        if len(body) != 1 or not isinstance(body[0], ast.Return) or body[0].value is None:
            return None
        if any(isinstance(x, (ast.Yield, ast.YieldFrom, ast.Await)) for x in ast.walk(fn)):
            return None
        return body[0].value

    def helper_expr(self, fn: ast.AST, cargs, ckws) -> Optional[ast.AST]:
        """`helper(args)` / `self.helper(args)` / `Cls.helper(args)` for a one-expression function of the anchor's module / method of
        its class: the returned expression with the arguments in place of the parameters.  Used inside comprehensions, generator
        expressions and conditional operands, where the flattener cannot put the statements of an inlined helper."""
        f0 = self.f0
        if isinstance(fn, ast.Name) and not self.is_local(fn.id):
            r = self.repo.lookup(self.mod, fn.id)
            if not r or r[0] != "func" or r[2] != self.mod:
                return None
            node = r[1]
            expr = self._one_expression(node)
            if expr is None or node.decorator_list:
                return None
            lam = self._lam(node.args, expr, r[2])
            return lam.apply(list(cargs), list(ckws)) if lam is not None else None
        if isinstance(fn, ast.Attribute) and isinstance(fn.value, ast.Name) and f0.cls and f0.cls in self.repo.classes:
            recv = fn.value.id
            via_self = recv == f0.self_name and f0.self_name is not None and len(self.binds.get(recv, [])) <= 1
            via_cls = recv == f0.cls and not self.is_local(recv)
            if not (via_self or via_cls):
                return None
            for c in self.repo.mro(f0.cls):
                ci = self.repo.classes[c]
                node = ci.methods.get(fn.attr)
                if node is None:
                    continue
                expr = self._one_expression(node)
                if expr is None or ci.mod != self.mod:
                    return None
                static = fn.attr in ci.static
                decos = [d for d in node.decorator_list]
                if len(decos) != (1 if static else 0):
                    return None
                if static:
                    lam = self._lam(node.args, expr, ci.mod)
                    return lam.apply(list(cargs), list(ckws)) if lam is not None else None
                if not via_self or not node.args.args:
                    return None
                lam = self._lam(node.args, expr, ci.mod)
                if lam is None:
                    return None
                return lam.apply([ast.Name(id=recv, ctx=ast.Load())] + list(cargs), list(ckws))
            return None
        return None

    def unpacked_constant(self, name: str) -> Optional[ast.Constant]:
        """the literal a module-level name is bound to by a tuple assignment (`A, B = "a", "b"`), when that is its only binding"""
        cache = self.__dict__.setdefault("_unpacked", {})
        if name in cache:
            return cache[name]
        hit: Optional[ast.AST] = None
        count = 0
        for st in self.f0.mod.tree.body:
            for x in ast.walk(st):
                if isinstance(x, (ast.FunctionDef, ast.AsyncFunctionDef, ast.ClassDef)):
                    if x.name == name and x in self.f0.mod.tree.body:
                        count += 1
                    if any(isinstance(y, ast.Global) and name in y.names for y in ast.walk(x)):
                        count += 2
                if isinstance(x, ast.Name) and x.id == name and isinstance(x.ctx, (ast.Store, ast.Del)) and not any(
                        isinstance(sc, (ast.FunctionDef, ast.AsyncFunctionDef, ast.ClassDef, ast.Lambda) + COMPS) and any(y is x for y in ast.walk(sc)) for sc in ast.walk(st)):
                    count += 1
                if isinstance(x, ast.alias) and (x.asname or x.name).split(".")[0] == name:
                    count += 1
            if isinstance(st, ast.Assign) and len(st.targets) == 1 and isinstance(st.targets[0], (ast.Tuple, ast.List)) and isinstance(st.value, (ast.Tuple, ast.List)):
                v = View._paired(st.targets[0], st.value, name)
                if v is not None:
                    hit = v
        out = hit if count == 1 and isinstance(hit, ast.Constant) and (hit.value is None or isinstance(hit.value, (str, int, float, bool))) else None
        cache[name] = out
        return out

    def generator_helper(self, c: ast.AST) -> bool:
        """a call of a generator function of the anchor's module / class with plain arguments: nothing runs until it is iterated"""
        if not self.is_helper_call(c):
            return False
        fn = c.func
        node = None
        if isinstance(fn, ast.Name):
            r = self.repo.lookup(self.mod, fn.id)
            node = r[1] if r and r[0] == "func" else None
        elif isinstance(fn, ast.Attribute):
            for k in self.repo.mro(self.f0.cls):
                if fn.attr in self.repo.classes[k].methods:
                    node = self.repo.classes[k].methods[fn.attr]
                    break
        if not isinstance(node, ast.FunctionDef) or node.decorator_list and not all(isinstance(d, ast.Name) and d.id == "staticmethod" for d in node.decorator_list):
            return False
        if not any(isinstance(x, (ast.Yield, ast.YieldFrom)) for x in _walk_scope(node) if not (isinstance(x, SCOPES) and x is not node)):
            return False

        def plain(a: ast.AST) -> bool:
            if isinstance(a, ast.Constant):
                return True
            if isinstance(a, ast.Name):
                return not self.is_local(a.id) or len(self.binds.get(a.id, [])) == 1
            if isinstance(a, ast.Call):
                return self.generator_helper(a)
            return False
        return not c.keywords and all(plain(a) for a in c.args)

    def stable(self, e: ast.AST) -> bool:
        """the expression means the same wherever it is written in the function: constants, names the function never binds,
        attribute paths on those, tuples / lists of such"""
        if isinstance(e, ast.Constant):
            return True
        if isinstance(e, ast.Name):
            return isinstance(e.ctx, ast.Load) and not self.is_local(e.id)
        if isinstance(e, ast.Attribute):
            return self.stable(e.value)
        if isinstance(e, (ast.Tuple, ast.List)):
            return not any(isinstance(x, ast.Starred) for x in e.elts) and all(self.stable(x) for x in e.elts)
        if isinstance(e, ast.Call) and isinstance(e.func, ast.Name) and not any(isinstance(a, ast.Starred) for a in e.args) and not any(k.arg is None for k in e.keywords):
            args_ok = all(self.stable(a) for a in e.args) and all(self.stable(k.value) for k in e.keywords)
            if self.record_fields(e) is not None:
                return args_ok          # a generated NamedTuple / dataclass constructor only stores its arguments
            if e.func.id in ("tuple", "frozenset") and self._builtin(e.func, e.func.id) and len(e.args) <= 1 and not e.keywords:
                return args_ok
        return False

    def local_constant(self, name: str) -> Optional[ast.Constant]:
        """the literal a local is bound to when its only binding is `x = <literal>` or one component of `a, b = <literal>, <literal>`"""
        bs = self.binds.get(name, [])
        if len(bs) != 1:
            return None
        b = bs[0]
        v: Optional[ast.AST] = None
        if isinstance(b, (ast.Assign, ast.AnnAssign)):
            v = b.value
        elif isinstance(b, ast.Name):
            st = self.tuple_assign.get(id(b))
            if st is not None:
                v = View._paired(st.targets[0], st.value, name)
        if isinstance(v, ast.Constant) and (v.value is None or isinstance(v.value, (str, int, float, bool))):
            return v
        return None

    def local_table(self, it: ast.AST) -> Optional[ast.AST]:
        """the display a local names when it is bound once to a tuple / list display of stable elements and is only ever iterated
        (a table written inside the function): iterating the name is iterating the display"""
        if not (isinstance(it, ast.Name) and self.is_local(it.id)):
            return None
        b = self.single(it.id)
        if b is None or isinstance(b, ast.FunctionDef) or not isinstance(b.value, (ast.Tuple, ast.List)) or not b.value.elts:
            return None
        if not self.stable(b.value) or not self.iterated_only(it.id):
            return None
        if isinstance(b.value, ast.List) and len(b.value.elts) > 12:
            return None
        return copy.deepcopy(b.value)

    def is_helper_call(self, c: ast.AST) -> bool:
        """a call of a function of the anchor's module / a method of its class (something the flattener analyses in place)"""
        if not isinstance(c, ast.Call):
            return False
        fn = c.func
        if isinstance(fn, ast.Name) and not self.is_local(fn.id):
            r = self.repo.lookup(self.mod, fn.id)
            return bool(r) and r[0] == "func"
        if isinstance(fn, ast.Attribute) and isinstance(fn.value, ast.Name) and self.f0.cls and self.f0.cls in self.repo.classes:
            if fn.value.id in (self.f0.self_name, self.f0.cls, "cls"):
                return any(fn.attr in self.repo.classes[k].methods for k in self.repo.mro(self.f0.cls))
        return False

    def pure_test(self, e: ast.AST) -> bool:
        """evaluating the expression has no effect and cannot be affected by evaluating its neighbours: names, constants, attribute
        reads on names, comparisons / not / and / or of such"""
        if isinstance(e, (ast.Name, ast.Constant)):
            return True
        if isinstance(e, ast.Attribute):
            return self.pure_test(e.value)
        if isinstance(e, ast.Compare):
            return self.pure_test(e.left) and all(self.pure_test(x) for x in e.comparators)
        if isinstance(e, ast.UnaryOp) and isinstance(e.op, ast.Not):
            return self.pure_test(e.operand)
        if isinstance(e, ast.BoolOp):
            return all(self.pure_test(x) for x in e.values)
        return False

    def choice_with_helper(self, value: ast.AST) -> Optional[ast.IfExp]:
        """the first conditional expression of a statement's value that is evaluated unconditionally, has a pure test and calls a helper
        in one of its branches"""
        todo = [value]
        while todo:
            e = todo.pop(0)
            if isinstance(e, ast.IfExp):
                if self.pure_test(e.test) and any(self.is_helper_call(x) for b in (e.body, e.orelse) for x in ast.walk(b)):
                    return e
                continue
            if isinstance(e, (ast.Lambda,) + COMPS):
                continue
            if isinstance(e, ast.BoolOp):
                todo.append(e.values[0])
                continue
            todo.extend(ast.iter_child_nodes(e))
        return None

    def is_function_ref(self, e: ast.AST) -> bool:
        """a name the function never binds / an attribute path on self or on such a name (a function or bound method, not a call)"""
        if isinstance(e, ast.Name):
            return isinstance(e.ctx, ast.Load) and not self.is_local(e.id) and e.id not in ("None", "True", "False")
        if isinstance(e, ast.Attribute):
            root = e
            while isinstance(root, ast.Attribute):
                root = root.value
            return isinstance(root, ast.Name) and (not self.is_local(root.id) or (root.id == self.f0.self_name and len(self.binds.get(root.id, [])) <= 1))
        if isinstance(e, ast.Lambda):
            return True
        if isinstance(e, ast.IfExp):
            return self.is_function_ref(e.body) and self.is_function_ref(e.orelse)
        return False

    # ---------------------------------------------------------------- the rewriting pass
    def _accumulations(self) -> bool:
        """`xs = xs + [e]` / `xs = [*xs, e]` on a local list that nothing else can observe in between (every other use of xs comes after
        the last such statement and outside the loops that contain one) is the in-place extension `xs += [e]`: the accumulation forms
        `reduce(lambda acc, x: acc + [f(x)], it, [])` and `acc = acc + [..]` denote the same list as loop + append"""
        fn = self.fn
        order: Dict[int, int] = {}
        loops_of: Dict[int, List[ast.AST]] = {}
        owner: Dict[int, ast.stmt] = {}

        def walk(stmts: List[ast.stmt], loops: List[ast.AST]) -> None:
            for st in stmts:
                order[id(st)] = len(order)
                loops_of[id(st)] = loops
                if isinstance(st, (ast.FunctionDef, ast.AsyncFunctionDef, ast.ClassDef)):
                    for x in ast.walk(st):
                        owner.setdefault(id(x), st)
                    continue
                inner = loops + [st] if isinstance(st, (ast.For, ast.While)) else loops
                blocks = [getattr(st, fld) for fld in ("body", "orelse", "finalbody") if isinstance(getattr(st, fld, None), list)]
                blocks += [h.body for h in getattr(st, "handlers", []) or []]
                nested = {id(x) for b in blocks for s_ in b if isinstance(s_, ast.AST) for x in ast.walk(s_)}
                for x in ast.walk(st):
                    if id(x) not in nested:
                        owner.setdefault(id(x), st)
                for b in blocks:
                    if b and isinstance(b[0], ast.stmt):
                        walk(b, inner)
        walk(fn.body, [])

        def fresh_list(v: ast.AST) -> bool:
            return (isinstance(v, ast.List) and not any(isinstance(x, ast.Starred) for x in v.elts)) or \
                (isinstance(v, ast.Call) and isinstance(v.func, ast.Name) and v.func.id == "list" and not v.args and not v.keywords and not self.is_local("list"))

        def extension(name: str, v: ast.AST) -> Optional[ast.AST]:
            if isinstance(v, ast.BinOp) and isinstance(v.op, ast.Add) and isinstance(v.left, ast.Name) and v.left.id == name \
                    and isinstance(v.right, (ast.List, ast.ListComp)) and name not in _names(v.right):
                return v.right
            if isinstance(v, ast.List) and len(v.elts) >= 2 and isinstance(v.elts[0], ast.Starred) and isinstance(v.elts[0].value, ast.Name) \
                    and v.elts[0].value.id == name and not any(isinstance(x, ast.Starred) for x in v.elts[1:]) and not any(name in _names(x) for x in v.elts[1:]):
                return ast.List(elts=list(v.elts[1:]), ctx=ast.Load())
            return None

        did = False
        for name, bs in list(self.binds.items()):
            if len(bs) < 2 or not all(isinstance(b, (ast.Assign, ast.AnnAssign)) and b.value is not None for b in bs):
                continue
            if any(id(b) not in order for b in bs):
                continue
            accs = [(b, extension(name, b.value)) for b in bs]
            accs = [(b, r) for b, r in accs if r is not None]
            inits = [b for b in bs if fresh_list(b.value)]
            if not accs or not inits or len(accs) + len(inits) != len(bs):
                continue
            last = max(order[id(b)] for b, _r in accs)
            acc_ids = {id(b) for b, _r in accs}
            acc_loops = {id(l) for b, _r in accs for l in loops_of[id(b)]}
            ok = True
            for x in ast.walk(fn):
                if isinstance(x, ast.Name) and x.id == name and isinstance(x.ctx, ast.Load):
                    st = owner.get(id(x))
                    if st is None or id(st) in acc_ids:
                        ok = ok and st is not None
                        continue
                    if id(st) not in order or order[id(st)] <= last or any(id(l) in acc_loops for l in loops_of[id(st)]) or id(st) in acc_loops:
                        ok = False
            if not ok:
                continue
            for b, right in accs:
                new = ast.copy_location(ast.AugAssign(target=ast.Name(id=name, ctx=ast.Store()), op=ast.Add(), value=right), b)
                self._replace_stmt(b, new)
                did = True
        if did:
            ast.fix_missing_locations(fn)
        return did

    def _comprehension_variables_apart(self) -> bool:
        """a comprehension has its own scope: a variable of it that shares its name with another binding of the function
        (`status = next((status for status, m in T if ..), d)`) is renamed, so that nothing confuses the two"""
        did = False
        for comp in [n for n in ast.walk(self.fn) if isinstance(n, COMPS)]:
            own: Set[str] = set()
            for g in comp.generators:
                own |= _names(g.target, ast.Store)
            clash = {x for x in own if len(self.binds.get(x, [])) > 1 or self.loads_outside(comp, x)}
            if not clash:
                continue
            inner_rebinds = set()
            parts = ([comp.key, comp.value] if isinstance(comp, ast.DictComp) else [comp.elt]) + [c for g in comp.generators for c in g.ifs] + \
                [g.iter for g in comp.generators[1:]]
            for part in parts:
                for x in ast.walk(part):
                    if isinstance(x, COMPS + (ast.Lambda,)):
                        inner_rebinds |= _bound_inside(x)
                    if isinstance(x, ast.NamedExpr):
                        inner_rebinds |= _names(x.target)
            clash -= inner_rebinds
            if not clash:
                continue
            k = next(_fresh)
            ren = _Rename({x: f"{x}__n{k}" for x in clash})
            for g in comp.generators:
                g.target = ren.visit(g.target)
                g.ifs = [ren.visit(c) for c in g.ifs]
            for g in comp.generators[1:]:
                g.iter = ren.visit(g.iter)
            if isinstance(comp, ast.DictComp):
                comp.key, comp.value = ren.visit(comp.key), ren.visit(comp.value)
            else:
                comp.elt = ren.visit(comp.elt)
            did = True
            self._scan()
        return did

    def _repair_nested_parameters(self) -> bool:
        """work-around for the inliner: when a helper is put in place its locals are renamed `x__i<n>`, inside nested functions too, but
        the PARAMETER of a nested function / lambda that happens to share its name with a local of the helper keeps its name while
        the uses in its body are renamed.  The parameter is given the name its body uses."""
        did = False
        for n in ast.walk(self.fn):
            if n is self.fn or not isinstance(n, (ast.FunctionDef, ast.Lambda)):
                continue
            a = n.args
            body_nodes = n.body if isinstance(n.body, list) else [n.body]
            used = {x.id for b in body_nodes for x in ast.walk(b) if isinstance(x, ast.Name)}
            for arg in a.posonlyargs + a.args + a.kwonlyargs:
                if arg.arg in used:
                    continue
                cands = {u for u in used if re.fullmatch(re.escape(arg.arg) + r"(__i\d+)+", u)}
                if len(cands) == 1:
                    arg.arg = cands.pop()
                    did = True
        return did

    def loads_outside(self, comp: ast.AST, name: str) -> bool:
        inside = {id(x) for x in ast.walk(comp)}
        return any(isinstance(x, ast.Name) and x.id == name and id(x) not in inside for x in ast.walk(self.fn))

    def _calls_through_locals(self) -> bool:
        """`v(args)` where every binding of the local v is `v = <function / bound method>` (several of them, chosen by branches): each
        binding also records which one it is (`v__sel<k> = i`, a fresh integer local) and the statement with the call is written once
        per binding, with the function in place of v, chosen by that integer.  Exact; the callees become visible to the flattener
        and the guard analyses relate the call to the branch that chose the function (the engine does the same for the definitions
        it sees itself, but not for the ones that only appear after a table lookup has been written out here)."""
        cands: Dict[str, List[ast.stmt]] = {}
        for name, bs in self.binds.items():
            if len(bs) < 2 or len(bs) > 12:
                continue
            if not all(isinstance(b, (ast.Assign, ast.AnnAssign)) and b.value is not None and not isinstance(b.value, ast.IfExp) and self.is_function_ref(b.value)
                       for b in bs):
                continue
            cands[name] = list(bs)
        if not cands:
            return False

        def plain_call_of(st: ast.stmt) -> Optional[str]:
            if not isinstance(st, (ast.Assign, ast.AnnAssign, ast.AugAssign, ast.Expr, ast.Return)):
                return None
            hidden = {id(y) for x in ast.walk(st) if isinstance(x, COMPS + (ast.Lambda,)) for y in ast.walk(x)}
            for x in ast.walk(st):
                if isinstance(x, ast.Call) and isinstance(x.func, ast.Name) and x.func.id in cands and id(x) not in hidden:
                    return x.func.id
            return None

        did = [False]
        sel: Dict[str, str] = {}
        index: Dict[int, Tuple[str, int]] = {}
        for name, bs in cands.items():
            for i, b in enumerate(bs):
                index[id(b)] = (name, i + 1)

        def rewrite(stmts: List[ast.stmt]) -> List[ast.stmt]:
            out: List[ast.stmt] = []
            for st in stmts:
                if isinstance(st, (ast.FunctionDef, ast.AsyncFunctionDef, ast.ClassDef)):
                    out.append(st)
                    continue
                for fld in ("body", "orelse", "finalbody"):
                    sub = getattr(st, fld, None)
                    if isinstance(sub, list) and sub and isinstance(sub[0], ast.stmt):
                        setattr(st, fld, rewrite(sub))
                for h in getattr(st, "handlers", []) or []:
                    h.body = rewrite(h.body)
                out.append(st)
                if id(st) in index:
                    name, i = index[id(st)]
                    if name in sel:
                        out.append(ast.copy_location(ast.Assign(targets=[ast.Name(id=sel[name], ctx=ast.Store())], value=ast.Constant(value=i), lineno=st.lineno), st))
                    continue
                name = plain_call_of(st)
                if name is None or name not in sel:
                    continue
                out.pop()
                chain: Optional[ast.stmt] = None
                for i, b in reversed(list(enumerate(cands[name], 1))):
                    variant = copy.deepcopy(st)
                    for x in ast.walk(variant):
                        if isinstance(x, ast.Call) and isinstance(x.func, ast.Name) and x.func.id == name:
                            x.func = _relocate(copy.deepcopy(b.value), x.func)
                    if chain is None:
                        chain = variant
                    else:
                        test = ast.Compare(left=ast.Name(id=sel[name], ctx=ast.Load()), ops=[ast.Eq()], comparators=[ast.Constant(value=i)])
                        chain = ast.copy_location(ast.If(test=test, body=[variant], orelse=[chain]), st)
                out.append(chain)
                did[0] = True
            return out

        used = {name for name in cands if any(plain_call_of(st) == name for st in ast.walk(self.fn) if isinstance(st, ast.stmt))}
        if not used:
            return False
        k = next(_fresh)
        for name in used:
            sel[name] = f"{name}__sel{k}"
        self.fn.body = rewrite(self.fn.body)
        ast.fix_missing_locations(self.fn)
        return did[0]

    def _replace_stmt(self, old: ast.stmt, new: ast.stmt) -> None:
        for n in ast.walk(self.fn):
            for fld in ("body", "orelse", "finalbody"):
                b = getattr(n, fld, None)
                if isinstance(b, list):
                    for i, s_ in enumerate(b):
                        if s_ is old:
                            b[i] = new
                            return

    def run(self) -> bool:
        any_change = self._repair_nested_parameters()
        for _ in range(12):
            self._scan()
            if self._accumulations():
                any_change = True
                self._scan()
            if self._comprehension_variables_apart():
                any_change = True
                self._scan()
            if self._calls_through_locals():
                any_change = True
                self._scan()
            self.changed = False
            self.drop: Set[int] = set()
            self.fused_lists: Set[str] = set()
            _Pass(self).generic_visit(self.fn)
            if self.drop:
                _Drop(self.drop).visit(self.fn)
            self._remove_unused_callables()
            ast.fix_missing_locations(self.fn)
            if not self.changed:
                break
            any_change = True
        return any_change

    def _remove_unused_callables(self) -> None:
        """a local function / lambda whose every call was replaced is not needed any more"""
        self._scan()
        dead: Set[int] = set()
        for name, bs in self.binds.items():
            if len(bs) != 1 or self.loads.get(name, 0):
                continue
            b = bs[0]
            if isinstance(b, ast.FunctionDef) and b is not self.fn:
                dead.add(id(b))
            elif name in getattr(self, "fused_lists", ()) and isinstance(b, (ast.Assign, ast.AnnAssign)) and isinstance(b.value, ast.ListComp):
                dead.add(id(b))
            elif isinstance(b, (ast.Assign, ast.AnnAssign)) and isinstance(b.value, ast.Lambda):
                dead.add(id(b))
        if dead:
            _Drop(dead).visit(self.fn)
            self.changed = True


class _Drop(ast.NodeTransformer):
    def __init__(self, ids: Set[int]):
        self.ids = ids

    def visit(self, node):
        if id(node) in self.ids:
            return None
        r = super().visit(node)
        if r is node and isinstance(node, (ast.stmt, ast.ExceptHandler)) and isinstance(getattr(node, "body", None), list) and not node.body:
            node.body = [ast.copy_location(ast.Pass(), node)]      # a block must not become empty
        return r


class _Pass(ast.NodeTransformer):
    def __init__(self, N: Normaliser):
        self.N = N
        self.in_expr_only = 0       # inside a comprehension / generator expression: no statement can be put here

    # nested scopes are left alone: they are looked at when (and where) they are applied
    def visit_FunctionDef(self, n):
        return n

    visit_AsyncFunctionDef = visit_Lambda = visit_ClassDef = visit_FunctionDef

    def _done(self, new: ast.AST, at: ast.AST) -> ast.AST:
        self.N.changed = True
        return _relocate(new, at)

    # ---------------------------------------------------------------- calls
    def visit_Call(self, n: ast.Call):
        self.generic_visit(n)
        N = self.N
        fn = n.func
        plain = not any(isinstance(a, ast.Starred) for a in n.args) and not any(k.arg is None for k in n.keywords)
        # map / filter -> generator expression
        if plain and not n.keywords and isinstance(fn, ast.Name) and fn.id in ("map", "filter") and N._builtin(fn, fn.id) and len(n.args) >= 2:
            k = next(_fresh)
            if fn.id == "map":
                vs = [f"__m{k}_{i}" if len(n.args) > 2 else f"__m{k}" for i in range(len(n.args) - 1)]
                elt = self._apply(n.args[0], [ast.Name(id=v, ctx=ast.Load()) for v in vs])
                if elt is not None:
                    if len(vs) == 1:
                        tgt: ast.AST = ast.Name(id=vs[0], ctx=ast.Store())
                        it = n.args[1]
                    else:
                        tgt = ast.Tuple(elts=[ast.Name(id=v, ctx=ast.Store()) for v in vs], ctx=ast.Store())
                        it = ast.Call(func=ast.Name(id="zip", ctx=ast.Load()), args=list(n.args[1:]), keywords=[])
                    return self._done(ast.GeneratorExp(elt=elt, generators=[ast.comprehension(target=tgt, iter=it, ifs=[], is_async=0)]), n)
            elif len(n.args) == 2:
                v = f"__m{k}"
                if isinstance(n.args[0], ast.Constant) and n.args[0].value is None:
                    cond: Optional[ast.AST] = ast.Name(id=v, ctx=ast.Load())
                else:
                    cond = self._apply(n.args[0], [ast.Name(id=v, ctx=ast.Load())])
                if cond is not None:
                    return self._done(ast.GeneratorExp(elt=ast.Name(id=v, ctx=ast.Load()), generators=[
                        ast.comprehension(target=ast.Name(id=v, ctx=ast.Store()), iter=n.args[1], ifs=[cond], is_async=0)]), n)
        # list(g) with g a generator expression that is bound once and consumed only here
        if plain and not n.keywords and isinstance(fn, ast.Name) and fn.id in ("list", "set", "tuple", "sorted", "any", "all", "next") and N._builtin(fn, fn.id) \
                and len(n.args) == (2 if fn.id == "next" else 1) and isinstance(n.args[0], ast.Name) and N.is_local(n.args[0].id) and N.loads.get(n.args[0].id, 0) == 1:
            b = N.single(n.args[0].id)
            if b is not None and not isinstance(b, ast.FunctionDef) and id(b) not in N.drop and isinstance(b.value, ast.GeneratorExp) \
                    and all(isinstance(x, (ast.Name, ast.Constant)) or N.generator_helper(x) or N.stable(x) for x in [b.value.generators[0].iter]):
                N.drop.add(id(b))
                n.args[0] = _relocate(copy.deepcopy(b.value), n.args[0])
                N.changed = True
        # list(<generator expression>) is the list comprehension
        if plain and not n.keywords and isinstance(fn, ast.Name) and fn.id in ("list", "set") and N._builtin(fn, fn.id) and len(n.args) == 1 \
                and isinstance(n.args[0], ast.GeneratorExp):
            ge = n.args[0]
            new_c = (ast.ListComp if fn.id == "list" else ast.SetComp)(elt=ge.elt, generators=ge.generators)
            self.N.changed = True
            return ast.copy_location(new_c, n)
        # TABLE[key](args): the entries' calls chosen by key
        if isinstance(fn, ast.Subscript):
            new = N.table_call(n)
            if new is not None:
                return self._done(new, n)
        # a one-expression helper called where the flattener cannot inline statements
        if plain and self.in_expr_only:
            new = N.helper_expr(fn, list(n.args), list(n.keywords))
            if new is not None:
                return self._done(new, n)
        # a callable value applied
        if isinstance(fn, (ast.Name, ast.Lambda, ast.Call, ast.IfExp)) or (isinstance(fn, ast.Attribute) and isinstance(fn.value, ast.Name)):
            r = N.callable_value(fn, None, bound_ok=not isinstance(fn, ast.Attribute))
            if r is not None:
                new = r.apply(list(n.args), list(n.keywords))
                if new is not None:
                    return self._done(new, n)
        # a one-expression method of a freshly built record
        if isinstance(fn, ast.Attribute) and N._record_of(fn.value) is not None:
            new = N.record_member(fn.value, fn.attr, list(n.args), list(n.keywords))
            if new is not None:
                return self._done(new, n)
        # TABLE.get(key[, default])
        if plain and isinstance(fn, ast.Attribute) and fn.attr == "get" and not n.keywords and len(n.args) in (1, 2):
            d = N.dict_value(fn.value)
            if d is not None:
                new = N._pick(d[0], n.args[0], n.args[1] if len(n.args) == 2 else ast.Constant(value=None))
                if new is not None:
                    return self._done(new, n)
        # Class.method(self, ..) -> self.method(..)
        f0 = N.f0
        if plain and isinstance(fn, ast.Attribute) and isinstance(fn.value, ast.Name) and f0.cls and fn.value.id == f0.cls and not N.is_local(f0.cls) \
                and f0.self_name and n.args and isinstance(n.args[0], ast.Name) and n.args[0].id == f0.self_name and len(N.binds.get(f0.self_name, [])) <= 1:
            m = N.repo.find_method(f0.cls, fn.attr)
            if m is not None and m.is_method:
                return self._done(ast.Call(func=ast.Attribute(value=n.args[0], attr=fn.attr, ctx=ast.Load()), args=list(n.args[1:]), keywords=list(n.keywords)), n)
        return n

    def visit_BoolOp(self, n: ast.BoolOp):
        """the later operands of `and` / `or` are evaluated conditionally: the flattener cannot put the statements of an inlined helper
        there (it analyses the first operand in place only), so a one-expression helper called there is applied in place, as inside
        comprehensions (`a or self._has(m2, text) or self._has(m3, text)`, what `any(<helper call> for m in TABLE)` is written out to)"""
        n.values[0] = self.visit(n.values[0])
        self.in_expr_only += 1
        try:
            n.values[1:] = [self.visit(x) for x in n.values[1:]]
        finally:
            self.in_expr_only -= 1
        return n

    def _apply(self, f: ast.AST, args: List[ast.AST]) -> Optional[ast.AST]:
        """the expression `f(*args)` with a callable value replaced by what it evaluates"""
        r = self.N.callable_value(f, None, bound_ok=True)
        out = r.apply(list(args), []) if r is not None else None
        if out is None:
            if not isinstance(f, (ast.Name, ast.Attribute, ast.Lambda, ast.Call, ast.IfExp, ast.Subscript)):
                return None
            out = ast.Call(func=copy.deepcopy(f), args=list(args), keywords=[])
        return out

    def visit_List(self, n: ast.List):
        self.generic_visit(n)
        if isinstance(n.ctx, ast.Load) and len(n.elts) == 1 and isinstance(n.elts[0], ast.Starred) and not self.N.is_local("list") \
                and not self.N.repo.lookup(self.N.mod, "list"):
            self.N.changed = True           # [*xs] is list(xs)
            return ast.copy_location(ast.Call(func=ast.copy_location(ast.Name(id="list", ctx=ast.Load()), n), args=[n.elts[0].value], keywords=[]), n)
        return n

    # ---------------------------------------------------------------- tables / records
    def visit_Subscript(self, n: ast.Subscript):
        self.generic_visit(n)
        if not isinstance(n.ctx, ast.Load):
            return n
        d = self.N.dict_value(n.value)
        if d is not None:
            new = self.N._pick(d[0], n.slice, None)
            if new is not None:
                return self._done(new, n)
        i = const_int(n.slice)
        if i is not None:
            rec = self.N._record_of(n.value)
            vals = list(rec.values()) if rec is not None else (list(n.value.elts) if isinstance(n.value, ast.Tuple) and not any(isinstance(x, ast.Starred) for x in n.value.elts) else None)
            if vals is not None and -len(vals) <= i < len(vals):
                return self._done(copy.deepcopy(vals[i]), n)
        return n

    def visit_Attribute(self, n: ast.Attribute):
        self.generic_visit(n)
        if isinstance(n.ctx, ast.Load):
            rec = self.N._record_of(n.value)
            if rec is not None and n.attr in rec:
                return self._done(copy.deepcopy(rec[n.attr]), n)
            if rec is not None:
                new = self.N.record_member(n.value, n.attr, None, None)
                if new is not None:
                    return self._done(new, n)
        return n

    # ---------------------------------------------------------------- lazily consumed iterators
    def _source(self, it: ast.AST) -> Optional[ast.AST]:
        """the one-generator comprehension an iterated expression denotes (directly, or through an alias that is used once)"""
        N = self.N
        if isinstance(it, ast.Name) and N.is_local(it.id):
            b = N.single(it.id)
            if b is None or isinstance(b, ast.FunctionDef) or id(b) in N.drop:
                return None
            if isinstance(b.value, ast.GeneratorExp) and N.loads.get(it.id, 0) == 1 and self._fusable(b.value):
                N.drop.add(id(b))
                return b.value
            # a list built by a comprehension and only ever iterated: every iteration sees the same elements
            if isinstance(b.value, ast.ListComp) and N.iterated_only(it.id) and self._fusable(b.value):
                N.fused_lists.add(it.id)
                return b.value
            return None
        if isinstance(it, (ast.GeneratorExp, ast.ListComp)) and self._fusable(it):
            return it
        return None

    @staticmethod
    def _fusable(c: ast.AST) -> bool:
        return len(c.generators) == 1 and not c.generators[0].is_async and not any(isinstance(x, ast.NamedExpr) for x in ast.walk(c))

    @staticmethod
    def _fresh_vars(c: ast.AST):
        """(target, iter, ifs, elt) of the one-generator comprehension with its variables renamed apart"""
        g = c.generators[0]
        k = next(_fresh)
        ren = _Rename({x: (x if x.startswith("__m") else f"{x}__n{k}") for x in _names(g.target)})
        cp = copy.deepcopy
        return ren.visit(cp(g.target)), cp(g.iter), [ren.visit(cp(x)) for x in g.ifs], ren.visit(cp(c.elt))

    def _hoist_choice(self, st: ast.stmt) -> Optional[ast.stmt]:
        """S[.. (A if c else B) ..]  ->  if c: S[.. A ..] else: S[.. B ..]  when c is pure and a branch calls a helper: the helper can
        then be analysed in place on its own branch"""
        value = getattr(st, "value", None)
        if value is None:
            return None
        # everything evaluated before the conditional expression must be insensitive to the test being evaluated first: the test is pure
        ie = self.N.choice_with_helper(value)
        if ie is None:
            return None

        ie._hoist_me = True

        def variant(take_body: bool) -> ast.stmt:
            class R(ast.NodeTransformer):
                def visit_IfExp(self_, x):
                    if getattr(x, "_hoist_me", False):
                        return x.body if take_body else x.orelse
                    return self_.generic_visit(x)
            return R().visit(copy.deepcopy(st))
        a, b = variant(True), variant(False)
        del ie._hoist_me
        self.N.changed = True
        out = ast.If(test=copy.deepcopy(ie.test), body=[a], orelse=[b])
        return ast.fix_missing_locations(ast.copy_location(out, st))

    def visit_Return(self, n: ast.Return):
        self.generic_visit(n)
        return self._hoist_choice(n) or n

    def visit_Expr(self, n: ast.Expr):
        self.generic_visit(n)
        return self._hoist_choice(n) or n

    def visit_AnnAssign(self, n: ast.AnnAssign):
        self.generic_visit(n)
        return self._hoist_choice(n) or n

    def visit_Assign(self, n: ast.Assign):
        self.generic_visit(n)
        h = self._hoist_choice(n)
        if h is not None:
            return h
        # v = F if c else G  (function values)  ->  if c: v = F else: v = G   (a call through v is then split by definition)
        if len(n.targets) == 1 and isinstance(n.targets[0], ast.Name) and isinstance(n.value, ast.IfExp) and self.N.is_function_ref(n.value):
            return self._split_choice(n, n.value)
        return n

    def _split_choice(self, st: ast.Assign, v: ast.IfExp) -> ast.stmt:
        def arm(x):
            a = ast.copy_location(ast.Assign(targets=copy.deepcopy(st.targets), value=x, lineno=st.lineno), st)
            return self._split_choice(a, x) if isinstance(x, ast.IfExp) else a
        self.N.changed = True
        return ast.copy_location(ast.If(test=v.test, body=[arm(v.body)], orelse=[arm(v.orelse)]), st)

    def _lazy_alias(self, it: ast.AST) -> Optional[ast.AST]:
        """`g = helper_generator(x)` bound once and consumed once, as the iterable of a loop / comprehension: the call itself"""
        N = self.N
        if not (isinstance(it, ast.Name) and N.is_local(it.id) and N.loads.get(it.id, 0) == 1):
            return None
        b = N.single(it.id)
        if b is None or isinstance(b, ast.FunctionDef) or id(b) in N.drop or not N.generator_helper(b.value):
            return None
        N.drop.add(id(b))
        return copy.deepcopy(b.value)

    def visit_Name(self, n: ast.Name):
        if isinstance(n.ctx, ast.Load) and self.N.is_local(n.id):
            c = self.N.local_constant(n.id)
            if c is not None:
                self.N.changed = True
                return ast.copy_location(ast.Constant(value=c.value), n)
        if isinstance(n.ctx, ast.Load) and not self.N.is_local(n.id) and not self.N.repo.lookup(self.N.mod, n.id):
            c = self.N.unpacked_constant(n.id)
            if c is not None:
                from ..inline import FoldedConstant
                new = FoldedConstant(value=c.value)
                new.const_name = n.id
                self.N.changed = True
                return ast.copy_location(new, n)
        return n

    def visit_For(self, n: ast.For):
        self.generic_visit(n)
        tbl = self.N.local_table(n.iter) or self._lazy_alias(n.iter)
        if tbl is not None:
            n.iter = _relocate(tbl, n.iter)
            self.N.changed = True
            return n
        src = self._source(n.iter)
        if src is None:
            return n
        tgt, it, ifs, elt = self._fresh_vars(src)
        body: List[ast.stmt] = [ast.copy_location(ast.Assign(targets=[n.target], value=elt, lineno=n.lineno), n.iter)] + list(n.body)
        for c in reversed(ifs):
            body = [ast.copy_location(ast.If(test=c, body=body, orelse=[]), n.iter)]
        new = ast.copy_location(ast.For(target=tgt, iter=it, body=body, orelse=n.orelse, lineno=n.lineno), n)
        self.N.changed = True
        return new

    def _fuse(self, n):
        self.in_expr_only += 1
        try:
            self.generic_visit(n)
        finally:
            self.in_expr_only -= 1
        for gi_, g in enumerate(n.generators):
            tbl = self.N.local_table(g.iter) or (self._lazy_alias(g.iter) if gi_ == 0 else None)
            if tbl is not None:
                g.iter = _relocate(tbl, g.iter)
                self.N.changed = True
        g0 = n.generators[0]
        src = self._source(g0.iter)
        if src is None or g0.is_async:
            return n
        tgt, it, ifs, elt = self._fresh_vars(src)
        # the outer variable(s) stand for the inner element
        if isinstance(g0.target, ast.Name):
            mapping = {g0.target.id: elt}
        elif isinstance(g0.target, (ast.Tuple, ast.List)) and isinstance(elt, ast.Tuple) and len(elt.elts) == len(g0.target.elts) \
                and all(isinstance(x, ast.Name) for x in g0.target.elts):
            mapping = {t.id: v for t, v in zip(g0.target.elts, elt.elts)}
        else:
            return n
        rebound = set()
        for g in n.generators[1:]:
            rebound |= _names(g.target)
        inner_bound = set()
        for part in ([n.elt] if not isinstance(n, ast.DictComp) else [n.key, n.value]):
            inner_bound |= _bound_inside(part)
        if rebound & set(mapping) or inner_bound & set(mapping) or any(_names(v) & (rebound | inner_bound) for v in mapping.values()):
            return n
        sub = _Subst(mapping)
        g0.target, g0.iter = tgt, it
        g0.ifs = ifs + [sub.visit(x) for x in g0.ifs]
        for g in n.generators[1:]:
            g.iter = sub.visit(g.iter)
            g.ifs = [sub.visit(x) for x in g.ifs]
        if isinstance(n, ast.DictComp):
            n.key, n.value = sub.visit(n.key), sub.visit(n.value)
        else:
            n.elt = sub.visit(n.elt)
        self.N.changed = True
        return _relocate(n, n)

    visit_ListComp = visit_SetComp = visit_GeneratorExp = visit_DictComp = _fuse


def record_fields(repo: Repo, modname: str, e: ast.AST, is_local=lambda n: False) -> Optional[Dict[str, ast.AST]]:
    """{field: argument expression} in field order when `e` is `R(..)` with R a NamedTuple / dataclass class of the repository whose
    constructor is the generated one"""
    if not (isinstance(e, ast.Call) and isinstance(e.func, ast.Name)) or is_local(e.func.id):
        return None
    r = repo.lookup(modname, e.func.id)
    if not r or r[0] != "class" or e.func.id not in repo.classes:
        return None
    ci = repo.classes[e.func.id]
    node = ci.node
    is_nt = any((isinstance(b, ast.Name) and b.id == "NamedTuple") or (isinstance(b, ast.Attribute) and b.attr == "NamedTuple") for b in node.bases)
    is_dc = any("dataclass" in ast.unparse(d) for d in node.decorator_list)
    if not (is_nt or is_dc) or (is_nt and len(node.bases) != 1) or (is_dc and node.bases):
        return None
    if any(m in ci.methods for m in ("__init__", "__new__", "__post_init__", "__getattr__", "__getattribute__", "__getitem__")):
        return None
    fields: List[Tuple[str, Optional[ast.AST]]] = []
    for b in node.body:
        if isinstance(b, ast.AnnAssign) and isinstance(b.target, ast.Name):
            if "ClassVar" in ast.unparse(b.annotation):
                continue
            fields.append((b.target.id, b.value))
    if not fields or any(isinstance(a, ast.Starred) for a in e.args) or any(k.arg is None for k in e.keywords) or len(e.args) > len(fields):
        return None
    out: Dict[str, ast.AST] = {}
    kw = {k.arg: k.value for k in e.keywords}
    for i, (name, default) in enumerate(fields):
        if i < len(e.args):
            if name in kw:
                return None
            out[name] = e.args[i]
        elif name in kw:
            out[name] = kw[name]
        elif default is not None and isinstance(default, ast.Constant):
            out[name] = default
        else:
            return None
    if set(kw) - set(out):
        return None
    return out


def record_property(repo: Repo, ctor: ast.AST, attr: str, rec: Dict[str, ast.AST]) -> Optional[ast.AST]:
    """`R(..).prop` for a property of the record class whose body is one `return <expr>` that reads nothing of self but fields:
    that expression with the fields replaced by the constructor arguments"""
    if not (isinstance(ctor, ast.Call) and isinstance(ctor.func, ast.Name)):
        return None
    ci = repo.classes.get(ctor.func.id)
    m = ci.methods.get(attr) if ci is not None else None
    if m is None or attr not in ci.props or len(m.decorator_list) != 1 or not m.args.args or len(m.args.args) != 1:
        return None
    expr = Normaliser._one_expression(m)
    if expr is None:
        return None
    self_name = m.args.args[0].arg
    if not Normaliser._only_field_reads(expr, self_name, rec):
        return None
    if _bound_inside(expr) or any(isinstance(x, ast.Name) and x.id != self_name and isinstance(x.ctx, ast.Load) and x.id not in ("True", "False", "None") for x in ast.walk(expr)):
        return None         # other names would have to be resolved in the class's module

    class F(ast.NodeTransformer):
        def visit_Attribute(self, a):
            if isinstance(a.value, ast.Name) and a.value.id == self_name and a.attr in rec:
                return copy.deepcopy(rec[a.attr])
            return self.generic_visit(a)
    return F().visit(copy.deepcopy(expr))


# --------------------------------------------------------------------------------------------------------- values
class Leaf:
    """an expression a value comes from; `mod` is set when the node lives at module level (a constant), `via` lists the global
    names that were followed to get there"""

    def __init__(self, node: ast.AST, mod: Optional[str] = None, via: Tuple[str, ...] = ()):
        self.node, self.mod, self.via = node, mod, via


Op = Tuple[str, Tuple[object, ...], Optional[ast.AST]]     # (name, constant arguments or ('?',) , node)

TRANSPARENT = ("list", "tuple", "iter")
REORDER = ("sorted", "reversed", "set", "frozenset")


def is_empty_list(n: ast.AST) -> bool:
    if isinstance(n, (ast.List, ast.Tuple)) and not n.elts:
        return True
    return isinstance(n, ast.Call) and isinstance(n.func, ast.Name) and n.func.id == "list" and not n.args and not n.keywords


def const_int(e: Optional[ast.AST]):
    if isinstance(e, ast.Constant) and isinstance(e.value, int) and not isinstance(e.value, bool):
        return e.value
    if isinstance(e, ast.UnaryOp) and isinstance(e.op, ast.USub) and isinstance(e.operand, ast.Constant) and isinstance(e.operand.value, int):
        return -e.operand.value
    return None


class View:
    def __init__(self, repo: Repo, f: FuncInfo, G: L.Guards, valuation: Dict[str, bool]):
        self.repo, self.f, self.G, self.g = repo, f, G, G.g
        self.valuation = dict(valuation)
        self.val, self.seen = G.under(self.valuation)
        self.p = L.prov(repo, f)
        self._full = L.rd_of(f)
        self._in: Dict[int, Set[Tuple[str, int]]] = {}
        self.aug_transparent: Set[str] = set()
        self._solve()
        self.ev = _Ev(repo, f)
        self.ev.rd = self          # the shape evaluator follows the restricted definitions

    # ---------------------------------------------------------------- restricted reaching definitions
    def _allowed(self, n: int, label) -> bool:
        kind, st = self.g.kind[n], self.g.stmt[n]
        if kind == "if" or (kind == "loop" and isinstance(st, ast.While)):
            bv = C.eval3(st.test, self.val)
            if kind == "if" and bv is not None and label != bv:
                return False
            if kind == "loop" and bv is not None and label in ("iter", "done") and (label == "iter") != bv:
                return False
        if kind == "assert":
            bv = C.eval3(st.test, self.val)
            if (bv is True and label == "fail") or (bv is False and label == "ok"):
                return False
        return True

    def _solve(self) -> None:
        g = self.g
        nodes = [n for n in g.nodes() if n in self.seen]
        gen: Dict[int, Set[Tuple[str, int]]] = {}
        kill: Dict[int, Set[str]] = {}
        for n in nodes:
            names = set(self.f.params) if n == g.entry else C.defs_of(g.stmt[n])
            gen[n] = {(x, n) for x in names}
            kill[n] = names
        preds: Dict[int, List[int]] = {n: [] for n in nodes}
        succs: Dict[int, List[int]] = {n: [] for n in nodes}
        for n in nodes:
            for m, l in g.succ[n]:
                if m in self.seen and self._allowed(n, l):
                    preds[m].append(n)
                    succs[n].append(m)
        IN = {n: set() for n in nodes}
        OUT = {n: set(gen[n]) for n in nodes}
        work = list(nodes)
        while work:
            n = work.pop()
            new_in: Set[Tuple[str, int]] = set()
            for q in preds[n]:
                new_in |= OUT[q]
            IN[n] = new_in
            new_out = {d for d in new_in if d[0] not in kill[n]} | gen[n]
            if new_out != OUT[n]:
                OUT[n] = new_out
                work.extend(succs[n])
        self._in = IN

    def defs_reaching(self, node: int, name: str) -> Set[int]:
        """same interface as cfg.ReachingDefs.  For the names in `aug_transparent` an augmented assignment (`xs += [..]`: an
        in-place extension of a list) is a mutation, not a definition: the definitions that reach IT are returned instead."""
        if node in self._in:
            ds = {d for (x, d) in self._in[node] if x == name}
        else:
            ds = self._full.defs_reaching(node, name)
        if name in self.aug_transparent:
            done: Set[int] = set()
            while any(isinstance(self.g.stmt[d], ast.AugAssign) for d in ds):
                nxt: Set[int] = set()
                for d in ds:
                    if isinstance(self.g.stmt[d], ast.AugAssign):
                        if d not in done:
                            done.add(d)
                            nxt |= {x for x in (self.defs_reaching_raw(d, name))}
                    else:
                        nxt.add(d)
                ds = nxt
        return ds

    def defs_reaching_raw(self, node: int, name: str) -> Set[int]:
        if node in self._in:
            return {d for (x, d) in self._in[node] if x == name}
        return self._full.defs_reaching(node, name)

    # ---------------------------------------------------------------- helpers
    def node_of(self, e: ast.AST) -> Optional[int]:
        try:
            return self.p.node_of(e)
        except KeyError:
            return None

    def reachable(self, e: ast.AST) -> bool:
        n = self.node_of(e)
        return n is not None and n in self.seen and self.G.reaches_expr(self.valuation, e, seen=self.seen)

    def returns(self) -> List[ast.Return]:
        g = self.g
        return [g.stmt[n] for n in sorted(self.seen) if g.kind[n] == "return"]

    def _global(self, name: str, mod: str):
        r = self.repo.lookup(mod, name)
        if r and r[0] == "const":
            return r[1], r[2]
        return None

    def _class_const(self, e: ast.Attribute):
        """self.X / Class.X where X is assigned once in the class body and nowhere through an instance: (value node, module)"""
        if not (isinstance(e.value, ast.Name) and self.f.cls and self.f.cls in self.repo.classes):
            return None
        recv = e.value.id
        if not (recv == self.f.self_name or recv == self.f.cls or recv == "cls"):
            return None
        if recv != self.f.cls:
            n = self.node_of(e.value)
            if n is not None and self.defs_reaching(n, recv) - {self.g.entry}:
                return None
        for c in self.repo.mro(self.f.cls):
            ci = self.repo.classes[c]
            vals = [b.value for b in ci.node.body if (isinstance(b, ast.Assign) and any(isinstance(t, ast.Name) and t.id == e.attr for t in b.targets))
                    or (isinstance(b, ast.AnnAssign) and isinstance(b.target, ast.Name) and b.target.id == e.attr and b.value is not None)]
            if vals:
                stored = any(isinstance(x, ast.Attribute) and x.attr == e.attr and isinstance(x.ctx, ast.Store) for x in ast.walk(ci.node))
                return None if stored or len(vals) != 1 else (vals[0], ci.mod)
        return None

    def is_module_ref(self, e: ast.AST, modname: str, ctx_mod: Optional[str] = None) -> bool:
        """the expression names the external module `modname` (import re / import re as regex)"""
        if not isinstance(e, ast.Name):
            return False
        if ctx_mod is None:
            n = self.node_of(e)
            if n is not None and self.defs_reaching(n, e.id):
                return False
        r = self.repo.lookup(ctx_mod or self.f.mod.name, e.id)
        return bool(r) and r[0] in ("module", "external") and (r[1] == modname or r[1] == (modname, None))

    def external_attr(self, e: ast.AST, modname: str, ctx_mod: Optional[str] = None) -> Optional[str]:
        """`re.X` / `from re import X [as Y]` -> 'X'"""
        if isinstance(e, ast.Attribute) and self.is_module_ref(e.value, modname, ctx_mod):
            return e.attr
        if isinstance(e, ast.Name):
            if ctx_mod is None:
                n = self.node_of(e)
                if n is not None and self.defs_reaching(n, e.id):
                    return None
            r = self.repo.lookup(ctx_mod or self.f.mod.name, e.id)
            if r and r[0] == "external" and isinstance(r[1], tuple) and r[1][0] == modname and r[1][1]:
                return r[1][1]
        return None

    # ---------------------------------------------------------------- alternatives
    @staticmethod
    def _paired(target: ast.AST, value: ast.AST, name: str) -> Optional[ast.AST]:
        if isinstance(target, ast.Name):
            return value if target.id == name else None
        if isinstance(target, (ast.Tuple, ast.List)) and isinstance(value, (ast.Tuple, ast.List)) and len(target.elts) == len(value.elts) \
                and not any(isinstance(x, ast.Starred) for x in list(target.elts) + list(value.elts)):
            for te, ve in zip(target.elts, value.elts):
                if name in C.target_names(te):
                    return View._paired(te, ve, name)
        return None

    def _def_value(self, d: int, name: str) -> Optional[ast.AST]:
        """the expression assigned to `name` by the definition at node d (None when it is not a plain assignment)"""
        st = self.g.stmt[d]
        if isinstance(st, ast.Assign):
            for t in st.targets:
                if name in C.target_names(t):
                    return self._paired(t, st.value, name)
            return None
        if isinstance(st, ast.AnnAssign) and st.value is not None and isinstance(st.target, ast.Name):
            return st.value
        h = C.header(st) if st is not None else None
        if h is not None and not isinstance(st, (ast.For, ast.With, ast.AugAssign)):
            for n in ast.walk(h):
                if isinstance(n, ast.NamedExpr) and isinstance(n.target, ast.Name) and n.target.id == name:
                    return n.value
        return None

    def alts(self, e: ast.AST, mod: Optional[str] = None, alias_only: bool = False, _via: Tuple[str, ...] = (), _vis: frozenset = frozenset(),
             _depth: int = 0) -> List[Leaf]:
        """where the value of `e` can come from under the valuation.  alias_only: definitions are followed only while they are plain
        copies / choices (the name that holds a freshly built container stays a leaf, so that its later mutations are seen)"""
        if _depth > 30:
            return [Leaf(e, mod, _via)]
        R = lambda x, **kw: self.alts(x, kw.get("mod", mod), alias_only, kw.get("via", _via), kw.get("vis", _vis), _depth + 1)
        if isinstance(e, ast.IfExp):
            tv = C.eval3(e.test, self.val) if mod is None else None
            if tv is True:
                return R(e.body)
            if tv is False:
                return R(e.orelse)
            return R(e.body) + R(e.orelse)
        if isinstance(e, ast.NamedExpr):
            return R(e.value)
        if isinstance(e, ast.Attribute) and isinstance(e.ctx, ast.Load) and mod is None:
            cc = self._class_const(e)
            if cc is not None and ("c", e.attr) not in _vis:
                return R(cc[0], mod=cc[1], via=_via + (e.attr,), vis=_vis | {("c", e.attr)})
        if isinstance(e, ast.Subscript) and isinstance(e.ctx, ast.Load) and not isinstance(e.slice, ast.Slice) and ("s", id(e)) not in _vis:
            rows = self._table_rows(e, mod)
            if rows is not None:
                out_t: List[Leaf] = []
                for x, leaf in rows:
                    out_t += R(x, mod=leaf.mod, via=_via + leaf.via, vis=_vis | {("s", id(e))})
                return out_t
        if isinstance(e, (ast.Attribute, ast.Subscript)) and isinstance(e.ctx, ast.Load) and mod is None:
            part = self._component(e)
            if part is not None:
                out_: List[Leaf] = []
                for x, leaf in part:
                    out_ += R(x, mod=leaf.mod, via=_via + leaf.via)
                return out_
        if isinstance(e, ast.Call) and isinstance(e.func, ast.Name) and e.func.id == "next" and len(e.args) == 2 and not e.keywords and mod is None \
                and not self._local(e.func) and not alias_only:
            gens = [leaf.node for leaf in self.alts(e.args[0])]
            if gens and all(isinstance(x, ast.GeneratorExp) for x in gens):     # the first element that passes, else the default
                out_n: List[Leaf] = []
                for x in gens:
                    out_n += R(x.elt)
                return out_n + R(e.args[1])
        if isinstance(e, ast.Constant) and getattr(e, "const_name", ""):
            return [Leaf(e, mod, _via + (e.const_name,))]      # a module constant the inliner put in place of its name
        if not (isinstance(e, ast.Name) and isinstance(e.ctx, ast.Load)):
            return [Leaf(e, mod, _via)]
        if mod is not None:
            gl = self._global(e.id, mod)
            if gl is None or ("g", mod, e.id) in _vis:
                return [Leaf(e, mod, _via)]
            return R(gl[0], mod=gl[1], via=_via + (e.id,), vis=_vis | {("g", mod, e.id)})
        cb = self.p._comp_binding(e)
        if cb is not None:
            if cb != "lambda" and isinstance(cb, ast.comprehension) and ("t", id(cb), e.id) not in _vis:
                els = self._table_elements(cb.target, cb.iter, e.id)
                if els is not None:
                    out_c: List[Leaf] = []
                    for x, leaf in els:
                        out_c += R(x, mod=leaf.mod, via=_via + leaf.via, vis=_vis | {("t", id(cb), e.id)})
                    return out_c
            return [Leaf(e, None, _via)]
        at = self.node_of(e)
        if at is None:
            return [Leaf(e, None, _via)]
        ds = self.defs_reaching(at, e.id)
        if not ds:
            gl = self._global(e.id, self.f.mod.name)
            if gl is None:
                return [Leaf(e, None, _via)]
            return R(gl[0], mod=gl[1], via=_via + (e.id,), vis=_vis | {("g", gl[1], e.id)})
        if alias_only and any(isinstance(self.g.stmt[d], ast.AugAssign) for d in ds):
            return [Leaf(e, None, _via)]        # a list extended in place (`xs += [..]`): the name holds the container
        out: List[Leaf] = []
        stop = False
        for d in sorted(ds):
            if (e.id, d) in _vis or d == self.g.entry:
                stop = True
                continue
            v = self._def_value(d, e.id)
            if v is None and isinstance(self.g.stmt[d], ast.For) and not alias_only:
                # the element variable of a loop over a constant table: the corresponding component of every row
                st_ = self.g.stmt[d]
                els = self._table_elements(st_.target, st_.iter, e.id)
                if els is not None:
                    for x, leaf in els:
                        out += R(x, mod=leaf.mod, via=_via + leaf.via, vis=_vis | {(e.id, d)})
                    continue
            if v is None:
                stop = True
                continue
            if alias_only and not isinstance(v, (ast.Name, ast.IfExp, ast.NamedExpr)):
                whole = getattr(self.g.stmt[d], "value", None) is v
                if len(ds) == 1 and (whole or e.id in getattr(self.p, "_content", {})):
                    stop = True                         # the name that holds the container: its mutations are looked at
                else:
                    out.append(Leaf(v, None, _via))     # one of several definitions / one side of a tuple assignment: the built value
                continue
            out += R(v, vis=_vis | {(e.id, d)})
        if stop:
            out.append(Leaf(e, None, _via))
        return out

    def _table_rows(self, e: ast.Subscript, mod: Optional[str]) -> Optional[List[Tuple[ast.AST, Leaf]]]:
        """`TABLE[key]` for a dict display with constant keys at module / class level: the values the key can select under the
        valuation (every value when the key is not a known constant)"""
        if isinstance(e.value, (ast.Call, ast.Constant, ast.Subscript)):
            return None
        tables = self.alts(e.value, mod)
        if not tables or not all(isinstance(t.node, ast.Dict) and t.mod is not None and t.node.keys
                                 and all(isinstance(k, ast.Constant) for k in t.node.keys) for t in tables):
            return None
        keys = self.alts(e.slice, mod)
        known = [k.node.value for k in keys] if keys and all(isinstance(k.node, ast.Constant) for k in keys) else None
        out: List[Tuple[ast.AST, Leaf]] = []
        for t in tables:
            for k, v in zip(t.node.keys, t.node.values):
                if known is None or any(type(k.value) is type(x) and k.value == x for x in known):
                    out.append((v, t))
        return out or None

    def const_values(self, e: ast.AST, _depth: int = 0) -> Optional[Set[object]]:
        """the constants the expression can evaluate to under the valuation (None: some alternative is not a constant)"""
        if isinstance(e, ast.Compare) and len(e.ops) == 1:
            l, r_ = self.const_values(e.left), self.const_values(e.comparators[0])
            op = e.ops[0]
            if isinstance(op, (ast.In, ast.NotIn)) and l is not None and isinstance(e.comparators[0], (ast.Tuple, ast.List, ast.Set)) \
                    and all(isinstance(x, ast.Constant) for x in e.comparators[0].elts):
                members = [x.value for x in e.comparators[0].elts]
                return {(a in members) == isinstance(op, ast.In) for a in l}
            if l is None or r_ is None or not isinstance(op, (ast.Eq, ast.NotEq, ast.Is, ast.IsNot)):
                return None
            pos = isinstance(op, (ast.Eq, ast.Is))
            return {((type(a) is type(b) and a == b) == pos) for a in l for b in r_}
        if isinstance(e, ast.UnaryOp) and isinstance(e.op, ast.Not):
            x = self.const_values(e.operand)
            return None if x is None else {not bool(a) for a in x}
        if not isinstance(e, (ast.Name, ast.Attribute, ast.Subscript, ast.Constant, ast.IfExp, ast.NamedExpr)):
            return None
        try:
            leaves = self.alts(e)
        except (KeyError, RecursionError):
            return None
        if not leaves:
            return None
        out: Set[object] = set()
        for x in leaves:
            if isinstance(x.node, ast.Constant):
                out.add(x.node.value)
            elif x.node is not e and x.mod is None and isinstance(x.node, (ast.Compare, ast.UnaryOp)) and _depth < 6:
                sub = self.const_values(x.node, _depth + 1)       # what a property of a record evaluates to
                if sub is None:
                    return None
                out |= sub
            else:
                return None
        return out

    def _table_elements(self, target: ast.AST, it: ast.AST, name: str) -> Optional[List[Tuple[ast.AST, Leaf]]]:
        """what the variable `name` of the loop target stands for when the loop runs over a constant table (a list / tuple display,
        local or at module / class level, whose rows have the shape of the target): (component expression, leaf of the table)"""
        out: List[Tuple[ast.AST, Leaf]] = []
        tables = self.alts(it)
        if not tables:
            return None
        for leaf in tables:
            t = leaf.node
            if not isinstance(t, (ast.List, ast.Tuple)) or not t.elts or any(isinstance(x, ast.Starred) for x in t.elts):
                return None
            if leaf.mod is None and isinstance(it, ast.Name) and it.id in getattr(self.p, "_content", {}):
                return None         # a local list that is filled later
            for row in t.elts:
                x = self._paired(target, row, name)
                if x is None:
                    return None
                out.append((x, leaf))
        return out

    def _component(self, e: ast.AST) -> Optional[List[Tuple[ast.AST, Leaf]]]:
        """`r.field` / `r[i]` where every value r can be is a freshly built record (NamedTuple / dataclass of the repository) or a
        tuple display, `TABLE[key]` / `TABLE.get(key)` handled elsewhere: (component expression, the leaf it was taken from)"""
        if isinstance(e, ast.Subscript) and (const_int(e.slice) is None or isinstance(e.value, (ast.Tuple, ast.Call))):
            return None
        if isinstance(e.value, (ast.Constant, ast.Call)):
            return None
        base = self.alts(e.value)
        if not base or all(leaf.node is e.value for leaf in base):
            return None
        out: List[Tuple[ast.AST, Leaf]] = []
        for leaf in base:
            n = leaf.node
            rec = record_fields(self.repo, leaf.mod or self.f.mod.name, n, (lambda nm: self._local_name(nm)) if leaf.mod is None else (lambda nm: False))
            if isinstance(e, ast.Attribute):
                if rec is not None and e.attr not in rec:
                    px = record_property(self.repo, n, e.attr, rec)     # a one-expression property over the fields
                    if px is None:
                        return None
                    out.append((px, leaf))
                    continue
                if rec is None or e.attr not in rec:
                    return None
                out.append((rec[e.attr], leaf))
            else:
                vals = list(rec.values()) if rec is not None else (list(n.elts) if isinstance(n, ast.Tuple) and not any(isinstance(x, ast.Starred) for x in n.elts) else None)
                i = const_int(e.slice)
                if vals is None or not (-len(vals) <= i < len(vals)):
                    return None
                out.append((vals[i], leaf))
        return out

    def _local_name(self, name: str) -> bool:
        return any(x == name for defs in self._in.values() for (x, _d) in defs)

    # ---------------------------------------------------------------- operation chains
    def chains(self, e: ast.AST, mod: Optional[str] = None, _depth: int = 0, stop=None) -> List[Tuple[Tuple[Op, ...], Leaf]]:
        """[(operations applied innermost-first, base leaf)] for every alternative of e; an expression for which stop(node, mod)
        holds is a base"""
        out: List[Tuple[Tuple[Op, ...], Leaf]] = []
        if _depth > 30:
            return [((), Leaf(e, mod))]
        for leaf in self.alts(e, mod):
            n, m = leaf.node, leaf.mod
            inner: Optional[ast.AST] = None
            op: Optional[Op] = None
            if stop is not None and stop(n, m):
                pass
            elif isinstance(n, ast.Call) and isinstance(n.func, ast.Attribute) and not self._is_module_attr(n.func, m):
                args: Tuple[object, ...] = tuple(a.value if isinstance(a, ast.Constant) else (const_int(a) if const_int(a) is not None else "?") for a in n.args) + \
                    tuple(f"{k.arg}=" + (repr(k.value.value) if isinstance(k.value, ast.Constant) else "?") for k in n.keywords)
                inner, op = n.func.value, (n.func.attr, args, n)
            elif isinstance(n, ast.Call) and isinstance(n.func, ast.Name) and n.args and n.func.id in TRANSPARENT + REORDER + ("str",) \
                    and not (m is None and self._local(n.func)):
                plain = len(n.args) == 1 and not n.keywords
                if n.func.id in REORDER:
                    inner, op = n.args[0], (n.func.id, () if plain else ("?",), n)
                elif plain:
                    inner = n.args[0]
            elif isinstance(n, ast.Subscript):
                if isinstance(n.slice, ast.Slice):
                    inner, op = n.value, ("slice", (), n)
                else:
                    ci = const_int(n.slice)
                    inner, op = n.value, ("item", (ci if ci is not None else "?",), n)
            elif isinstance(n, ast.FormattedValue) and n.format_spec is None and n.conversion in (-1, 115):
                inner = n.value
            elif isinstance(n, ast.JoinedStr) and len(n.values) == 1 and isinstance(n.values[0], ast.FormattedValue) \
                    and n.values[0].format_spec is None and n.values[0].conversion in (-1, 115):
                inner = n.values[0].value
            if inner is None:
                out.append(((), leaf))
                continue
            for ops, base in self.chains(inner, m, _depth + 1, stop):
                out.append((ops + ((op,) if op is not None else ()), Leaf(base.node, base.mod, base.via + leaf.via)))
        return out

    def _is_module_attr(self, fn: ast.Attribute, mod: Optional[str]) -> bool:
        """`re.finditer` -- an attribute of an imported module, not a method call on a value"""
        v = fn.value
        if not isinstance(v, ast.Name):
            return False
        if mod is None:
            n = self.node_of(v)
            if n is not None and self.defs_reaching(n, v.id):
                return False
            if self.p._comp_binding(v) is not None:
                return False
        r = self.repo.lookup(mod or self.f.mod.name, v.id)
        return bool(r) and r[0] in ("module", "external")

    # ---------------------------------------------------------------- constants
    def strings(self, e: ast.AST, mod: Optional[str] = None) -> List[Tuple[Optional[str], Leaf]]:
        """constant text of every alternative of the expression (None when an alternative is not a constant)"""
        out = []
        for leaf in self.alts(e, mod):
            n = leaf.node
            if isinstance(n, ast.Constant) and isinstance(n.value, str):
                out.append((n.value, leaf))
                continue
            ok, v = (False, None)
            if leaf.mod is not None or not any(isinstance(x, ast.Name) and self._local(x) for x in ast.walk(n)):
                ok, v = self.repo.fold(n, leaf.mod or self.f.mod.name)
                if not (ok and isinstance(v, str)):
                    v = self._fold_text(n, leaf.mod or self.f.mod.name)
                    ok = v is not None
            out.append((v if ok and isinstance(v, str) else None, leaf))
        return out

    def _fold_text(self, n: ast.AST, mod: str, depth: int = 0) -> Optional[str]:
        """constant text built at module level with str.format / % / join / + from other constants"""
        if depth > 12:
            return None
        F = lambda x: self._fold_text(x, mod, depth + 1)
        ok, v = self.repo.fold(n, mod)
        if ok and isinstance(v, (str, int)) and not isinstance(v, bool):
            return str(v) if isinstance(v, str) or depth else None
        if isinstance(n, ast.Name):
            gl = self._global(n.id, mod)
            return self._fold_text(gl[0], gl[1], depth + 1) if gl else None
        if isinstance(n, ast.BinOp) and isinstance(n.op, ast.Add):
            a, b = F(n.left), F(n.right)
            return a + b if a is not None and b is not None else None
        if isinstance(n, ast.JoinedStr):
            parts = []
            for x in n.values:
                if isinstance(x, ast.Constant):
                    parts.append(str(x.value))
                elif isinstance(x, ast.FormattedValue) and x.format_spec is None and x.conversion == -1:
                    parts.append(F(x.value))
                else:
                    return None
            return "".join(parts) if all(x is not None for x in parts) else None
        if isinstance(n, ast.BinOp) and isinstance(n.op, ast.Mod):
            t = F(n.left)
            args = [F(x) for x in (n.right.elts if isinstance(n.right, ast.Tuple) else [n.right])]
            if t is None or any(a is None for a in args) or re.search(r"%[^s%]", t):
                return None
            try:
                return t % tuple(args)
            except (TypeError, ValueError):
                return None
        if isinstance(n, ast.Call) and isinstance(n.func, ast.Attribute) and not any(isinstance(a, ast.Starred) for a in n.args) \
                and not any(k.arg is None for k in n.keywords):
            if n.func.attr == "format":
                t = F(n.func.value)
                args = [F(a) for a in n.args]
                kws = {k.arg: F(k.value) for k in n.keywords}
                if t is None or any(a is None for a in args) or any(x is None for x in kws.values()):
                    return None
                try:
                    import string as _string
                    if any(spec or conv for _l, fld, spec, conv in _string.Formatter().parse(t) if fld is not None):
                        return None
                    return t.format(*args, **kws)
                except (IndexError, KeyError, ValueError):
                    return None
            if n.func.attr == "join" and len(n.args) == 1 and not n.keywords and isinstance(n.args[0], (ast.List, ast.Tuple)):
                sep = F(n.func.value)
                parts = [F(x) for x in n.args[0].elts]
                if sep is None or any(x is None for x in parts):
                    return None
                return sep.join(parts)
        return None

    def _local(self, name: ast.Name) -> bool:
        n = self.node_of(name)
        return n is not None and bool(self.defs_reaching(n, name.id))

    # ---------------------------------------------------------------- lists
    def lists(self, e: ast.AST, _depth: int = 0) -> List[Tuple[str, object, ast.AST]]:
        """every list the expression can denote:
        ('empty', None, node) | ('seq', strshape.Seq, node) | ('partial', why, node): interpreted, but only a part / a filtered
        copy of a list | ('opaque', why, node): not interpreted"""
        out: List[Tuple[str, object, ast.AST]] = []
        for leaf in self.alts(e, alias_only=True):
            n = leaf.node
            if leaf.mod is not None:
                out.append(("opaque", "a module-level value", n))
                continue
            if is_empty_list(n):
                out.append(("empty", None, n))
                continue
            if isinstance(n, ast.Call) and isinstance(n.func, ast.Name) and n.func.id in TRANSPARENT + REORDER and n.args and _depth < 8 \
                    and not self._local(n.func) and not isinstance(n.args[0], (ast.ListComp, ast.GeneratorExp, ast.SetComp)):
                for k, sq, nn in self.lists(n.args[0], _depth + 1):
                    if k == "seq" and n.func.id in REORDER:
                        sq = S.Seq(sq.items, n.func.id)
                    out.append((k, sq, nn if k != "seq" else n))
                continue
            if isinstance(n, ast.Subscript) and isinstance(n.slice, ast.Slice) and _depth < 8:
                inner = self.lists(n.value, _depth + 1)
                if inner and all(k in ("seq", "empty", "partial") for k, _s, _n in inner):
                    out.append(("partial", "a slice of the list", n))
                    continue
            try:
                seq = self.ev.sequence(n)
            except S.NotInterpretable as ex:
                out.append(("opaque", str(ex), n))
                continue
            except (KeyError, RecursionError) as ex:   # expression outside the CFG
                out.append(("opaque", f"not located ({type(ex).__name__})", n))
                continue
            if not seq.items and not seq.ordered:
                out.append(("empty", None, n))
            else:
                out.append(("seq", seq, n))
        return out

    def loop_var(self, loop: S.Loop) -> Tuple[Optional[ast.AST], ast.AST, bool]:
        """(element target, iterated expression, enumerate-wrapped) of a repetition"""
        tgt, it = loop.target, loop.iter
        for leaf in self.alts(it) if isinstance(it, ast.Name) else [Leaf(it)]:
            n = leaf.node
            if isinstance(n, ast.Call) and isinstance(n.func, ast.Name) and n.func.id == "enumerate" and n.args and \
                    isinstance(tgt, (ast.Tuple, ast.List)) and len(tgt.elts) == 2:
                return tgt.elts[1], n.args[0], True
        return tgt, it, False

    def bound_by(self, name: ast.AST, loop: S.Loop, target: Optional[ast.AST]) -> bool:
        """the Name is the element variable `target` of that repetition (for statement or comprehension)"""
        if not (isinstance(name, ast.Name) and isinstance(target, ast.Name) and name.id == target.id):
            return False
        node = loop.node
        if isinstance(node, ast.For):
            at = self.node_of(name)
            ds = self.defs_reaching(at, name.id) if at is not None else set()
            return bool(ds) and all(self.g.stmt[d] is node for d in ds)
        if isinstance(node, (ast.ListComp, ast.SetComp, ast.GeneratorExp)):
            gen = self.p._comp_binding(name)
            return gen is not None and gen != "lambda" and any(gen is x for x in node.generators)
        return False


class _Ev(S.Evaluator):
    """strshape evaluator + printf-style templates ('(%s)\\n' % x)"""

    def _list_name(self, e: ast.Name, depth: int) -> S.Seq:
        tr = getattr(self.rd, "aug_transparent", None)
        if tr is None or e.id in tr:
            return super()._list_name(e, depth)
        tr.add(e.id)
        try:
            return super()._list_name(e, depth)
        finally:
            tr.discard(e.id)

    def string(self, e: ast.AST, depth: int = 0) -> S.Shape:
        if isinstance(e, (ast.Attribute, ast.Subscript)) and isinstance(self.rd, View):
            try:
                ss = self.rd.strings(e)          # a class-level / table constant
            except (KeyError, RecursionError):
                ss = []
            if len(ss) == 1 and ss[0][0] is not None and ss[0][1].mod is not None:
                return S.Lit(ss[0][0])
        if isinstance(e, ast.BinOp) and isinstance(e.op, ast.Mod) and depth <= 25:
            t = self.string(e.left, depth + 1)
            if isinstance(t, S.Lit):
                pieces = re.split(r"(%%|%s)", t.text)
                args = list(e.right.elts) if isinstance(e.right, ast.Tuple) else [e.right]
                if "%" not in "".join(x for x in pieces if x not in ("%%", "%s")) and pieces.count("%s") == len(args):
                    parts: List[S.Shape] = []
                    for x in pieces:
                        if x == "%s":
                            parts.append(self.string(args.pop(0), depth + 1))
                        elif x == "%%":
                            parts.append(S.Lit("%"))
                        elif x:
                            parts.append(S.Lit(x))
                    return S.Cat(parts)
            return S.Hole(e)
        return super().string(e, depth)


# --------------------------------------------------------------------------------------------------------- regular expressions
def re_flag_value(view: View, e: Optional[ast.AST], mod: Optional[str] = None, _depth: int = 0) -> Optional[int]:
    """integer value of a flags expression (re.MULTILINE | re.S, module constants, 0); None when it cannot be decided"""
    if e is None:
        return 0
    if _depth > 10:
        return None
    vals: List[Optional[int]] = []
    for leaf in view.alts(e, mod):
        n, m = leaf.node, leaf.mod
        if isinstance(n, ast.Constant) and isinstance(n.value, int):
            vals.append(int(n.value))
            continue
        a = view.external_attr(n, "re", m)
        if a is not None:
            v = getattr(re, a, None)
            vals.append(int(v) if isinstance(v, int) else None)
            continue
        if isinstance(n, ast.BinOp) and isinstance(n.op, ast.BitOr):
            l, r_ = re_flag_value(view, n.left, m, _depth + 1), re_flag_value(view, n.right, m, _depth + 1)
            vals.append(None if l is None or r_ is None else l | r_)
            continue
        vals.append(None)
    if not vals or any(v is None for v in vals):
        return None
    acc = 0
    for v in vals:      # several alternatives: a flag that may be set counts as set
        acc |= v
    return acc


class Scan:
    """one use of a regular expression: re.<fn>(pattern, text, flags) or <compiled>.<fn>(text)"""

    def __init__(self, call: ast.Call, fn: str, pattern: Optional[ast.AST], pattern_mod: Optional[str], text: Optional[ast.AST],
                 flags: Optional[int], extra_positional: bool):
        self.call, self.fn, self.pattern, self.pattern_mod, self.text, self.flags, self.extra_positional = \
            call, fn, pattern, pattern_mod, text, flags, extra_positional


RE_FUNCS = ("finditer", "findall", "search", "match", "fullmatch")


def scan_of(view: View, call: ast.AST, mod: Optional[str] = None) -> Optional[Scan]:
    if not (isinstance(call, ast.Call) and isinstance(call.func, (ast.Attribute, ast.Name))):
        return None
    kw = {k.arg: k.value for k in call.keywords if k.arg}
    direct = view.external_attr(call.func, "re", mod)
    if direct in RE_FUNCS:
        pat = call.args[0] if call.args else kw.get("pattern")
        txt = call.args[1] if len(call.args) > 1 else kw.get("string")
        fl = call.args[2] if len(call.args) > 2 else kw.get("flags")
        return Scan(call, direct, pat, mod, txt, re_flag_value(view, fl, mod), False)
    if isinstance(call.func, ast.Attribute) and call.func.attr in RE_FUNCS:
        for ops, base in view.chains(call.func.value, mod):
            b = base.node
            if not ops and isinstance(b, ast.Call) and view.external_attr(b.func, "re", base.mod) == "compile":
                kw2 = {k.arg: k.value for k in b.keywords if k.arg}
                pat = b.args[0] if b.args else kw2.get("pattern")
                fl = b.args[1] if len(b.args) > 1 else kw2.get("flags")
                txt = call.args[0] if call.args else kw.get("string")
                return Scan(call, call.func.attr, pat, base.mod, txt, re_flag_value(view, fl, base.mod), len(call.args) > 1 or bool(set(kw) - {"string"}))
    return None


def find_calls(view: View, e: ast.AST, _depth: int = 0) -> Set[int]:
    """ids of the str.find / str.rfind calls whose result (possibly shifted by arithmetic) is the value of e"""
    out: Set[int] = set()
    if _depth > 12:
        return out
    for leaf in view.alts(e):
        n = leaf.node
        if leaf.mod is not None:
            continue
        if isinstance(n, ast.Call) and isinstance(n.func, ast.Attribute) and n.func.attr in ("find", "rfind"):
            out.add(id(n))
        elif isinstance(n, ast.BinOp):
            out |= find_calls(view, n.left, _depth + 1) | find_calls(view, n.right, _depth + 1)
        elif isinstance(n, ast.IfExp):
            out |= find_calls(view, n.body, _depth + 1) | find_calls(view, n.orelse, _depth + 1)
    return out


def absent_matcher(view: View, target: Set[int]):
    """guard atom 'absent': the result of (one of) the given find calls is -1"""
    def side(x):
        return bool(find_calls(view, x) & target)

    def matcher(e):
        if not (isinstance(e, ast.Compare) and len(e.ops) == 1):
            return None
        l, r_, op = e.left, e.comparators[0], e.ops[0]
        c, flip = const_int(r_), False
        x = l
        if c is None:
            c, x, flip = const_int(l), r_, True
        if c is None or isinstance(x, ast.Constant) or not side(x):
            return None
        if flip:
            op = {ast.Lt: ast.Gt, ast.Gt: ast.Lt, ast.LtE: ast.GtE, ast.GtE: ast.LtE}.get(type(op), type(op))()
        t = type(op)
        if (t, c) in ((ast.GtE, 0), (ast.Gt, -1), (ast.NotEq, -1)):
            return "!absent"
        if (t, c) in ((ast.Lt, 0), (ast.LtE, -1), (ast.Eq, -1)):
            return "absent"
        return None

    return matcher
