"""C09 -- exporting a problem and parsing it back preserves it."""
from __future__ import annotations

import ast
from typing import List, Set

from .. import lib as L
from .. import templates as T
from ..core import Repo, unparse
from ..report import Finding, RuleResult
from . import c01, c07, c08
from . import _c08_util as U

EXPLANATION = (
    "C09.fields: backward slices show that the problem text depends on every field of Problem that the property names (name, domain "
    "name, objects, initial facts and fluents, goal literals and numeric goals), an object line on name and type, a fluent line on "
    "name, arguments, repeat counts and value, a fact line on name, object arguments and polarity. C09.keywords: the section keywords "
    "the problem writer emits are heads that parse_problem dispatches on. C09.balance: balanced writer templates. C09.dupkeys: the "
    "fluent reader keys its signature by the argument tokens (multiplicity is kept, positions are not). C09.fluentargs: shape of the text of "
    "PDDLFunction.state_representation (sa/strshape): one run over repeating_variables that prints the key as many times as its count "
    "([key] * count, range(count), repeat(key, count)), never skipped or left early, and the keys of signature enter the text exactly under "
    "'not a key of repeating_variables' (guard valuation over the filter, whatever form it has)."
)
UNDECIDED = "round-trip equality for all problems; empty sections; :metric"

FIELD_TABLE = [
    ("ProblemExporter.extract_problem", "problem", "Problem",
     {"name", "domain", "objects", "initial_state_predicates", "initial_state_fluents", "goal_state_predicates", "goal_state_fluents"},
     {"metric": "not part of C09"}),
    ("PDDLObject.__str__", "self", "PDDLObject", {"name", "type"}, {}),
    ("PDDLFunction.state_representation", "self", "PDDLFunction", {"name", "signature", "repeating_variables", "stored_value"}, {}),
    ("GroundedPredicate.untyped_representation", "self", "GroundedPredicate", {"name", "object_mapping", "is_positive"},
     {"is_masked": "learner-side flag, not PDDL", "signature": "types are not printed in the untyped form"}),
]


# what the problem writer prints for the ELEMENTS it walks over, whatever printer (property, helper, inline text) it uses for them:
# (writer, marker of the collection in the provenance, depth of 'elem' steps, class, fields the element's text must depend on)
ELEMENT_TABLE = [
    ("ProblemExporter.write_initial_state", "fluents", 1, "PDDLFunction", {"name", "signature", "repeating_variables", "stored_value"}),
    ("ProblemExporter.extract_state_predicates", "state", 1, "GroundedPredicate", {"name", "object_mapping", "is_positive"}),
    ("ProblemExporter.write_objects", "objects", 1, "PDDLObject", {"name", "type"}),
]


def _element_path(x: tuple) -> tuple:
    """the value of a (key, value) pair of `d.items()` is the element of `d.values()`, the second component of an `enumerate` pair
    is the element itself: the element of the walked collection, whichever iteration protocol is used"""
    out = list(x)
    i = 0
    while i + 2 < len(out) + 0:
        if out[i] == "call:items" and out[i + 1] == "elem" and i + 2 < len(out) and out[i + 2] in ("unpack:1", "item:1"):
            out[i:i + 3] = ["call:values", "elem"]
        elif out[i] == "arg0:enumerate" and out[i + 1] == "elem" and i + 2 < len(out) and out[i + 2] in ("unpack:1", "item:1"):
            out[i:i + 3] = ["elem"]
        i += 1
    return tuple(out)


def rule_elements(repo: Repo, rid: str = "C09.elements") -> RuleResult:
    from .. import fields as F
    from ..core import AnalysisError
    r = RuleResult(rid, "the line written for each object / fact / fluent depends on every field of it that the reader needs",
                   "objects with their types, ground atoms and fluent values (with repeated arguments) are preserved by the round trip")
    for spec, marker, depth, cls, required in ELEMENT_TABLE:
        f = U.fn(repo, spec)
        p = L.prov(repo, f)
        r.site(f"{f.qn} [{cls}]")
        names = set()
        keys_only = False
        for n in ast.walk(f.node):
            if isinstance(n, ast.Name) and isinstance(n.ctx, ast.Load) and n.id not in names:
                try:
                    tr = p.trace(n)
                except KeyError:
                    continue
                for x in map(_element_path, tr):
                    if x[0].startswith("param:") and marker in x[0] and (x[1:] in (("call:items", "elem", "unpack:0"), ("call:keys", "elem"), ("elem",))):
                        keys_only = True
                    tail = [s_ for s_ in x if s_ == "elem"]
                    if x[-1] == "elem" and len(tail) == depth and any(marker in s_ for s_ in x[:-depth]) and not any(s_.startswith(("arg", "in:", "kw:")) for s_ in x):
                        names.add(n.id)
        if not names:
            if keys_only:
                # the collection is walked, but only its keys are looked at: the objects themselves are not printed at all
                r.fail(Finding(rid, f, f"element-field-not-printed:{cls}:{'/'.join(sorted(required))}",
                               f"{spec} walks over the keys of the {marker} collection only: the text does not depend on the {cls} objects"))
                continue
            raise AnalysisError(f"{spec}: the elements of the {marker} collection are not walked over by a name the analysis can follow")
        got = set()
        for nm in sorted(names):
            got |= U.slice_fields(repo, f, nm, cls, control=False) | (U.slice_fields(repo, f, nm, cls) & c08.CONTROL_OK)
        missing = sorted(required - got)
        if missing:
            r.fail(Finding(rid, f, f"element-field-not-printed:{cls}:{'/'.join(missing)}",
                           f"the text that {spec} writes for a {cls} does not depend on {missing}"), {"fields_in_text": sorted(got & required)})
        else:
            r.ok({"writer": f.qn, "element": cls, "fields_in_text": sorted(got & required)})
    r.require_sites(len(ELEMENT_TABLE))
    return r


def rule_objecttext(repo: Repo, rid: str = "C09.objecttext") -> RuleResult:
    from .. import strshape as S
    from ..core import AnalysisError
    r = RuleResult(rid, "an object is written as '<name> - <type>' on every alternative",
                   "typed lists are grouped: an object without '- type' takes the type of the next typed object")
    f = U.fn(repo, "PDDLObject.__str__")
    p = L.prov(repo, f)
    ev = U.Evaluator(repo, f)
    r.site(f.qn)

    def namer(n):
        try:
            tr = p.trace(n)
        except KeyError:
            return "?"
        if any(x[:2] == ("self", "attr:type") for x in tr):
            return "type"
        if any(x[:2] == ("self", "attr:name") for x in tr):
            return "name"
        return "?"

    texts = []
    for rt in [x for x in L.func_returns(f) if x.value is not None]:
        try:
            sh = ev.string(rt.value)
        except Exception as ex:
            raise AnalysisError(f"PDDLObject.__str__: the returned text is not interpreted ({ex})")
        if S.unknowns(sh):
            raise AnalysisError(f"PDDLObject.__str__: the returned text is not interpreted ({S.unknowns(sh)[:2]})")
        for b in S.branches(sh):
            texts.append(S.render(b, namer))
    bad = [t for t in texts if "".join(t.split()) != "{name}-{type}"]
    if not texts:
        raise AnalysisError("PDDLObject.__str__: no returned text found")
    if bad:
        r.fail(Finding(rid, f, "untyped-alternative", f"an object can be written as {bad[0]!r}: without its own '- type' it is read back with the type of the next typed object"),
               {"alternatives": texts})
    else:
        r.ok({"alternatives": texts})
    return r


def rule_keywords(repo: Repo) -> RuleResult:
    r = RuleResult("C09.keywords", "section keywords written by the problem writer are heads of parse_problem", "the text is read back by the library's own parser")
    heads = c08.parser_heads(repo, ["ProblemParser.parse_problem", "ProblemParser.parse_goal_state", "ProblemParser.parse_state_component"])
    heads |= {"define"}
    for w in ("ProblemExporter.extract_problem", "ProblemExporter.write_objects", "ProblemExporter.write_initial_state", "ProblemExporter.write_goal_state"):
        f = U.fn(repo, w)
        kw = {k for k in T.keywords(c08._text_literals(repo, f))}
        r.site(f.qn)
        unknown = sorted(k for k in kw if k not in heads)
        if unknown:
            r.fail(Finding("C09.keywords", f, f"keyword-not-read:{'/'.join(unknown)}", f"{w} writes {unknown} which parse_problem never dispatches on"))
        else:
            r.ok({"writer": f.qn, "keywords": sorted(kw)})
    r.require_sites(4)
    return r


def rule_domain_name(repo: Repo) -> RuleResult:
    from .. import strshape as S
    from ..core import AnalysisError
    r = RuleResult("C09.domainref", "the (:domain ...) reference is the name of the problem's domain", "parsing against the same domain succeeds")
    f = U.fn(repo, "ProblemExporter.extract_problem")
    p = L.prov(repo, f)
    r.site(f.qn)
    ev = U.Evaluator(repo, f)

    def hole(n):
        try:
            tr = p.trace(n)
        except KeyError:
            return "?"
        if tr and all(x == ("param:problem", "attr:domain", "attr:name") for x in tr):
            return "DOMAIN-NAME"
        return "?"

    texts = []
    for rt in [x for x in L.func_returns(f) if x.value is not None]:
        sh = ev.string(rt.value)
        texts.append(S.render(sh, hole))
    if not texts:
        raise AnalysisError("ProblemExporter.extract_problem: no returned text found")
    if not any("(:domain" in t for t in texts):
        if any("{?" in t for t in texts):
            raise AnalysisError("ProblemExporter.extract_problem: the returned text is not interpreted")
        r.fail(Finding("C09.domainref", f, "domain-reference", "the problem text has no (:domain ...) reference"))
    elif all(("(:domain {DOMAIN-NAME}" in t) for t in texts if "(:domain" in t):
        r.ok({"(:domain": "problem.domain.name"})
    else:
        r.fail(Finding("C09.domainref", f, "domain-reference", "the text after '(:domain' is not problem.domain.name"))
    r.require_sites(1)
    return r


def rule_goalform(repo: Repo) -> RuleResult:
    """writer / reader agreement on the goal section: parse_goal_state only reads (:goal (and ...)), so every text the goal writer
    can return must have that form"""
    import re as _re
    from .. import strshape as S
    from ..core import AnalysisError
    r = RuleResult("C09.goalform", "every text the goal writer returns is (:goal (and ...)) -- the only form parse_goal_state reads",
                   "the exported problem parses back: goal literals and numeric goal conditions")
    f = U.fn(repo, "ProblemExporter.write_goal_state")
    ev = U.Evaluator(repo, f)
    rets = [x for x in L.func_returns(f) if x.value is not None]
    if not rets:
        raise AnalysisError("ProblemExporter.write_goal_state: no returned text")
    for rt in rets:
        r.site(L.site(f, rt, "goal text"))
        sh = ev.string(rt.value)
        bad = []
        for b_ in S.branches(sh):
            text = S.render(b_, lambda n: "X")
            if "{?" in text:
                raise AnalysisError(f"ProblemExporter.write_goal_state: the returned text is not interpreted ({text[:80]!r})")
            if not _re.match(r"\s*\(:goal\s*\(and\b", text):
                bad.append(text[:60])
        if bad:
            r.fail(Finding("C09.goalform", f, "goal-without-and", f"the goal can be written as {bad[0]!r}: parse_goal_state requires (:goal (and ...)) and "
                           f"rejects the exported problem", node=rt))
        else:
            r.ok({"goal_text": "(:goal (and ...))"})
    r.require_sites(1)
    return r


SECTION_WRITERS = [
    # (writer, the collections whose elements its text lists)
    ("ProblemExporter.write_goal_state", ("goal_state_predicates", "goal_state_fluents")),
    ("ProblemExporter.write_initial_state", ("initial_state_predicates", "initial_state_fluents")),
    ("ProblemExporter.write_objects", ("problem_objects",)),
]


def rule_everypath(repo: Repo, rid: str = "C09.everypath") -> RuleResult:
    """a section writer lists the elements of every collection it is given on EVERY path: a text that does not depend on one of them may
    only be returned where that collection is known to be empty (a shortcut for 'no goal literals' must not lose the numeric goal
    conditions)"""
    from ..core import AnalysisError
    r = RuleResult(rid, "every text a section writer returns depends on each collection it was given, unless the path is taken only when that collection is empty",
                   "the same initial facts and fluent values, the same goal literals and numeric goal conditions")
    for spec, _names in SECTION_WRITERS:
        f = U.fn(repo, spec)
        p = L.prov(repo, f)
        params = [x for x in f.params if x != f.self_name]
        if not params:
            raise AnalysisError(f"{spec}: no parameters")
        roots = {f"param:{x}": f"empty:{x}" for x in params}
        G = L.Guards(f, L.emptiness_matcher(p, roots))
        g = G.g
        rets = [x for x in L.func_returns(f) if x.value is not None]
        if not rets:
            raise AnalysisError(f"{spec}: no returned text")
        for x in params:
            r.site(f"{f.qn} [{x}]")
            seen = G.reach({f"empty:{x}": False})
            under = G.under({f"empty:{x}": False}, seen)
            bad = None
            for rt in rets:
                if g.node_of(rt) not in seen:
                    continue
                try:
                    tr = p.trace(rt.value, under=under)
                except KeyError:
                    continue
                if not any(t[0] == f"param:{x}" for t in tr):
                    bad = rt
            if bad is not None:
                r.fail(Finding(rid, f, f"section-without:{x}", f"{unparse(bad, 60)} is returned although {x} is not empty and the text does not depend on it: "
                               f"those elements are missing from the exported problem", node=bad))
            else:
                r.ok({"writer": f.qn, "collection": x})
    r.require_sites(5)
    return r


# how PDDLFunction stores a ground fluent (f a b a): `signature` = the DISTINCT arguments (a dict cannot repeat a key) and
# `repeating_variables` = {argument: how often it occurs} for the arguments that occur more than once.  The fluent line must therefore
# list every key of repeating_variables as many times as its count, and the keys of signature that are NOT repeated exactly once.
FLUENT_PRINTER = "PDDLFunction.state_representation"
REPEATS_FIELD = "repeating_variables"       # reason: field of PDDLFunction that holds the multiplicities (FIELD_TABLE names it, too)
ARGUMENTS_FIELD = "signature"               # reason: field of PDDLFunction whose keys are the distinct arguments
_COLLECTION_VIEWS = ("call:keys", "arg0:set", "arg0:list", "arg0:frozenset", "arg0:tuple", "arg0:sorted", "arg0:dict", "call:copy")


def _strip_views(x: tuple) -> tuple:
    return tuple(s_ for s_ in x if s_ not in _COLLECTION_VIEWS)


def _is_field(paths, field: str) -> bool:
    return bool(paths) and all(_strip_views(x) == ("self", f"attr:{field}") for x in paths)


def _is_key_of(paths, field: str) -> bool:
    """an element of the walk over the dict field: its key (walking the dict / .keys() / the first component of an .items() pair)"""
    good = {("self", f"attr:{field}", "elem"), ("self", f"attr:{field}", "call:items", "elem", "unpack:0"), ("self", f"attr:{field}", "call:items", "elem", "item:0")}
    return bool(paths) and all(_strip_views(x) in good for x in paths)


def _is_count_of(paths, field: str) -> bool:
    """the value that belongs to the key: second component of the .items() pair or a lookup in the dict"""
    good = {("self", f"attr:{field}", "call:items", "elem", "unpack:1"), ("self", f"attr:{field}", "call:items", "elem", "item:1"), ("self", f"attr:{field}", "item")}
    return bool(paths) and all(_strip_views(x) in good for x in paths)


def _list_valued(e: ast.AST) -> bool:
    """syntactically a list (so not a token that `join` accepts)"""
    if isinstance(e, (ast.List, ast.ListComp)):
        return True
    if isinstance(e, ast.BinOp) and isinstance(e.op, (ast.Mult, ast.Add)):
        return _list_valued(e.left) or _list_valued(e.right)
    return False


def _ill_typed_list_operation(fn: ast.AST):
    """a list display as operand of an arithmetic operator other than + and *: raises TypeError whenever it is evaluated"""
    for n in ast.walk(fn):
        if isinstance(n, ast.BinOp) and not isinstance(n.op, (ast.Add, ast.Mult)) and (isinstance(n.left, (ast.List, ast.ListComp)) or isinstance(n.right, (ast.List, ast.ListComp))):
            return n
    return None


def rule_fluentargs(repo: Repo, rid: str = "C09.fluentargs") -> RuleResult:
    """the argument list of a fluent line, read off the SHAPE of the text (whatever mix of loops, comprehensions, helpers, `+=`, `extend`,
    chain, templates builds it): (1) one run per repeated argument that prints that argument as many times as its count; (2) one run over
    the distinct arguments that prints exactly those that are not repeated."""
    from .. import strshape as S
    from ..core import AnalysisError
    r = RuleResult(rid, "a fluent line lists every repeated argument as often as it repeats and every other argument of the signature once",
                   "the same fluent values, including fluents with repeated arguments")
    f = U.fn(repo, FLUENT_PRINTER)
    p = L.prov(repo, f)
    ev = U.Evaluator(repo, f)
    rets = [x for x in L.func_returns(f) if x.value is not None]
    if not rets:
        raise AnalysisError(f"{FLUENT_PRINTER}: no returned text found")

    def tr(e):
        try:
            return p.trace(e)
        except (KeyError, RecursionError):
            return set()

    def parts(sh):
        return [y for x in sh.parts for y in parts(x)] if isinstance(sh, S.Cat) else [sh]

    def expands(rep) -> bool:
        """the run prints the KEY of the current pair COUNT times"""
        lp = rep.loop
        body = [x for x in parts(rep.body) if not isinstance(x, S.Lit)]
        if len(body) != 1 or not isinstance(body[0], S.Hole):
            return False
        hole = body[0].node
        it = lp.iter
        if lp.target is None:                                   # [key] * count written in place
            return _is_key_of(tr(hole), REPEATS_FIELD) and _is_count_of(tr(it), REPEATS_FIELD)
        if not (isinstance(hole, ast.Name) and isinstance(lp.target, ast.Name) and hole.id == lp.target.id):
            return False
        if isinstance(it, ast.BinOp) and isinstance(it.op, ast.Mult):     # for x in [key] * count
            lst, cnt = (it.left, it.right) if isinstance(it.left, ast.List) else (it.right, it.left)
            return isinstance(lst, ast.List) and len(lst.elts) == 1 and _is_key_of(tr(lst.elts[0]), REPEATS_FIELD) and _is_count_of(tr(cnt), REPEATS_FIELD)
        if isinstance(it, ast.Call) and isinstance(it.func, (ast.Name, ast.Attribute)) and not it.keywords:
            nm = it.func.id if isinstance(it.func, ast.Name) else it.func.attr
            if nm == "repeat" and len(it.args) == 2:            # for x in repeat(key, count)
                return _is_key_of(tr(it.args[0]), REPEATS_FIELD) and _is_count_of(tr(it.args[1]), REPEATS_FIELD)
        return False

    def counted(rep) -> bool:
        """for _ in range(count): <key>"""
        it = rep.loop.iter
        return isinstance(it, ast.Call) and isinstance(it.func, ast.Name) and it.func.id == "range" and len(it.args) == 1 and _is_count_of(tr(it.args[0]), REPEATS_FIELD)

    def repeated_atom(e):
        """`<key of signature> in / not in <repeating_variables>`"""
        if isinstance(e, ast.Compare) and len(e.ops) == 1 and isinstance(e.ops[0], (ast.In, ast.NotIn)):
            if _is_key_of(tr(e.left), ARGUMENTS_FIELD) and _is_field(tr(e.comparators[0]), REPEATS_FIELD):
                return "repeated" if isinstance(e.ops[0], ast.In) else "!repeated"
        return None

    G = L.Guards(f, repeated_atom)
    g = G.g
    pm = L.parents_of(f)

    def inside_atom(n) -> bool:
        cur = n
        while cur in pm and not isinstance(cur, ast.stmt):
            cur = pm[cur]
            if repeated_atom(cur):
                return True
        return False

    def tests_mention_repeats() -> bool:
        tests = [x.test for x in ast.walk(f.node) if isinstance(x, (ast.If, ast.IfExp, ast.While))]
        tests += [c for x in ast.walk(f.node) if isinstance(x, ast.comprehension) for c in x.ifs]
        return any(any(s_ == f"attr:{REPEATS_FIELD}" for t in tr(n) for s_ in t) for t_ in tests for n in ast.walk(t_)
                   if isinstance(n, (ast.Name, ast.Attribute)) and not inside_atom(n))

    def expansion_exprs():
        """fallback without the text shape: expressions that denote `key, count times`"""
        for n in ast.walk(f.node):
            if isinstance(n, ast.BinOp) and isinstance(n.op, ast.Mult):
                lst, cnt = (n.left, n.right) if isinstance(n.left, ast.List) else (n.right, n.left)
                if isinstance(lst, ast.List) and len(lst.elts) == 1 and _is_key_of(tr(lst.elts[0]), REPEATS_FIELD) and _is_count_of(tr(cnt), REPEATS_FIELD):
                    yield n
            elif isinstance(n, ast.Call) and isinstance(n.func, (ast.Name, ast.Attribute)) and len(n.args) == 2 and not n.keywords and \
                    (n.func.id if isinstance(n.func, ast.Name) else n.func.attr) == "repeat" and _is_key_of(tr(n.args[0]), REPEATS_FIELD) and _is_count_of(tr(n.args[1]), REPEATS_FIELD):
                yield n
            elif isinstance(n, (ast.For, ast.comprehension)) and isinstance(n.iter, ast.Call) and isinstance(n.iter.func, ast.Name) and n.iter.func.id == "range" \
                    and len(n.iter.args) == 1 and _is_count_of(tr(n.iter.args[0]), REPEATS_FIELD):
                scope = n.body if isinstance(n, ast.For) else [pm.get(n)]
                for st in scope:
                    for x in ast.walk(st) if st is not None else ():
                        if isinstance(x, ast.Name) and isinstance(x.ctx, ast.Load) and _is_key_of(tr(x), REPEATS_FIELD):
                            yield x

    for rt in rets:
        try:
            sh = ev.string(rt.value)
        except Exception as ex:
            raise AnalysisError(f"{FLUENT_PRINTER}: the returned text is not interpreted ({ex})")
        r.site(L.site(f, rt, "repeated arguments"))
        r.site(L.site(f, rt, "arguments that occur once"))
        shaped = not S.unknowns(sh)
        if not shaped:
            bad = _ill_typed_list_operation(f.node)
            if bad is not None:
                r.fail(Finding(rid, f, "repeated-arguments", f"{unparse(bad, 50)} is not a list repetition (a list display only supports + and *): printing a fluent "
                               f"raises TypeError", node=bad))
                continue
        runs = S.reps(sh) if shaped else []
        # (1) repeated arguments
        outer = [x for x in runs if _is_field(tr(x.loop.iter), REPEATS_FIELD) or
                 (tr(x.loop.iter) and all(_strip_views(t) == ("self", f"attr:{REPEATS_FIELD}", "call:items") for t in tr(x.loop.iter)))]
        good, skipped = [], []
        for x in outer:
            for y in S.reps(x.body):
                if not (expands(y) or (counted(y) and _is_key_of({t for h in S.holes(y.body) for t in tr(h)}, REPEATS_FIELD))):
                    continue
                if x.loop.conds:
                    continue
                if isinstance(x.loop.node, ast.For) and g.node_of(x.loop.node) is not None:
                    # a statement loop: every turn reaches the expansion, no turn ends the walk
                    tgt = g.node_of(y.loop.node) if isinstance(y.loop.node, ast.For) else next((g.node_containing(h) for h in S.holes(y.body)), None)
                    if tgt is None:
                        continue
                    if L.leaves_loop_early(G, {}, x.loop.node) or not L.must_pass_in_loop(G, {}, x.loop.node, {tgt}):
                        skipped.append(x)
                        continue
                good.append(x)
        if not shaped:
            if any(L.flows_to_return(f, e) for e in expansion_exprs()):
                r.ok({"repeated_arguments": "an expression 'argument, count times' over repeating_variables reaches the text (text shape not interpreted)"})
            else:
                r.fail(Finding(rid, f, "repeated-arguments", f"no part of the fluent text lists the keys of {REPEATS_FIELD} as often as their counts say: an argument "
                               f"that occurs more than once (f a a) is missing from the exported line", node=rt))
        elif good:
            r.ok({"repeated_arguments": "for (argument, count) of repeating_variables: the argument, count times"})
        elif skipped:
            r.fail(Finding(rid, f, "repeated-arguments", f"the walk over {REPEATS_FIELD} can skip a repeated argument or stop before the last one", node=rt))
        elif not outer:
            r.fail(Finding(rid, f, "repeated-arguments", f"the fluent text has no part that walks over {REPEATS_FIELD}: an argument that occurs more than once "
                           f"(f a a) is missing from the exported line, the line is read back with the wrong number of arguments", node=rt))
        else:
            inner = [h for x in outer for h in S.holes(x.body)]
            if any(_list_valued(h) for h in inner):
                r.fail(Finding(rid, f, "repeated-arguments", f"the walk over {REPEATS_FIELD} contributes a LIST ({unparse(next(h for h in inner if _list_valued(h)), 40)}) "
                               f"as one element of the argument sequence instead of its members: joining the arguments raises TypeError", node=rt))
            elif inner and all(_is_key_of(tr(h), REPEATS_FIELD) for h in inner) and not any(S.reps(x.body) for x in outer):
                r.fail(Finding(rid, f, "repeated-arguments", "a repeated argument is printed once, not as many times as it repeats", node=rt))
            else:
                raise AnalysisError(f"{FLUENT_PRINTER}: how the walk over {REPEATS_FIELD} contributes to the text is not interpreted")
        # (2) the other arguments: where a key of the signature enters the text, decided under 'this key is / is not a repeated one'
        if shaped:
            cands = [h for x in runs if _is_field(tr(x.loop.iter), ARGUMENTS_FIELD) for h in S.holes(x.body) if _is_key_of(tr(h), ARGUMENTS_FIELD)]
        else:
            cands = [n for n in ast.walk(f.node) if isinstance(n, ast.Name) and isinstance(n.ctx, ast.Load) and _is_key_of(tr(n), ARGUMENTS_FIELD)
                     and not inside_atom(n) and L.flows_to_return(f, n)]
        if not cands:
            if not shaped:
                raise AnalysisError(f"{FLUENT_PRINTER}: the returned text is not interpreted ({S.unknowns(sh)[:2]})")
            r.fail(Finding(rid, f, "single-arguments", f"the fluent text has no part that lists the keys of {ARGUMENTS_FIELD}", node=rt))
            continue
        if any(g.node_containing(h) is None for h in cands):
            raise AnalysisError(f"{FLUENT_PRINTER}: where the keys of {ARGUMENTS_FIELD} enter the text is not interpreted")
        if "repeated" not in G.atoms_seen and tests_mention_repeats():
            raise AnalysisError(f"{FLUENT_PRINTER}: the test that tells repeated arguments from the others is not interpreted")
        verdicts = [(G.reaches_expr({"repeated": False}, h), G.reaches_expr({"repeated": True}, h)) for h in cands]
        shown, again = any(v[0] for v in verdicts), any(v[1] for v in verdicts)
        if shown and not again:
            r.ok({"single_arguments": "keys of signature that are not keys of repeating_variables"})
        else:
            what = "an argument that occurs once is left out" if not shown else "a repeated argument is printed once more than it repeats"
            r.fail(Finding(rid, f, "single-arguments", f"a key of {ARGUMENTS_FIELD} enters the text when 'it is a repeated argument' is "
                           f"{[k for k, v in ((False, shown), (True, again)) if v]}: {what}", node=rt))
    r.require_sites(2)
    return r


def rules(repo: Repo, tier: str) -> List[RuleResult]:
    return [c08.rule_fields(repo, "C09.fields", FIELD_TABLE), rule_keywords(repo), rule_domain_name(repo), rule_goalform(repo),
            c08.rule_balance(repo, "C09.balance", ["ProblemExporter.extract_problem", "ProblemExporter.write_objects", "ProblemExporter.write_initial_state",
                                                   "ProblemExporter.write_goal_state", "PDDLFunction.state_representation", "GroundedPredicate.untyped_representation"]),
            c08.rule_polarity(repo, "C09.polarity"), c08.rule_valuetext(repo, "C09.valuetext"), c08.rule_nocollapse(repo, "C09.nocollapse"),
            c08.rule_typedparams(repo, "C09.typedobjects", ["ProblemExporter.write_objects"]) if False else c08.rule_balance(repo, "C09.balance2", ["PDDLObject.__str__"]),
            c01.rule_dupkeys(repo, "C09.dupkeys", ["ProblemParser.parse_grounded_numeric_fluent"]),
            # parsing one problem must not leak into the text of another: no write into shared module-level state
            c07.rule_global(repo, "C09.global"), rule_elements(repo), rule_objecttext(repo), rule_everypath(repo), rule_fluentargs(repo)]
