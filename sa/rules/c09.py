"""C09 -- exporting a problem and parsing it back preserves it."""
from __future__ import annotations

import ast
from typing import List, Set

from .. import lib as L
from .. import templates as T
from ..core import Repo, unparse
from ..report import Finding, RuleResult
from . import c01, c07, c08
from . import _c08_util as U

EXPLANATION = (
    "C09.fields: backward slices show that the problem text depends on every field of Problem that the property names (name, domain "
    "name, objects, initial facts and fluents, goal literals and numeric goals), an object line on name and type, a fluent line on "
    "name, arguments, repeat counts and value, a fact line on name, object arguments and polarity. C09.keywords: the section keywords "
    "the problem writer emits are heads that parse_problem dispatches on. C09.balance: balanced writer templates. C09.dupkeys: the "
    "fluent reader keys its signature by the argument tokens (multiplicity is kept, positions are not)."
)
UNDECIDED = "round-trip equality for all problems; empty sections; :metric"

FIELD_TABLE = [
    ("ProblemExporter.extract_problem", "problem", "Problem",
     {"name", "domain", "objects", "initial_state_predicates", "initial_state_fluents", "goal_state_predicates", "goal_state_fluents"},
     {"metric": "not part of C09"}),
    ("PDDLObject.__str__", "self", "PDDLObject", {"name", "type"}, {}),
    ("PDDLFunction.state_representation", "self", "PDDLFunction", {"name", "signature", "repeating_variables", "stored_value"}, {}),
    ("GroundedPredicate.untyped_representation", "self", "GroundedPredicate", {"name", "object_mapping", "is_positive"},
     {"is_masked": "learner-side flag, not PDDL", "signature": "types are not printed in the untyped form"}),
]


# what the problem writer prints for the ELEMENTS it walks over, whatever printer (property, helper, inline text) it uses for them:
# (writer, marker of the collection in the provenance, depth of 'elem' steps, class, fields the element's text must depend on)
ELEMENT_TABLE = [
    ("ProblemExporter.write_initial_state", "fluents", 1, "PDDLFunction", {"name", "signature", "repeating_variables", "stored_value"}),
    ("ProblemExporter.extract_state_predicates", "state", 1, "GroundedPredicate", {"name", "object_mapping", "is_positive"}),
    ("ProblemExporter.write_objects", "objects", 1, "PDDLObject", {"name", "type"}),
]


def _element_path(x: tuple) -> tuple:
    """the value of a (key, value) pair of `d.items()` is the element of `d.values()`, the second component of an `enumerate` pair
    is the element itself: the element of the walked collection, whichever iteration protocol is used"""
    out = list(x)
    i = 0
    while i + 2 < len(out) + 0:
        if out[i] == "call:items" and out[i + 1] == "elem" and i + 2 < len(out) and out[i + 2] in ("unpack:1", "item:1"):
            out[i:i + 3] = ["call:values", "elem"]
        elif out[i] == "arg0:enumerate" and out[i + 1] == "elem" and i + 2 < len(out) and out[i + 2] in ("unpack:1", "item:1"):
            out[i:i + 3] = ["elem"]
        i += 1
    return tuple(out)


def rule_elements(repo: Repo, rid: str = "C09.elements") -> RuleResult:
    from .. import fields as F
    from ..core import AnalysisError
    r = RuleResult(rid, "the line written for each object / fact / fluent depends on every field of it that the reader needs",
                   "objects with their types, ground atoms and fluent values (with repeated arguments) are preserved by the round trip")
    for spec, marker, depth, cls, required in ELEMENT_TABLE:
        f = U.fn(repo, spec)
        p = L.prov(repo, f)
        r.site(f"{f.qn} [{cls}]")
        names = set()
        keys_only = False
        for n in ast.walk(f.node):
            if isinstance(n, ast.Name) and isinstance(n.ctx, ast.Load) and n.id not in names:
                try:
                    tr = p.trace(n)
                except KeyError:
                    continue
                for x in map(_element_path, tr):
                    if x[0].startswith("param:") and marker in x[0] and (x[1:] in (("call:items", "elem", "unpack:0"), ("call:keys", "elem"), ("elem",))):
                        keys_only = True
                    tail = [s_ for s_ in x if s_ == "elem"]
                    if x[-1] == "elem" and len(tail) == depth and any(marker in s_ for s_ in x[:-depth]) and not any(s_.startswith(("arg", "in:", "kw:")) for s_ in x):
                        names.add(n.id)
        if not names:
            if keys_only:
                # the collection is walked, but only its keys are looked at: the objects themselves are not printed at all
                r.fail(Finding(rid, f, f"element-field-not-printed:{cls}:{'/'.join(sorted(required))}",
                               f"{spec} walks over the keys of the {marker} collection only: the text does not depend on the {cls} objects"))
                continue
            raise AnalysisError(f"{spec}: the elements of the {marker} collection are not walked over by a name the analysis can follow")
        got = set()
        for nm in sorted(names):
            got |= U.slice_fields(repo, f, nm, cls, control=False) | (U.slice_fields(repo, f, nm, cls) & c08.CONTROL_OK)
        missing = sorted(required - got)
        if missing:
            r.fail(Finding(rid, f, f"element-field-not-printed:{cls}:{'/'.join(missing)}",
                           f"the text that {spec} writes for a {cls} does not depend on {missing}"), {"fields_in_text": sorted(got & required)})
        else:
            r.ok({"writer": f.qn, "element": cls, "fields_in_text": sorted(got & required)})
    r.require_sites(len(ELEMENT_TABLE))
    return r


def rule_objecttext(repo: Repo, rid: str = "C09.objecttext") -> RuleResult:
    from .. import strshape as S
    from ..core import AnalysisError
    r = RuleResult(rid, "an object is written as '<name> - <type>' on every alternative",
                   "typed lists are grouped: an object without '- type' takes the type of the next typed object")
    f = U.fn(repo, "PDDLObject.__str__")
    p = L.prov(repo, f)
    ev = U.Evaluator(repo, f)
    r.site(f.qn)

    def namer(n):
        try:
            tr = p.trace(n)
        except KeyError:
            return "?"
        if any(x[:2] == ("self", "attr:type") for x in tr):
            return "type"
        if any(x[:2] == ("self", "attr:name") for x in tr):
            return "name"
        return "?"

    texts = []
    for rt in [x for x in L.func_returns(f) if x.value is not None]:
        try:
            sh = ev.string(rt.value)
        except Exception as ex:
            raise AnalysisError(f"PDDLObject.__str__: the returned text is not interpreted ({ex})")
        if S.unknowns(sh):
            raise AnalysisError(f"PDDLObject.__str__: the returned text is not interpreted ({S.unknowns(sh)[:2]})")
        for b in S.branches(sh):
            texts.append(S.render(b, namer))
    bad = [t for t in texts if "".join(t.split()) != "{name}-{type}"]
    if not texts:
        raise AnalysisError("PDDLObject.__str__: no returned text found")
    if bad:
        r.fail(Finding(rid, f, "untyped-alternative", f"an object can be written as {bad[0]!r}: without its own '- type' it is read back with the type of the next typed object"),
               {"alternatives": texts})
    else:
        r.ok({"alternatives": texts})
    return r


def rule_keywords(repo: Repo) -> RuleResult:
    r = RuleResult("C09.keywords", "section keywords written by the problem writer are heads of parse_problem", "the text is read back by the library's own parser")
    heads = c08.parser_heads(repo, ["ProblemParser.parse_problem", "ProblemParser.parse_goal_state", "ProblemParser.parse_state_component"])
    heads |= {"define"}
    for w in ("ProblemExporter.extract_problem", "ProblemExporter.write_objects", "ProblemExporter.write_initial_state", "ProblemExporter.write_goal_state"):
        f = U.fn(repo, w)
        kw = {k for k in T.keywords(c08._text_literals(repo, f))}
        r.site(f.qn)
        unknown = sorted(k for k in kw if k not in heads)
        if unknown:
            r.fail(Finding("C09.keywords", f, f"keyword-not-read:{'/'.join(unknown)}", f"{w} writes {unknown} which parse_problem never dispatches on"))
        else:
            r.ok({"writer": f.qn, "keywords": sorted(kw)})
    r.require_sites(4)
    return r


def rule_domain_name(repo: Repo) -> RuleResult:
    from .. import strshape as S
    from ..core import AnalysisError
    r = RuleResult("C09.domainref", "the (:domain ...) reference is the name of the problem's domain", "parsing against the same domain succeeds")
    f = U.fn(repo, "ProblemExporter.extract_problem")
    p = L.prov(repo, f)
    r.site(f.qn)
    ev = U.Evaluator(repo, f)

    def hole(n):
        try:
            tr = p.trace(n)
        except KeyError:
            return "?"
        if tr and all(x == ("param:problem", "attr:domain", "attr:name") for x in tr):
            return "DOMAIN-NAME"
        return "?"

    texts = []
    for rt in [x for x in L.func_returns(f) if x.value is not None]:
        sh = ev.string(rt.value)
        texts.append(S.render(sh, hole))
    if not texts:
        raise AnalysisError("ProblemExporter.extract_problem: no returned text found")
    if not any("(:domain" in t for t in texts):
        if any("{?" in t for t in texts):
            raise AnalysisError("ProblemExporter.extract_problem: the returned text is not interpreted")
        r.fail(Finding("C09.domainref", f, "domain-reference", "the problem text has no (:domain ...) reference"))
    elif all(("(:domain {DOMAIN-NAME}" in t) for t in texts if "(:domain" in t):
        r.ok({"(:domain": "problem.domain.name"})
    else:
        r.fail(Finding("C09.domainref", f, "domain-reference", "the text after '(:domain' is not problem.domain.name"))
    r.require_sites(1)
    return r


def rule_goalform(repo: Repo) -> RuleResult:
    """writer / reader agreement on the goal section: parse_goal_state only reads (:goal (and ...)), so every text the goal writer
    can return must have that form"""
    import re as _re
    from .. import strshape as S
    from ..core import AnalysisError
    r = RuleResult("C09.goalform", "every text the goal writer returns is (:goal (and ...)) -- the only form parse_goal_state reads",
                   "the exported problem parses back: goal literals and numeric goal conditions")
    f = U.fn(repo, "ProblemExporter.write_goal_state")
    ev = U.Evaluator(repo, f)
    rets = [x for x in L.func_returns(f) if x.value is not None]
    if not rets:
        raise AnalysisError("ProblemExporter.write_goal_state: no returned text")
    for rt in rets:
        r.site(L.site(f, rt, "goal text"))
        sh = ev.string(rt.value)
        bad = []
        for b_ in S.branches(sh):
            text = S.render(b_, lambda n: "X")
            if "{?" in text:
                raise AnalysisError(f"ProblemExporter.write_goal_state: the returned text is not interpreted ({text[:80]!r})")
            if not _re.match(r"\s*\(:goal\s*\(and\b", text):
                bad.append(text[:60])
        if bad:
            r.fail(Finding("C09.goalform", f, "goal-without-and", f"the goal can be written as {bad[0]!r}: parse_goal_state requires (:goal (and ...)) and "
                           f"rejects the exported problem", node=rt))
        else:
            r.ok({"goal_text": "(:goal (and ...))"})
    r.require_sites(1)
    return r


SECTION_WRITERS = [
    # (writer, the collections whose elements its text lists)
    ("ProblemExporter.write_goal_state", ("goal_state_predicates", "goal_state_fluents")),
    ("ProblemExporter.write_initial_state", ("initial_state_predicates", "initial_state_fluents")),
    ("ProblemExporter.write_objects", ("problem_objects",)),
]


def rule_everypath(repo: Repo, rid: str = "C09.everypath") -> RuleResult:
    """a section writer lists the elements of every collection it is given on EVERY path: a text that does not depend on one of them may
    only be returned where that collection is known to be empty (a shortcut for 'no goal literals' must not lose the numeric goal
    conditions)"""
    from ..core import AnalysisError
    r = RuleResult(rid, "every text a section writer returns depends on each collection it was given, unless the path is taken only when that collection is empty",
                   "the same initial facts and fluent values, the same goal literals and numeric goal conditions")
    for spec, _names in SECTION_WRITERS:
        f = U.fn(repo, spec)
        p = L.prov(repo, f)
        params = [x for x in f.params if x != f.self_name]
        if not params:
            raise AnalysisError(f"{spec}: no parameters")
        roots = {f"param:{x}": f"empty:{x}" for x in params}
        G = L.Guards(f, L.emptiness_matcher(p, roots))
        g = G.g
        rets = [x for x in L.func_returns(f) if x.value is not None]
        if not rets:
            raise AnalysisError(f"{spec}: no returned text")
        for x in params:
            r.site(f"{f.qn} [{x}]")
            seen = G.reach({f"empty:{x}": False})
            under = G.under({f"empty:{x}": False}, seen)
            bad = None
            for rt in rets:
                if g.node_of(rt) not in seen:
                    continue
                try:
                    tr = p.trace(rt.value, under=under)
                except KeyError:
                    continue
                if not any(t[0] == f"param:{x}" for t in tr):
                    bad = rt
            if bad is not None:
                r.fail(Finding(rid, f, f"section-without:{x}", f"{unparse(bad, 60)} is returned although {x} is not empty and the text does not depend on it: "
                               f"those elements are missing from the exported problem", node=bad))
            else:
                r.ok({"writer": f.qn, "collection": x})
    r.require_sites(5)
    return r


def rules(repo: Repo, tier: str) -> List[RuleResult]:
    return [c08.rule_fields(repo, "C09.fields", FIELD_TABLE), rule_keywords(repo), rule_domain_name(repo), rule_goalform(repo),
            c08.rule_balance(repo, "C09.balance", ["ProblemExporter.extract_problem", "ProblemExporter.write_objects", "ProblemExporter.write_initial_state",
                                                   "ProblemExporter.write_goal_state", "PDDLFunction.state_representation", "GroundedPredicate.untyped_representation"]),
            c08.rule_polarity(repo, "C09.polarity"), c08.rule_valuetext(repo, "C09.valuetext"), c08.rule_nocollapse(repo, "C09.nocollapse"),
            c08.rule_typedparams(repo, "C09.typedobjects", ["ProblemExporter.write_objects"]) if False else c08.rule_balance(repo, "C09.balance2", ["PDDLObject.__str__"]),
            c01.rule_dupkeys(repo, "C09.dupkeys", ["ProblemParser.parse_grounded_numeric_fluent"]),
            # parsing one problem must not leak into the text of another: no write into shared module-level state
            c07.rule_global(repo, "C09.global"), rule_elements(repo), rule_objecttext(repo), rule_everypath(repo)]
