"""C06 -- the subtype relation is the closure of the declared type tree, in any declaration order."""
from __future__ import annotations

import ast
import itertools
from typing import Iterable, List, Optional

from .. import cfg as C
from .. import lib as L
from ..core import AnalysisError, FuncInfo, Repo, parent_map, unparse
from ..prov import callee_name
from ..report import Finding, RuleResult

EXPLANATION = (
    "C06.conform: with annotation-driven type inference, no ==/!= may compare a PDDLType (or the .name of one) outside "
    "PDDLType itself and __eq__/__ne__ methods; every conformance test must go through is_sub_type. C06.direction: at each "
    "is_sub_type call the receiver derives from the object's / constant's own type and the argument from the declared "
    "(required) type. C06.closure: every PDDLType constructed in parse_types is registered in the returned map (a parent that is "
    "only captured but never registered does not exist for later sections and gets a stale twin when declared later). "
    "C06.identity: a new PDDLType is stored under a key only when the key is absent (otherwise earlier children keep pointing at "
    "a stale object). C06.parentlink: the parent of a child type derives from the token after the dash. C06.walk: finite "
    "valuation of is_sub_type_aux over (names equal, parent is None): True only on name equality, False at the root, otherwise "
    "recursion on (parent, same other). C06.root: 'object' is registered as ObjectType and untyped names get ObjectType as parent. "
    "C06.range (per quantifier entry point): the quantified parameter is bound to an object iff <object type>.is_sub_type(<quantified type>); "
    "no conforming object is skipped; a non-conforming object ends neither the walk over the objects nor the walk over the quantifiers "
    "(range-stops); the map that received the binding is handed on to the per-object work (range-binding-unused) and its other entries are "
    "oriented like the binding, parameter -> object (range-map-orientation). C06.tokenwalk (parse_types, helpers in place): the loop that "
    "tests the current token against '-' cannot be left while tokens remain; a `while cursor < len(tokens)` walk starts at token 0, its "
    "condition has the truth table of cursor < length over small lengths, and on every acyclic path through one turn the cursor advances by "
    "exactly the token offsets that turn read (offset 0 = the token tested, offset 1 = the parent after the dash); by valuation of 'the "
    "current token is the separator': a name reaches the collecting statement and no flushing one, the separator the flushing ones and "
    "not the collecting one. C06.grouplink: by valuation of 'the parent token is object' the parent a flushed group is linked to resolves "
    "(definitions followed along the edges the valuation leaves open) to ObjectType exactly when it is; every turn of a walk over the "
    "collected names that links to a looked-up parent passes a link (new type with that parent / parent link of the registered type) on "
    "every path; on every way from the end of the token walk to the return the names collected after the last separator are registered "
    "as children of ObjectType. C06.graph (create_type_hierarchy_graph): by provenance, every key of the type dictionary is added as a "
    "node and for every type that has a parent (valuation) the edge (name of its parent, own name) on every turn of a walk over all "
    "types that is not left early; the filled graph is what every return hands back."
)
UNDECIDED = ("order independence of an arbitrary re-implementation of parse_types beyond the hazards checked; that every "
             "place ranging over types has been found (only comparisons that the type inference can see are judged)")


def _is_type_expr(repo: Repo, f: FuncInfo, e: ast.AST) -> Optional[str]:
    te = repo.types(f)
    t = te.typeof(e)
    if t == ("cls", "PDDLType"):
        return "type"
    if isinstance(e, ast.Attribute) and e.attr == "name" and te.typeof(e.value) == ("cls", "PDDLType"):
        return "type.name"
    if isinstance(e, ast.Call) and isinstance(e.func, ast.Name) and e.func.id == "str" and e.args and \
            te.typeof(e.args[0]) == ("cls", "PDDLType"):
        return "str(type)"
    return None


LAYER_ALLOWED = {
    "PDDLType": "the type itself",
    "create_type_hierarchy_graph": "exports the declared tree",
    "DomainParser.parse_types": "builds the tree",
    "DomainExporter.write_types": "prints the declared parent of each type",
    "Domain.shallow_copy": "copies types",
}


def rule_layering(repo: Repo, rid: str = "C06.layering") -> RuleResult:
    r = RuleResult(rid, "only PDDLType (and the code that builds / prints the declared tree) walks .parent links; everything else asks is_sub_type",
                   "every place that checks or ranges over types uses the one closure")
    n_funcs = 0
    unit = L.private_helpers_of(repo, LAYER_ALLOWED)
    for f in repo.all_funcs():
        short = f.qn.split("::", 1)[1]
        if f.cls == "PDDLType" or short in LAYER_ALLOWED or f.qn in unit:
            continue
        n_funcs += 1
        te = repo.types(f)
        for n in ast.walk(f.node):
            # a walk READS the link; assigning `.parent` builds the tree
            if isinstance(n, ast.Attribute) and n.attr == "parent" and isinstance(n.ctx, ast.Load) and te.typeof(n.value) == ("cls", "PDDLType"):
                r.site(L.site(f, n, "parent access"))
                r.fail(Finding(rid, f, "parent-walk-outside-type", f"{unparse(n)} walks the type tree by hand instead of asking is_sub_type: a second, private "
                               f"notion of conformance (easily off by one at the root or at the type itself)", node=n))
    r.site(f"{n_funcs} functions outside the type layer scanned")
    r.ok({"functions_scanned": n_funcs, "allowed": LAYER_ALLOWED})
    r.require_sites(1)
    return r


# C06.range, orientation of the map the quantified parameter is bound in ({parameter name: object name}): path steps that mark a source
# as "the call's objects" (may only be values) / "the schema's parameters" (may only be keys).  Reason: a forall body mentions both the
# action's parameters and the quantified one; it is instantiated through ONE map keyed by parameter name.
RANGE_MAP_VALUE_SOURCES = ("attr:grounded_call_objects",)
RANGE_MAP_KEY_SOURCES = ("attr:signature",)


def _trace_opt(p, e, keys=False):
    try:
        return p.trace(e, keys=keys)
    except (KeyError, RecursionError):
        return set()


def _binding_read_after(f: FuncInfo, G, cont: ast.AST, w: ast.AST, wn: int, pm) -> Optional[bool]:
    """is the map that received the binding handed on afterwards (argument of a call, returned, stored) on some way the conforming
    object takes?  None: not decidable here (the map is not a local name / a display used in place)"""
    g = G.g
    if isinstance(cont, ast.Dict):
        cur = cont
        while cur in pm and not isinstance(pm[cur], ast.stmt):
            cur = pm[cur]
            if isinstance(cur, ast.Call):
                return True         # the display is built as the argument of the call that consumes it
        st = pm.get(cur)
        if isinstance(st, ast.Assign) and len(st.targets) == 1 and isinstance(st.targets[0], ast.Name):
            names = L.aliases(f, {st.targets[0].id})
        elif isinstance(st, ast.AnnAssign) and isinstance(st.target, ast.Name):
            names = L.aliases(f, {st.target.id})
        else:
            return None
    elif isinstance(cont, ast.Name):
        names = L.aliases(f, {cont.id})
    else:
        return None
    after = G.reach({"sub": True}, start=wn)
    for n in ast.walk(f.node):
        if not (isinstance(n, ast.Name) and n.id in names and isinstance(n.ctx, ast.Load)):
            continue
        par = pm.get(n)
        if isinstance(par, ast.Subscript) and par.value is n and isinstance(par.ctx, (ast.Store, ast.Del)):
            continue                # another entry written into the map
        if isinstance(par, (ast.Assign, ast.AnnAssign)) and par.value is n and \
                all(isinstance(t, ast.Name) for t in (par.targets if isinstance(par, ast.Assign) else [par.target])):
            continue                # a plain copy of the reference (its uses are looked at under the alias)
        if isinstance(par, ast.Attribute) and par.value is n and par.attr in ("update", "setdefault", "__setitem__", "pop", "clear"):
            continue                # the map is only written
        un = g.node_containing(n)
        if un is None or un not in after:
            continue
        if un == wn and isinstance(w, ast.stmt):
            continue                # the binding statement itself
        return True
    return False


def rule_range(repo: Repo, rid: str, spec: str, guarded_callees=None) -> RuleResult:
    """the quantifier range: the quantified parameter is bound to an object only when is_sub_type(object type, quantified type)
    is true.  `spec` is a public entry point; private helpers are analysed in place."""
    r = RuleResult(rid, f"{spec}: an object is in the range of the quantifier iff its type is a subtype of the quantified type",
                   "forall ranges over every object of the type and its subtypes")
    f = L.fn(repo, spec)
    p = L.prov(repo, f)
    g = C.cfg_of(f.node)
    atoms = {}
    for c in L.calls_in(f.node):
        if isinstance(c.func, ast.Attribute) and c.func.attr == "is_sub_type" and len(c.args) == 1:
            if any("attr:quantified_type" in x for x in p.trace(c.args[0])) and any("attr:type" in x for x in p.trace(c.func.value)):
                atoms[id(c)] = c
    r.site(f.qn)

    def from_objects(e) -> bool:
        return any(any("problem_objects" in s_ for s_ in x) for x in p.trace(e))

    def is_qparam(e) -> bool:
        return any(x[-1] == "attr:quantified_parameter" for x in p.trace(e))

    # per-object work: the quantified parameter is bound to (the name of) a problem object
    work = []
    container = {}      # id(work item) -> the expression of the map that receives the binding
    for n in ast.walk(f.node):
        if isinstance(n, ast.Assign) and len(n.targets) == 1 and isinstance(n.targets[0], ast.Subscript) and is_qparam(n.targets[0].slice) \
                and from_objects(n.value):
            work.append(n)
            container[id(n)] = n.targets[0].value
        elif isinstance(n, ast.Dict):
            for k, v in zip(n.keys, n.values):
                if k is not None and is_qparam(k) and from_objects(v):
                    work.append(v)
                    container[id(v)] = n
        elif isinstance(n, ast.Call) and isinstance(n.func, ast.Attribute) and n.func.attr in ("update", "setdefault", "__setitem__") and len(n.args) == 2 \
                and is_qparam(n.args[0]) and from_objects(n.args[1]):
            work.append(n)
            container[id(n)] = n.func.value
    if not work:
        raise AnalysisError(f"{spec}: the binding of the quantified parameter to a problem object was not found")
    if not atoms:
        r.fail(Finding(rid, f, "range-not-subtype", "the range of the quantifier is not decided by <object type>.is_sub_type(<quantified type>)"))
        return r
    G = L.Guards(f, lambda e: "sub" if id(e) in atoms else None)
    seen_f = G.reach({"sub": False})
    seen_t = G.reach({"sub": True})
    wn = {g.node_containing(c) if not isinstance(c, ast.stmt) else g.node_of(c) for c in work}
    if (wn & seen_f) or not (wn <= seen_t):
        r.fail(Finding(rid, f, "range-guard", "the per-object work is reachable for an object whose type is not a subtype of the quantified type (or unreachable for one that is)"))
    else:
        r.ok({"range": "object.type.is_sub_type(quantified_type)", "bindings": len(work)})
    # the loop ranges over all problem objects
    loops = [n for n in ast.walk(f.node) if isinstance(n, ast.For) and any("problem_objects" in "/".join(x) for x in p.trace(n.iter))
             and any(any(x is w for x in ast.walk(n)) for w in work)]
    # ... and EVERY object of a conforming type is bound: with the subtype test true, no way through one turn of the object loop
    # (nor of the loops between it and the binding) may skip the binding -- a pre-filter by type name, a cache, a `continue`
    r.site(f.qn + " [no conforming object skipped]")
    pm = L.parents_of(f)
    skipped = False
    for w in work:
        target = {g.node_containing(w) if not isinstance(w, ast.stmt) else g.node_of(w)}
        cur = w
        chain = []
        while cur in pm:
            cur = pm[cur]
            if isinstance(cur, ast.For):
                chain.append(cur)
                if cur in loops:
                    break
        if not chain or chain[-1] not in loops:
            continue
        for lp in chain:
            if not L.must_pass_in_loop(G, {"sub": True}, lp, target):
                skipped = True
            target = {g.node_of(lp)}
    if skipped:
        r.fail(Finding(rid, f, "range-skips", "an object whose type IS a subtype of the quantified type can be skipped before it is bound: "
                       "the quantifier does not range over the type and all its subtypes"))
    else:
        r.ok({"conforming_objects": "bound on every path"})
    # ... and an object that does NOT conform only drops out itself: it ends neither the walk over the objects nor the walk over the
    # quantifiers it is tested against (the other quantifiers still range over it, the other objects are still visited)
    r.site(f.qn + " [a non-conforming object ends no walk]")
    stops = False
    for w in work:
        cur = w
        chain = []
        while cur in pm:
            cur = pm[cur]
            if isinstance(cur, ast.For):
                chain.append(cur)
                if cur in loops:
                    break
        if not chain or chain[-1] not in loops:
            continue
        for lp in chain:
            # (a walk whose turns are not entered for a non-conforming object -- it runs over a pre-filtered collection -- is not judged)
            entered = [m for m, l in g.succ[g.node_of(lp)] if l == "iter" and m in seen_f]
            if entered and L.leaves_loop_early(G, {"sub": False}, lp):
                stops = True
    if stops:
        r.fail(Finding(rid, f, "range-stops", "an object whose type is not a subtype of the quantified type ends a walk (over the objects or over the "
                       "quantifiers) instead of being passed over: later objects / other quantifiers are never considered"))
    else:
        r.ok({"non_conforming_object": "passed over, no walk ends"})
    # the binding is what the per-object work is done with: the map that received it is handed on (a binding nobody reads leaves the
    # quantifier without any object), and the entries it is added to are oriented like the binding itself (parameter -> object)
    r.site(f.qn + " [binding used, map oriented parameter -> object]")
    unused, misoriented = False, []
    for w in work:
        wn_ = g.node_containing(w) if not isinstance(w, ast.stmt) else g.node_of(w)
        cont = container.get(id(w))
        if cont is None or wn_ is None:
            continue
        ents = L.map_entries(_trace_opt(p, cont, keys=True))
        for kind_, src in ents:
            if kind_ == "key" and any(s_ in RANGE_MAP_VALUE_SOURCES for s_ in src):
                misoriented.append(("key", src))
            if kind_ == "value" and any(s_ in RANGE_MAP_KEY_SOURCES for s_ in src) and not any(s_ in RANGE_MAP_VALUE_SOURCES for s_ in src):
                misoriented.append(("value", src))
        used = _binding_read_after(f, G, cont, w, wn_, pm)
        if used is False:
            unused = True
    if unused:
        r.fail(Finding(rid, f, "range-binding-unused", "the map in which the quantified parameter is bound to the object is never handed on after the "
                       "binding: the per-object condition / effect is not instantiated for any object"))
    elif misoriented:
        r.fail(Finding(rid, f, "range-map-orientation", f"the map in which the quantified parameter is bound to an object has {misoriented[0][0]}s from "
                       f"{misoriented[0][1]}: action parameters must be its keys and call objects its values, like the binding itself"))
    else:
        r.ok({"binding": "handed on", "map": "parameter -> object"})
    r.site(f.qn + " [all objects]")
    if loops and not any(any(s_.startswith("slice:") or s_.startswith("arg0:filter") for s_ in x) for lp in loops for x in p.trace(lp.iter)):
        r.ok({"iterates": unparse(loops[0].iter, 60)})
    else:
        r.fail(Finding(rid, f, "range-objects", "the quantifier does not range over all problem objects"))
    r.require_sites(2)
    return r


def _equality_redundant(repo: Repo, f: FuncInfo, n: ast.Compare) -> bool:
    """`a == b` next to `a.is_sub_type(b)` of the same two types: equal types are subtypes of each other, so the comparison is harmless
    exactly when the function behaves for (equal, subtype) as it does for (not equal, subtype) -- decided by valuation"""
    p = L.prov(repo, f)
    try:
        la, lb = p.trace(n.left), p.trace(n.comparators[0])
    except KeyError:
        return False
    subs = {}
    for c in L.calls_in(f.node):
        if isinstance(c.func, ast.Attribute) and c.func.attr == "is_sub_type" and len(c.args) == 1:
            try:
                ra, rb = p.trace(c.func.value), p.trace(c.args[0])
            except KeyError:
                continue
            if (ra, rb) in ((la, lb), (lb, la)):
                subs[id(c)] = c
    if not subs:
        return False

    def matcher(e):
        if e is n:
            return "eq" if isinstance(n.ops[0], ast.Eq) else "!eq"
        if id(e) in subs:
            return "sub"
        return None

    G = L.Guards(f, matcher)
    g = G.g

    def outcome(val):
        seen = G.reach(val)
        out = set()
        for nd in seen:
            if g.kind[nd] == "return":
                rv = g.stmt[nd].value
                v = G.value(val, rv, seen) if rv is not None else None
                out.add(("return", v if isinstance(v, bool) or v is None else nd))
            elif g.kind[nd] == "raise":
                out.add(("raise", nd))
        return out

    return outcome({"eq": True, "sub": True}) == outcome({"eq": False, "sub": True})


def _equality_redundant_flat(repo: Repo, f: FuncInfo, n: ast.Compare) -> bool:
    """the same question on the function with its private helpers analysed in place (the subtype test may sit in a helper:
    `a == b or _is_sub(a, b)`)"""
    if getattr(f, "flat_of", None) is not None:
        return False
    try:
        spec = f.qn.split("::", 1)[1] if f.cls else f.qn
        ff = L.fn(repo, spec)
    except Exception:
        return False
    if ff is f or not getattr(ff, "inlined", None):
        return False
    twins = [x for x in ast.walk(ff.node) if isinstance(x, ast.Compare) and len(x.ops) == 1 and type(x.ops[0]) is type(n.ops[0])
             and getattr(x, "lineno", None) == getattr(n, "lineno", None) and getattr(x, "col_offset", None) == getattr(n, "col_offset", None)]
    return bool(twins) and all(_equality_redundant(repo, ff, x) for x in twins)


def rule_conform(repo: Repo, rid: str = "C06.conform", only_funcs: Optional[Iterable[str]] = None, floor: int = 3) -> RuleResult:
    r = RuleResult(rid, "conformance of an object's type to a required type is decided by is_sub_type, never by ==/!= on types or type names",
                   "forall / fact checking range over the type and its subtypes")
    funcs = repo.all_funcs() if only_funcs is None else [L.fn(repo, x) for x in only_funcs]
    for f in funcs:
        if f.cls == "PDDLType" or f.name in ("__eq__", "__ne__", "__hash__", "__repr__"):
            continue
        for n in ast.walk(f.node):
            if isinstance(n, ast.Compare) and len(n.ops) == 1 and isinstance(n.ops[0], (ast.Eq, ast.NotEq)):
                a, b = _is_type_expr(repo, f, n.left), _is_type_expr(repo, f, n.comparators[0])
                if a and b:
                    r.site(L.site(f, n, "type comparison"))
                    if _equality_redundant(repo, f, n) or _equality_redundant_flat(repo, f, n):
                        r.ok({"function": f.qn, "test": unparse(n), "redundant_with": "is_sub_type of the same two types"})
                        continue
                    r.fail(Finding(rid, f, "type-equality", f"{unparse(n)} compares types for (in)equality: objects of a subtype are "
                                   f"treated as non-conforming; use is_sub_type", node=n))
            if isinstance(n, ast.Call) and isinstance(n.func, ast.Attribute) and n.func.attr == "is_sub_type":
                r.site(L.site(f, n, "subtype test"))
                r.ok({"function": f.qn, "test": unparse(n)})
    r.require_sites(floor if only_funcs is None else min(floor, 1))
    return r


def _has(paths, *needles) -> bool:
    return any(all(any(n in s for s in p) for n in needles) for p in paths)


def rule_direction(repo: Repo, rid: str = "C06.direction") -> RuleResult:
    r = RuleResult(rid, "is_sub_type(receiver = the object's own type, argument = the declared / required type)",
                   "an object conforms when ITS type is a subtype of the REQUIRED type")
    obj_marks = ("attr:objects", "attr:constants", "attr:problem_objects", "attr:type", "param:problem_objects", "param:obj", "elem")
    req_marks = ("attr:signature", "attr:quantified_type")
    for f in repo.all_funcs():
        if f.cls in ("PDDLType",) or f.name in ("__eq__", "__ne__"):
            continue
        p = None
        for c in L.calls_in(f.node):
            if isinstance(c.func, ast.Attribute) and c.func.attr == "is_sub_type" and len(c.args) == 1:
                p = p or L.prov(repo, f)
                recv, arg = p.trace(c.func.value), p.trace(c.args[0])
                r.site(L.site(f, c, "direction"))
                recv_is_req = _has(recv, "attr:quantified_type") or (_has(recv, "attr:signature") and not _has(recv, "attr:type"))
                arg_is_obj = _has(arg, "attr:type") and not _has(arg, "attr:signature") and not _has(arg, "attr:quantified_type")
                if recv_is_req and arg_is_obj:
                    r.fail(Finding(rid, f, "is_sub_type:reversed", f"{unparse(c)}: the required type is the receiver and the object's type the argument "
                                   f"(accepts supertypes, rejects subtypes)", node=c))
                else:
                    r.ok({"function": f.qn, "call": unparse(c)})
    r.require_sites(3)
    return r


def _parse_types(repo: Repo) -> FuncInfo:
    return L.fn(repo, "DomainParser.parse_types")


def _returned_names(f: FuncInfo) -> set:
    out = set()
    for ret in L.func_returns(f):
        if isinstance(ret.value, ast.Name):
            out.add(ret.value.id)
    return L.aliases(f, out)


def _ctor_calls(f: FuncInfo, cls: str) -> List[ast.Call]:
    return [c for c in L.calls_in(f.node) if isinstance(c.func, ast.Name) and c.func.id == cls]


def _registration_context(f: FuncInfo, ctor: ast.Call, maps: set, pm) -> str:
    """how does the constructed object reach the returned map?  'store' | 'setdefault' | 'update' | 'initial' (content of the display the
    map starts as) | 'name:<x>' | 'none'"""
    cur = ctor
    while cur in pm:
        par = pm[cur]
        if isinstance(par, (ast.Assign, ast.AnnAssign)):
            if cur is par.value:
                for t in (par.targets if isinstance(par, ast.Assign) else [par.target]):
                    if isinstance(t, ast.Subscript) and isinstance(t.value, ast.Name) and t.value.id in maps:
                        return "store"
                    if isinstance(t, ast.Name) and t.id in maps and isinstance(cur, (ast.Dict, ast.DictComp)) and cur is not ctor:
                        return "initial"    # the returned map starts as this display / comprehension: its values are registered
                    if isinstance(t, ast.Name):
                        return f"name:{t.id}"
            return "none"
        if isinstance(par, ast.Call) and isinstance(par.func, ast.Attribute) and isinstance(par.func.value, ast.Name) \
                and par.func.value.id in maps:
            if par.func.attr == "setdefault" and len(par.args) > 1 and cur is par.args[1]:
                return "setdefault"
            if par.func.attr == "update":
                return "update"
            return "none"  # e.g. .get(key, default)
        if isinstance(par, ast.Call) and par is not ctor:
            # argument of some other call (e.g. parent=... of another PDDLType): not a registration
            if not (isinstance(par.func, ast.Name) and par.func.id in ("dict",)):
                return "none"
        if isinstance(par, (ast.Dict, ast.DictComp, ast.IfExp, ast.keyword)):
            cur = par
            continue
        if isinstance(par, ast.stmt):
            return "none"
        cur = par
    return "none"


def _name_is_stored(f: FuncInfo, name: str, maps: set) -> bool:
    for n in ast.walk(f.node):
        if isinstance(n, ast.Assign) and isinstance(n.value, ast.Name) and n.value.id == name:
            for t in n.targets:
                if isinstance(t, ast.Subscript) and isinstance(t.value, ast.Name) and t.value.id in maps:
                    return True
        if isinstance(n, ast.Call) and isinstance(n.func, ast.Attribute) and isinstance(n.func.value, ast.Name) \
                and n.func.value.id in maps and n.func.attr in ("setdefault", "update", "__setitem__"):
            for a in n.args:
                for sub in ast.walk(a):
                    if isinstance(sub, ast.Name) and sub.id == name and not _inside_ctor_kw(a, sub):
                        return True
    return False


def _inside_ctor_kw(root: ast.AST, name_node: ast.AST) -> bool:
    """is name_node used only as an argument of a constructor call inside root (e.g. parent=name)?"""
    for n in ast.walk(root):
        if isinstance(n, ast.Call) and n is not root:
            for sub in ast.walk(n):
                if sub is name_node:
                    return True
    return False


def rule_closure(repo: Repo) -> RuleResult:
    r = RuleResult("C06.closure", "every PDDLType constructed while parsing (:types ...) is registered in the returned map",
                   "a parent named only on a right-hand side is a type; a parent declared after its child is the same type")
    f = _parse_types(repo)
    maps = _returned_names(f)
    if not maps:
        raise AnalysisError("parse_types: returned map not recognised")
    pm = parent_map(f.node)
    for c in _ctor_calls(f, "PDDLType"):
        r.site(L.site(f, c, "constructed type"))
        ctx = _registration_context(f, c, maps, pm)
        if ctx.startswith("name:"):
            ctx = "store" if _name_is_stored(f, ctx[5:], maps) else "none"
        if ctx != "none":
            r.ok({"constructed": unparse(c, 70), "registered_by": ctx})
        else:
            r.fail(Finding("C06.closure", f, "unregistered-type", f"{unparse(c, 70)} is captured (e.g. as a parent) but never registered in "
                           f"the returned map: the type does not exist for :constants/:predicates and gets a stale twin if declared later", node=c))
    r.require_sites(1)
    return r


def rule_identity(repo: Repo) -> RuleResult:
    r = RuleResult("C06.identity", "a new PDDLType replaces nothing: it is stored only under an absent key (else the existing object is updated)",
                   "children created earlier keep pointing at the registered parent object")
    f = _parse_types(repo)
    maps = _returned_names(f)
    pm = parent_map(f.node)
    g = C.cfg_of(f.node)

    rd = L.rd_of(f)

    def is_map_lookup(x: ast.AST) -> bool:
        """`map.get(key)` on the returned map, directly or through a local: EVERY definition of the local that reaches the use is such
        a lookup (a helper analysed in place at several call sites binds the same local once per site)"""
        if isinstance(x, ast.Name):
            at = g.node_containing(x)
            defs_ = rd.defs_reaching(at, x.id) if at is not None else set()
            vals = []
            for d in defs_:
                st = g.stmt[d]
                if isinstance(st, ast.Assign) and len(st.targets) == 1 and isinstance(st.targets[0], ast.Name) and st.targets[0].id == x.id:
                    vals.append(st.value)
                elif isinstance(st, ast.AnnAssign) and isinstance(st.target, ast.Name) and st.value is not None:
                    vals.append(st.value)
                else:
                    return False
            return bool(vals) and all(not isinstance(v, ast.Name) and is_map_lookup(v) for v in vals)
        return isinstance(x, ast.Call) and isinstance(x.func, ast.Attribute) and x.func.attr == "get" and len(x.args) == 1 \
            and isinstance(x.func.value, ast.Name) and x.func.value.id in maps

    def absent_guard(node: ast.AST, keyname: Optional[str]) -> bool:
        """is `node` inside the branch of an `if key (not) in map` test that establishes absence?"""
        cur = node
        while cur in pm:
            par = pm[cur]
            if isinstance(par, ast.If):
                t = par.test
                neg = False
                if isinstance(t, ast.UnaryOp) and isinstance(t.op, ast.Not):
                    t, neg = t.operand, True
                # `existing = map.get(key)` ... `if existing is None:` establishes absence as well
                if isinstance(t, ast.Compare) and len(t.ops) == 1 and isinstance(t.ops[0], (ast.Is, ast.IsNot, ast.Eq, ast.NotEq)) and \
                        isinstance(t.comparators[0], ast.Constant) and t.comparators[0].value is None:
                    if is_map_lookup(t.left):
                        absent_when_true = isinstance(t.ops[0], (ast.Is, ast.Eq)) != neg
                        in_body = any(cur is s or cur in ast.walk(s) for s in par.body)
                        if (absent_when_true and in_body) or ((not absent_when_true) and not in_body):
                            return True
                if isinstance(t, ast.Compare) and len(t.ops) == 1 and isinstance(t.comparators[0], ast.Name) \
                        and t.comparators[0].id in maps:
                    is_in = isinstance(t.ops[0], ast.In) != neg if isinstance(t.ops[0], (ast.In, ast.NotIn)) else None
                    if is_in is not None:
                        in_body = any(cur is s or cur in ast.walk(s) for s in par.body)
                        # absent in body when test is `not in`; absent in orelse when test is `in`
                        if (not is_in and in_body) or (is_in and not in_body):
                            return True
            if isinstance(par, ast.ExceptHandler) and par.type is not None and "KeyError" in unparse(par.type) and isinstance(pm.get(par), ast.Try):
                # EAFP: the handler runs when the lookup `map[key]` in the guarded block failed, i.e. when the key is absent
                if any(isinstance(x, ast.Subscript) and isinstance(x.value, ast.Name) and x.value.id in maps and isinstance(x.ctx, ast.Load)
                       for b_ in pm[par].body for x in ast.walk(b_)):
                    return True
            if isinstance(par, ast.DictComp):
                for gen in par.generators:
                    for cond in gen.ifs:
                        if isinstance(cond, ast.Compare) and isinstance(cond.ops[0], ast.NotIn) and \
                                isinstance(cond.comparators[0], ast.Name) and cond.comparators[0].id in maps:
                            return True
            cur = par
        return False

    def present_matcher(e):
        """atom 'present': a name is (already) a key of the returned map -- `k in map`, `map.get(k) is not None`, also through a local
        that holds the result of the lookup"""
        lookup_of = is_map_lookup
        if isinstance(e, ast.Compare) and len(e.ops) == 1:
            op, rhs = e.ops[0], e.comparators[0]
            if isinstance(op, (ast.In, ast.NotIn)) and isinstance(rhs, ast.Name) and rhs.id in maps:
                return "present" if isinstance(op, ast.In) else "!present"
            if isinstance(op, (ast.Is, ast.IsNot, ast.Eq, ast.NotEq)) and isinstance(rhs, ast.Constant) and rhs.value is None and lookup_of(e.left):
                return "!present" if isinstance(op, (ast.Is, ast.Eq)) else "present"
        return None

    G = L.Guards(f, present_matcher)
    when_present = G.reach({"present": True}) if "present" in G.atoms_seen else None

    def unreachable_when_present(c: ast.AST) -> bool:
        """guard clauses / early `continue`: the storing statement cannot be reached when the membership tests say 'already there'"""
        if when_present is None:
            return False
        n = g.node_containing(c)
        return n is not None and n not in when_present

    for c in _ctor_calls(f, "PDDLType"):
        ctx = _registration_context(f, c, maps, pm)
        if ctx in ("none",) or ctx.startswith("name:"):
            continue
        r.site(L.site(f, c, "stored type"))
        if ctx in ("setdefault", "initial") or absent_guard(c, None) or unreachable_when_present(c):
            r.ok({"stored": unparse(c, 60), "how": ctx, "only_when_absent": True})
        else:
            r.fail(Finding("C06.identity", f, f"overwrite:{ctx}", f"{unparse(c, 60)} is stored with `{ctx}` without testing that the name is "
                           f"absent: an already registered type (e.g. a parent seen earlier) is replaced by a twin and its children go stale", node=c))
    r.require_sites(1)
    return r


def rule_parentlink(repo: Repo) -> RuleResult:
    r = RuleResult("C06.parentlink", "inside the dash branch the parent of a child type comes from the token after the dash; trailing names get 'object'",
                   "child - parent declarations")
    f = _parse_types(repo)
    p = L.prov(repo, f)
    g = C.cfg_of(f.node)
    listparam = [x for x in f.params if x != f.self_name]
    if not listparam:
        raise AnalysisError("parse_types: token list parameter not found")
    lp = listparam[0]
    live = L.Guards(f, lambda e: None).reach({})        # (branches decided by flags that are constant where they are tested are not code that runs)
    for c in _ctor_calls(f, "PDDLType"):
        kw = {k.arg: k.value for k in c.keywords}
        parent = kw.get("parent", c.args[1] if len(c.args) > 1 else None)
        name = kw.get("name", c.args[0] if c.args else None)
        if parent is None or name is None:
            continue
        node = g.node_containing(c)
        if node is not None and node not in live:
            continue
        in_loop = node is not None and g.loop_of.get(node) is not None
        ntr = p.trace(name)
        ptr = p.trace(parent)
        r.site(L.site(f, c, "parent link"))
        from_tokens = any(x[0] == f"param:{lp}" for x in ptr)
        is_object = any(x[0] == "global:ObjectType" for x in ptr)
        name_from_tokens = any(x[0] == f"param:{lp}" for x in ntr)
        if not name_from_tokens:
            r.fail(Finding("C06.parentlink", f, "name-not-from-tokens", f"type name of {unparse(c, 60)} does not derive from the declaration tokens", node=c))
        elif in_loop and (from_tokens or is_object):
            # either the looked-up parent (derives from the token after the dash) or the default parent of a parent
            r.ok({"type": unparse(name), "parent_from": "tokens" if from_tokens else "ObjectType"})
        elif not in_loop and is_object and not from_tokens:
            r.ok({"type": unparse(name), "parent_from": "ObjectType (trailing untyped names)"})
        else:
            r.fail(Finding("C06.parentlink", f, "parent-source", f"parent of {unparse(c, 60)} derives from {sorted(ptr)[:2]}", node=c))
    # the child's parent must be the looked-up object keyed by types[index+1]
    childs = []
    for c in _ctor_calls(f, "PDDLType"):
        kw = {k.arg: k.value for k in c.keywords}
        parent = kw.get("parent", c.args[1] if len(c.args) > 1 else None)
        if parent is not None and any(x[0] == f"param:{lp}" for x in p.trace(parent)) and \
                any(any(s in ("call:get", "call:setdefault", "item") or s.startswith("arg0:get") or s.startswith("arg0:setdefault")
                        for s in x) for x in p.trace(parent)):
            childs.append(c)
    r.site(f.qn + " [child->looked-up parent]")
    if childs:
        r.ok({"children_linked_to_lookup": len(childs)})
    else:
        r.fail(Finding("C06.parentlink", f, "no-lookup-parent", "no child type takes its parent from a lookup keyed by the token after the dash"))
    r.require_sites(3)
    return r


def rule_walk(repo: Repo) -> RuleResult:
    r = RuleResult("C06.walk", "is_sub_type_aux: True only on name equality, False at the root, otherwise recurse on (parent, same other)",
                   "reflexive-transitive closure of child-parent links")
    f = repo.func("PDDLType.is_sub_type_aux")
    ps = [x for x in f.params if x != f.self_name]
    if len(ps) != 2:
        raise AnalysisError("is_sub_type_aux: two parameters expected")
    a, b = ps

    p = L.prov(repo, f)

    def tr(e):
        try:
            return p.trace(e)
        except KeyError:
            return set()

    def is_name_of(e, param):
        t = tr(e)
        return bool(t) and all(x in ((f"param:{param}", "attr:name"), (f"param:{param}",)) for x in t)

    def is_parent_of(e, param):
        t = tr(e)
        return bool(t) and all(x == (f"param:{param}", "attr:parent") for x in t)

    def matcher(e):
        if isinstance(e, ast.Compare) and len(e.ops) == 1:
            l, rr = e.left, e.comparators[0]
            if (is_name_of(l, a) and is_name_of(rr, b)) or (is_name_of(l, b) and is_name_of(rr, a)):
                if isinstance(e.ops[0], ast.Eq):
                    return "same"
                if isinstance(e.ops[0], ast.NotEq):
                    return "!same"
            for x, y in ((l, rr), (rr, l)):
                if isinstance(y, ast.Constant) and y.value is None and is_parent_of(x, a):
                    if isinstance(e.ops[0], (ast.Is, ast.Eq)):
                        return "root"
                    if isinstance(e.ops[0], (ast.IsNot, ast.NotEq)):
                        return "!root"
        if isinstance(e, (ast.Attribute, ast.Name)) and isinstance(getattr(e, "ctx", None), ast.Load) and is_parent_of(e, a):
            return "!root"  # truthiness of my.parent
        return None

    G = L.Guards(f, matcher)
    if not {"same", "root"} <= {x.lstrip("!") for x in G.atoms_seen}:
        raise AnalysisError(f"is_sub_type_aux: guard idiom not recognised (atoms seen: {sorted(G.atoms_seen)})")
    g = G.g

    def classify(ret: ast.Return, valuation, seen) -> str:
        v = ret.value
        if v is not None and not (isinstance(v, ast.Constant) and isinstance(v.value, bool)):
            sv = G.value(valuation, v, seen)
            if isinstance(sv, bool):
                return str(sv)
            if sv is None:
                return f"other:{unparse(v)}"
            v = sv
        if isinstance(v, ast.Constant) and isinstance(v.value, bool):
            return str(v.value)
        if isinstance(v, ast.Call) and callee_name(v) == f.name and len(v.args) == 2:
            a0, a1 = v.args
            if is_parent_of(a0, a) and tr(a1) and all(x == (f"param:{b}",) for x in tr(a1)):
                return "recurse(parent, other)"
            return f"recurse({unparse(a0)}, {unparse(a1)})"
        return f"other:{unparse(v) if v is not None else None}"

    expect = {(True, True): {"True"}, (True, False): {"True"}, (False, True): {"False"}, (False, False): {"recurse(parent, other)"}}
    for (same, root), want in expect.items():
        r.site(f"{f.qn} [same={same}, root={root}]")
        seen = G.reach({"same": same, "root": root})
        got = {classify(g.stmt[n], {"same": same, "root": root}, seen) for n in seen if g.kind[n] == "return"}
        falls_off = any(m == g.exit and g.kind[n] != "return" for n in seen for m, _ in g.succ[n])
        if falls_off:
            got.add("None(fall-through)")
        sample = {"names_equal": same, "parent_is_None": root, "returns": sorted(got)}
        if got == want:
            r.ok(sample)
        else:
            r.fail(Finding("C06.walk", f, f"walk:same={same},root={root}", f"with names_equal={same}, parent_is_None={root} the walk returns {sorted(got)}; expected {sorted(want)}"), sample)
    # the public wrapper passes (self, other) in that order
    w = repo.func("PDDLType.is_sub_type")
    r.site(w.qn)
    wp = L.prov(repo, w)
    others = [x for x in w.params if x != w.self_name]

    def wtr(e):
        try:
            return wp.trace(e)
        except (KeyError, RecursionError):
            return set()

    def passes_self_other(c: ast.AST) -> bool:
        """a call is_sub_type_aux(<the receiver>, <the other type>): the arguments are identified by provenance, not by their spelling"""
        if not (isinstance(c, ast.Call) and callee_name(c) == "is_sub_type_aux"):
            return False
        a0 = L.arg_of(c, f, a, 0)
        a1 = L.arg_of(c, f, b, 1)
        if a0 is None or a1 is None:
            return False
        return wtr(a0) == {("self",)} and len(others) == 1 and wtr(a1) == {(f"param:{others[0]}",)}

    # every value the wrapper can return is that call (a returned local is followed back to what it was assigned)
    rets = L.returned_exprs(w)
    origins = [o for _rt, os_ in rets for o in os_]
    okw = any(passes_self_other(o) for o in origins)
    direct = bool(rets) and all(os_ and all(isinstance(o, ast.Call) and callee_name(o) == "is_sub_type_aux" for o in os_) for _rt, os_ in rets)
    if okw and direct and all(passes_self_other(o) for o in origins):
        r.ok({"is_sub_type": "returns is_sub_type_aux(self, other)"})
    else:
        r.fail(Finding("C06.walk", w, "wrapper", "is_sub_type does not return is_sub_type_aux(self, other_type) unchanged"))
    r.require_sites(5)
    return r


def rule_root(repo: Repo) -> RuleResult:
    r = RuleResult("C06.root", "'object' is registered as ObjectType; ObjectType has no parent; PDDLType lower-cases names",
                   "'object' is the root of the type tree")
    f = _parse_types(repo)
    maps = _returned_names(f)
    found = False
    for n in ast.walk(f.node):
        if isinstance(n, ast.Assign):
            for t in n.targets:
                if isinstance(t, ast.Subscript) and isinstance(t.value, ast.Name) and t.value.id in maps and \
                        isinstance(t.slice, ast.Constant) and t.slice.value == "object" and isinstance(n.value, ast.Name) and n.value.id == "ObjectType":
                    found = True
        if isinstance(n, ast.Dict) and any(isinstance(k, ast.Constant) and k.value == "object" and isinstance(v, ast.Name) and v.id == "ObjectType"
                                           for k, v in zip(n.keys, n.values)):
            found = True
    r.site(f.qn + " ['object' entry]")
    if found:
        r.ok({"map['object']": "ObjectType"})
    else:
        r.fail(Finding("C06.root", f, "missing:object-entry", "parse_types does not register 'object' -> ObjectType"))
    m = repo.module("models.pddl_type")
    node = repo.const_node(m.name, "ObjectType")
    r.site("models.pddl_type.ObjectType")
    ok = isinstance(node, ast.Call) and isinstance(node.func, ast.Name) and node.func.id == "PDDLType"
    if ok:
        kw = {k.arg: k.value for k in node.keywords}
        nm = kw.get("name", node.args[0] if node.args else None)
        par = kw.get("parent", node.args[1] if len(node.args) > 1 else None)
        ok = isinstance(nm, ast.Constant) and nm.value == "object" and (par is None or (isinstance(par, ast.Constant) and par.value is None))
    if ok:
        r.ok({"ObjectType": "PDDLType('object', parent=None)"})
    else:
        r.fail(Finding("C06.root", (m.short, "ObjectType", str(m.path)), "root-definition", "ObjectType is not PDDLType(name='object', parent=None)"))
    d = repo.module("models.pddl_domain")
    dn = repo.const_node(d.name, "DEFAULT_TYPES")
    r.site("models.pddl_domain.DEFAULT_TYPES")
    if isinstance(dn, ast.Dict) and any(isinstance(k, ast.Constant) and k.value == "object" and isinstance(v, ast.Name) and v.id == "ObjectType"
                                        for k, v in zip(dn.keys, dn.values)):
        r.ok({"DEFAULT_TYPES": "{'object': ObjectType}"})
    else:
        r.fail(Finding("C06.root", (d.short, "DEFAULT_TYPES", str(d.path)), "default-types", "DEFAULT_TYPES does not map 'object' to ObjectType"))
    r.require_sites(3)
    return r


# ----------------------------------------------------------------------------------------------------------------------------------
# the walk over the declaration tokens (static: CFG paths, guard valuation, provenance -- helpers in sa/rules/_c06_util.py)
# ----------------------------------------------------------------------------------------------------------------------------------
# oracle constants (named in _c06_util): DASH '-' separates the names of a group from their parent in a typed list (PDDL); ROOT_NAME
# 'object' / ROOT_GLOBAL ObjectType is the root of every type tree; FIRST_TOKEN 0: a typed list starts with its first token.
# create_type_hierarchy_graph: an edge runs from the PARENT to the CHILD.  Reason: pinned by tests/models_tests (the root is the node of
# in-degree 0, nx.bfs_tree from it lists the hierarchy), so the descendants of a type in the graph are its subtypes.
GRAPH_EDGE = ("parent", "child")
GRAPH_CTOR = "DiGraph"                                   # networkx directed graph
GRAPH_NODE_METHODS = {"add_node": "one", "add_nodes_from": "many"}
GRAPH_EDGE_METHODS = {"add_edge": "one", "add_edges_from": "many"}


def rule_tokenwalk(repo: Repo, rid: str = "C06.tokenwalk") -> RuleResult:
    """parse_types reads EVERY token of the declaration in its role: the walk is not left before the tokens are used up, a cursor starts
    at the first token, runs while it is below the number of tokens and advances by the tokens each turn consumed; a token that is not
    the separator is collected as a name and nothing else happens, the separator (and only it) makes the next token the parent of the group."""
    from . import _c06_util as U
    r = RuleResult(rid, "parse_types: every token is visited; a name is collected, a '-' (only) flushes the group with the NEXT token as its parent",
                   "every 'child ... - parent' line of the declaration is read, whatever the number and order of lines")
    w = U.TypesWalk(repo)
    f, g, G = w.f, w.g, w.G
    r.site(f.qn)
    if w.loop is None or "dash" not in G.atoms_seen:
        r.notes.append("no loop with a test of the current token against '-' found: the token walk is UNDECIDED by this rule")
        r.ok({"undecided": "token loop / separator test not recognised"})
        r.require_sites(1)
        return r
    # (a) the walk is not left while tokens remain
    r.site(f.qn + " [walk not left early]")
    val_more = {"more": True} if "more" in G.atoms_seen else {}
    if w.leaves_walk_early(val_more):
        r.fail(Finding(rid, f, "token-walk:left-early", "the loop over the declaration tokens can be left (break / return) while tokens remain: the "
                       "declaration lines after that point are ignored", node=w.loop))
    else:
        r.ok({"token_loop": "runs until the tokens are used up"})
    # (b) a cursor walk: start, condition, advance
    r.site(f.qn + " [cursor]")
    bad = U.cursor_findings(w)
    if bad is None:
        r.ok({"cursor": "no `while cursor < len(tokens)` walk with constant steps (iteration visits every token by construction / not decided)"})
    elif bad:
        r.fail(Finding(rid, f, bad[0], bad[1], node=bad[2]))
    else:
        r.ok({"cursor": "starts at 0, runs while cursor < len(tokens), advances by the tokens consumed on every path"})
    # (c) roles of the tokens, by valuation of `current token is the separator`
    r.site(f.qn + " [roles of name and separator]")
    og0 = w.open0
    collect = w.collect_nodes() & w.inside
    flush = {n for _s, n, parent, _k in w.link_sites() if n in w.inside and "OTHER" in (w.parent_kinds(og0, parent) or ())}
    flush |= {n for _c, n in w.parent_registrations() if n in w.inside}
    if not collect or not flush:
        r.ok({"undecided": f"collecting statement(s): {len(collect)}, flushing statement(s): {len(flush)} -- idiom not recognised"})
    else:
        is_dash, is_name = U.OpenGraph(G, {"dash": True}).seen, U.OpenGraph(G, {"dash": False}).seen
        problems = []
        if collect & is_dash:
            problems.append(("token-roles:separator-collected", "with the current token being '-' the statement that collects a type name is reached: the "
                             "separator becomes a type and names lose their parent"))
        if flush & is_name:
            problems.append(("token-roles:name-flushes", "with the current token being a NAME the group is flushed / the following token is taken as a "
                             "parent: names and separator exchange roles (or a name falls through into the separator branch)"))
        if not (collect & is_name):
            problems.append(("token-roles:name-not-collected", "a token that is a name never reaches the statement that collects it"))
        if not (flush & is_dash):
            problems.append(("token-roles:separator-ignored", "the separator never reaches the statements that give the group its parent"))
        for role, text in problems:
            r.fail(Finding(rid, f, role, text, node=w.loop))
        if not problems:
            r.ok({"name": "collected only", "separator": "flushes the group"})
    r.require_sites(1)
    return r


def rule_grouplink(repo: Repo, rid: str = "C06.grouplink") -> RuleResult:
    """what a flushed group is linked to: the root type exactly when the parent token is 'object' (else the type registered under that
    token); every name of the group gets the link on every path through its turn; names left after the last separator are registered
    as children of the root on every way from the end of the walk to the return."""
    from . import _c06_util as U
    r = RuleResult(rid, "parse_types: a group is linked to ObjectType iff its parent token is 'object'; every member is linked on every path; trailing names become children of the root",
                   "child - parent declarations; trailing untyped names")
    w = U.TypesWalk(repo)
    f, g, G = w.f, w.g, w.G
    live = w.open0.seen
    links = [(s_, n, parent, kind) for s_, n, parent, kind in w.link_sites() if n in live]
    r.site(f.qn)
    # (a) polarity of the root test
    r.site(f.qn + " [parent token 'object' <-> root type]")
    if "root" not in G.atoms_seen:
        r.ok({"undecided": "no test of the parent token against 'object'"})
    else:
        og = {True: U.OpenGraph(G, {"root": True}), False: U.OpenGraph(G, {"root": False})}
        judged, wrong = 0, []
        for s_, n, parent, kind in links:
            k0 = w.parent_kinds(w.open0, parent)
            if not k0 or "OTHER" not in k0 or "ROOT" not in k0:
                continue            # a link that is the root on every path (trailing names) or a looked-up type on every path
            judged += 1
            for is_root in (True, False):
                if n not in og[is_root].seen:
                    continue
                kinds = w.parent_kinds(og[is_root], parent)
                if kinds is None:
                    continue
                if is_root and kinds != {"ROOT"}:
                    wrong.append((s_, "with the parent token being 'object' the group is linked to a type looked up / registered under that name instead of ObjectType"))
                if not is_root and "ROOT" in kinds:
                    wrong.append((s_, "with the parent token NOT being 'object' the group is linked to ObjectType: the declared parent is dropped and the tree is flattened"))
        if wrong:
            r.fail(Finding(rid, f, "root-test:polarity", wrong[0][1], node=wrong[0][0]))
        else:
            r.ok({"links_judged": judged, "object": "ObjectType", "other": "looked-up type"})
    # (b) every member of a group is linked on every path through its turn
    r.site(f.qn + " [every member linked]")
    member_loops = []
    for lp in ast.walk(f.node):
        if isinstance(lp, ast.For) and g.node_of(lp) in live and isinstance(lp.target, ast.Name) and w.is_member(lp.target):
            inside = U._nodes_inside(g, lp)
            mine = {n for _s, n, _p, _k in links if n in inside}
            # (a walk that only gives the ROOT as parent -- trailing names -- may pass over a name that is registered already)
            if mine and any("OTHER" in (w.parent_kinds(w.open0, p_) or ()) for _s, n, p_, _k in links if n in inside):
                member_loops.append((lp, mine))
    unlinked = [lp for lp, mine in member_loops if not L.must_pass_in_loop(G, {}, lp, mine)]
    # a new type handed to `table.setdefault(name, <new type>)` is stored only when the name is ABSENT: for a name that is registered already
    # (it was named as a parent earlier) nothing is linked -- unless the turn also sets the parent link of the registered object
    pm_ = L.parents_of(f)

    def only_if_absent(site) -> bool:
        cur = site
        while cur in pm_ and not isinstance(cur, ast.stmt):
            par = pm_[cur]
            if isinstance(par, ast.Call) and isinstance(par.func, ast.Attribute) and par.func.attr == "setdefault" and any(cur is a for a in par.args[1:]):
                return True
            cur = par
        return False
    for lp, mine in member_loops:
        inside_ = U._nodes_inside(g, lp)
        here = [(s_, k_) for s_, n, _p, k_ in links if n in inside_]
        if here and all(k_ == "new" and only_if_absent(s_) for s_, k_ in here) and lp not in unlinked:
            unlinked.append(lp)
    if unlinked:
        r.fail(Finding(rid, f, "group:member-not-linked", "a name of the group can pass its turn of the flush without getting the parent (neither a new "
                       "type with that parent nor the parent link of the registered type is set): the declaration is lost for types seen before",
                       node=unlinked[0]))
    else:
        r.ok({"member_loops": len(member_loops), "each_member": "linked on every path"})
    # (c) names left over after the last separator
    r.site(f.qn + " [trailing names registered under the root]")
    collect = w.collect_nodes() & w.inside
    if w.loop is None or not collect:
        r.ok({"undecided": "group accumulator not recognised"})
    else:
        og0 = w.open0
        targets = set()
        for s_, n, parent, kind in links:
            if kind != "new" or n in w.inside or w.parent_kinds(og0, parent) != {"ROOT"}:
                continue
            cur, top = s_, None
            while cur in w.pm:
                cur = w.pm[cur]
                if isinstance(cur, (ast.For, ast.While)):
                    top = cur
            targets.add(g.node_of(top) if top is not None else n)
        head = g.node_of(w.loop)
        starts = [m for m in og0.succ.get(head, []) if m not in w.inside]
        ends = lambda n: n == g.exit or g.kind.get(n) == "return"
        if not targets:
            r.fail(Finding(rid, f, "trailing-names:not-registered", "no statement after the token walk registers the names collected after the last "
                           "separator as children of the root: '(:types a b c)' declares nothing", node=w.loop))
        elif og0.reaches(starts, ends, avoid=targets):
            r.fail(Finding(rid, f, "trailing-names:skipped", "the function can return after the token walk without passing the registration of the "
                           "names collected after the last separator", node=w.loop))
        else:
            r.ok({"trailing_names": "registered as children of ObjectType on every way to the return"})
    r.require_sites(1)
    return r


def rule_typegraph(repo: Repo, rid: str = "C06.graph") -> RuleResult:
    """create_type_hierarchy_graph by provenance: every type name is added as a node, every type that has a parent gets the edge
    (parent name -> own name), on every turn of a walk over all types that is not left early; the filled graph is what is returned."""
    r = RuleResult(rid, "create_type_hierarchy_graph: every type is a node, every declared link one edge parent -> child, the filled graph is returned",
                   "the exported hierarchy graph is the declared tree")
    f = L.fn(repo, "create_type_hierarchy_graph")
    p = L.prov(repo, f)
    g = C.cfg_of(f.node)
    params = [x for x in f.params if x != f.self_name]
    if not params:
        raise AnalysisError("create_type_hierarchy_graph: the types parameter was not found")
    root = f"param:{params[0]}"

    def tr(e):
        return _trace_opt(p, e)

    def is_graph(e) -> bool:
        return any(any(s_ == f"call:{GRAPH_CTOR}" or s_.endswith(f":{GRAPH_CTOR}") for s_ in x) or x[0].endswith(GRAPH_CTOR) for x in tr(e))

    def kind_of(paths) -> Optional[str]:
        """'parent': the name of the parent of a type of the dictionary; 'child': a key of the dictionary / the type's own name"""
        ks = set()
        for x in paths:
            if x[0] != root:
                if x[0].startswith("fresh:") or x[0].startswith("const:"):
                    continue
                ks.add("other")
            elif f"attr:{'parent'}" in x:
                ks.add("parent")
            else:
                ks.add("child")
        return ks.pop() if len(ks) == 1 else ("mixed" if ks else None)

    def parent_atom(e):
        t = e
        neg = False
        if isinstance(t, ast.Compare) and len(t.ops) == 1 and isinstance(t.comparators[0], ast.Constant) and t.comparators[0].value is None \
                and isinstance(t.ops[0], (ast.Is, ast.IsNot, ast.Eq, ast.NotEq)):
            neg = isinstance(t.ops[0], (ast.Is, ast.Eq))
            t = t.left
        elif not (isinstance(t, (ast.Name, ast.Attribute)) and isinstance(getattr(t, "ctx", None), ast.Load)):
            return None
        paths = tr(t)
        if paths and all(x[0] == root and x[-1] == "attr:parent" for x in paths):
            return "!has_parent" if neg else "has_parent"
        return None

    G = L.Guards(f, parent_atom)
    pm = L.parents_of(f)
    r.site(f.qn)
    node_sites, edge_sites, unknown = [], [], []
    for c in L.calls_in(f.node):
        if isinstance(c.func, ast.Attribute) and is_graph(c.func.value):
            m = c.func.attr
            if m in GRAPH_NODE_METHODS and c.args:
                node_sites.append((c, GRAPH_NODE_METHODS[m], c.args[0]))
            elif m in GRAPH_EDGE_METHODS and c.args:
                edge_sites.append((c, GRAPH_EDGE_METHODS[m], c.args))
            elif c.args or c.keywords:
                unknown.append(m)
        elif callee_name(c) == GRAPH_CTOR and c.args:
            edge_sites.append((c, "many", c.args))
    if unknown:
        r.notes.append(f"graph filled through {sorted(set(unknown))}: UNDECIDED by this rule")
        r.ok({"undecided": sorted(set(unknown))})
        r.require_sites(1)
        return r

    def enclosing_loops(e) -> List[ast.AST]:
        out, cur = [], e
        while cur in pm:
            cur = pm[cur]
            if isinstance(cur, (ast.For, ast.While)):
                out.append(cur)
        return out

    def complete(site: ast.AST, valuation: dict, what: str) -> Optional[str]:
        """a statement-level site inside loops: passed on every turn, the loops run over all types and are not left early"""
        n = g.node_containing(site)
        target = {n}
        for lp in enclosing_loops(site):
            if isinstance(lp, ast.For):
                it = tr(lp.iter)
                if not it or any(x[0] != root or any(s_.startswith("slice:") or s_.startswith("arg0:filter") for s_ in x) for x in it):
                    return f"the walk that adds the {what} does not run over all types"
            if not L.must_pass_in_loop(G, valuation, lp, target):
                return f"a type can pass its turn of the walk without its {what} being added"
            if L.leaves_loop_early(G, {}, lp):
                return f"the walk that adds the {what} can be left before all types were visited"
            target = {g.node_of(lp)}
        return None

    def filters_ok(comp: ast.AST, valuation: dict) -> bool:
        val, _seen = G.under(valuation)
        return all(C.eval3(c, val) is True for gen in comp.generators for c in gen.ifs)

    # nodes
    r.site(f.qn + " [every type is a node]")
    node_problem = None
    good_nodes = 0
    nodes_unread = edges_unread = False
    for c, how, arg in node_sites:
        k = kind_of({x for x in tr(arg) if not (how == "many" and x == (root,))} or ({("%s" % root, "elem")} if how == "many" and (root,) in tr(arg) else set()))
        if k in (None, "other", "mixed"):
            nodes_unread = True         # what is added is computed out of sight (a helper that is not analysed in place)
            continue
        if k != "child":
            continue
        why = complete(c, {}, "node")
        if isinstance(arg, (ast.ListComp, ast.SetComp, ast.GeneratorExp)) and not filters_ok(arg, {}):
            why = "the types that become nodes are filtered"
        if why is None:
            good_nodes += 1
        else:
            node_problem = node_problem or why
    if good_nodes:
        r.ok({"nodes": "every key of the type dictionary"})
    elif nodes_unread and node_problem is None:
        r.ok({"undecided": "the nodes are computed by a helper that is not analysed in place"})
    else:
        r.fail(Finding(rid, f, "type-graph:nodes", (node_problem or "no statement adds the name of every type as a node") +
                       ": a type that no edge touches (the root of a domain without declared types) is missing from the graph"))
    # edges
    r.site(f.qn + " [every declared link is one edge parent -> child]")
    edge_problem, direction, good_edges = None, None, 0
    for c, how, args in edge_sites:
        if how == "one":
            if len(args) < 2:
                continue
            first, second = kind_of(tr(args[0])), kind_of(tr(args[1]))
        else:
            paths = tr(args[0])
            first = kind_of({x for x in paths if "in:0" in x})
            second = kind_of({x for x in paths if "in:1" in x})
        if (first, second) == GRAPH_EDGE:
            why = complete(c, {"has_parent": True}, "edge")
            comps = [x for x in ast.walk(args[0])] if how == "many" else []
            src = args[0]
            if how == "many" and isinstance(src, ast.Name):
                defs_ = [v_ for nm_, v_, _s in C.simple_bindings(f.node) if nm_ == src.id]
                src = defs_[0] if len(defs_) == 1 else src
            if how == "many" and isinstance(src, (ast.ListComp, ast.SetComp, ast.GeneratorExp)) and not filters_ok(src, {"has_parent": True}):
                why = "the links that become edges are filtered by more than 'the type has a parent'"
            if why is None:
                good_edges += 1
            else:
                edge_problem = edge_problem or why
        elif (second, first) == GRAPH_EDGE:
            direction = c
        elif first in (None, "other", "mixed") or second in (None, "other", "mixed"):
            edges_unread = True
        else:
            edge_problem = edge_problem or f"an edge is added between ({first}, {second}) instead of (parent name, own name)"
    if direction is not None:
        r.fail(Finding(rid, f, "type-graph:edge-direction", f"{unparse(direction, 70)} adds the edge child -> parent: the descendants of a type in the graph "
                       f"are its supertypes (expected {GRAPH_EDGE[0]} -> {GRAPH_EDGE[1]})", node=direction))
    elif good_edges:
        r.ok({"edges": "(parent name, own name) for every type that has a parent"})
    elif edges_unread and edge_problem is None:
        r.ok({"undecided": "the end points of the edges are computed by a helper that is not analysed in place"})
    else:
        r.fail(Finding(rid, f, "type-graph:edges", (edge_problem or "no statement adds an edge from the parent of a type to the type") +
                       ": declared 'child - parent' links are missing from the graph"))
    # the filled graph is returned
    r.site(f.qn + " [filled graph returned]")
    rets = L.returned_exprs(f)
    if rets and all(os_ and all(is_graph(o) for o in os_) for _rt, os_ in rets):
        r.ok({"returns": "the graph"})
    else:
        r.fail(Finding(rid, f, "type-graph:not-returned", "a return of create_type_hierarchy_graph does not hand back the graph that was filled"))
    r.require_sites(3)
    return r



def rules(repo: Repo, tier: str) -> List[RuleResult]:
    from . import c01
    return [c01.rule_typedlist(repo, "C06.typedlist", ["DomainParser.parse_types"], lookup_required=False), rule_conform(repo), rule_layering(repo),
            rule_range(repo, "C06.range", "Operator.apply"),
            rule_range(repo, "C06.range", "GroundedPrecondition.is_applicable"), rule_direction(repo), rule_closure(repo), rule_identity(repo), rule_parentlink(repo),
            rule_walk(repo), rule_root(repo), _c05()._rule_memo(repo, "C06.cache"),
            rule_tokenwalk(repo), rule_grouplink(repo), rule_typegraph(repo)]


def _c05():
    from . import c05
    return c05
