"""C06 -- the subtype relation is the closure of the declared type tree, in any declaration order."""
from __future__ import annotations

import ast
import itertools
from typing import Iterable, List, Optional

from .. import cfg as C
from .. import lib as L
from ..core import AnalysisError, FuncInfo, Repo, parent_map, unparse
from ..prov import callee_name
from ..report import Finding, RuleResult

EXPLANATION = (
    "C06.conform: with annotation-driven type inference, no ==/!= may compare a PDDLType (or the .name of one) outside "
    "PDDLType itself and __eq__/__ne__ methods; every conformance test must go through is_sub_type. C06.direction: at each "
    "is_sub_type call the receiver derives from the object's / constant's own type and the argument from the declared "
    "(required) type. C06.closure: every PDDLType constructed in parse_types is registered in the returned map (a parent that is "
    "only captured but never registered does not exist for later sections and gets a stale twin when declared later). "
    "C06.identity: a new PDDLType is stored under a key only when the key is absent (otherwise earlier children keep pointing at "
    "a stale object). C06.parentlink: the parent of a child type derives from the token after the dash. C06.walk: finite "
    "valuation of is_sub_type_aux over (names equal, parent is None): True only on name equality, False at the root, otherwise "
    "recursion on (parent, same other). C06.root: 'object' is registered as ObjectType and untyped names get ObjectType as parent."
)
UNDECIDED = ("order independence of an arbitrary re-implementation of parse_types beyond the two hazards checked; that every "
             "place ranging over types has been found (only comparisons that the type inference can see are judged)")


def _is_type_expr(repo: Repo, f: FuncInfo, e: ast.AST) -> Optional[str]:
    te = repo.types(f)
    t = te.typeof(e)
    if t == ("cls", "PDDLType"):
        return "type"
    if isinstance(e, ast.Attribute) and e.attr == "name" and te.typeof(e.value) == ("cls", "PDDLType"):
        return "type.name"
    if isinstance(e, ast.Call) and isinstance(e.func, ast.Name) and e.func.id == "str" and e.args and \
            te.typeof(e.args[0]) == ("cls", "PDDLType"):
        return "str(type)"
    return None


LAYER_ALLOWED = {
    "PDDLType": "the type itself",
    "create_type_hierarchy_graph": "exports the declared tree",
    "DomainParser.parse_types": "builds the tree",
    "DomainExporter.write_types": "prints the declared parent of each type",
    "Domain.shallow_copy": "copies types",
}


def rule_layering(repo: Repo, rid: str = "C06.layering") -> RuleResult:
    r = RuleResult(rid, "only PDDLType (and the code that builds / prints the declared tree) walks .parent links; everything else asks is_sub_type",
                   "every place that checks or ranges over types uses the one closure")
    n_funcs = 0
    unit = L.private_helpers_of(repo, LAYER_ALLOWED)
    for f in repo.all_funcs():
        short = f.qn.split("::", 1)[1]
        if f.cls == "PDDLType" or short in LAYER_ALLOWED or f.qn in unit:
            continue
        n_funcs += 1
        te = repo.types(f)
        for n in ast.walk(f.node):
            # a walk READS the link; assigning `.parent` builds the tree
            if isinstance(n, ast.Attribute) and n.attr == "parent" and isinstance(n.ctx, ast.Load) and te.typeof(n.value) == ("cls", "PDDLType"):
                r.site(L.site(f, n, "parent access"))
                r.fail(Finding(rid, f, "parent-walk-outside-type", f"{unparse(n)} walks the type tree by hand instead of asking is_sub_type: a second, private "
                               f"notion of conformance (easily off by one at the root or at the type itself)", node=n))
    r.site(f"{n_funcs} functions outside the type layer scanned")
    r.ok({"functions_scanned": n_funcs, "allowed": LAYER_ALLOWED})
    r.require_sites(1)
    return r


def rule_range(repo: Repo, rid: str, spec: str, guarded_callees=None) -> RuleResult:
    """the quantifier range: the quantified parameter is bound to an object only when is_sub_type(object type, quantified type)
    is true.  `spec` is a public entry point; private helpers are analysed in place."""
    r = RuleResult(rid, f"{spec}: an object is in the range of the quantifier iff its type is a subtype of the quantified type",
                   "forall ranges over every object of the type and its subtypes")
    f = L.fn(repo, spec)
    p = L.prov(repo, f)
    g = C.cfg_of(f.node)
    atoms = {}
    for c in L.calls_in(f.node):
        if isinstance(c.func, ast.Attribute) and c.func.attr == "is_sub_type" and len(c.args) == 1:
            if any("attr:quantified_type" in x for x in p.trace(c.args[0])) and any("attr:type" in x for x in p.trace(c.func.value)):
                atoms[id(c)] = c
    r.site(f.qn)

    def from_objects(e) -> bool:
        return any(any("problem_objects" in s_ for s_ in x) for x in p.trace(e))

    def is_qparam(e) -> bool:
        return any(x[-1] == "attr:quantified_parameter" for x in p.trace(e))

    # per-object work: the quantified parameter is bound to (the name of) a problem object
    work = []
    for n in ast.walk(f.node):
        if isinstance(n, ast.Assign) and len(n.targets) == 1 and isinstance(n.targets[0], ast.Subscript) and is_qparam(n.targets[0].slice) \
                and from_objects(n.value):
            work.append(n)
        elif isinstance(n, ast.Dict):
            for k, v in zip(n.keys, n.values):
                if k is not None and is_qparam(k) and from_objects(v):
                    work.append(v)
        elif isinstance(n, ast.Call) and isinstance(n.func, ast.Attribute) and n.func.attr in ("update", "setdefault", "__setitem__") and len(n.args) == 2 \
                and is_qparam(n.args[0]) and from_objects(n.args[1]):
            work.append(n)
    if not work:
        raise AnalysisError(f"{spec}: the binding of the quantified parameter to a problem object was not found")
    if not atoms:
        r.fail(Finding(rid, f, "range-not-subtype", "the range of the quantifier is not decided by <object type>.is_sub_type(<quantified type>)"))
        return r
    G = L.Guards(f, lambda e: "sub" if id(e) in atoms else None)
    seen_f = G.reach({"sub": False})
    seen_t = G.reach({"sub": True})
    wn = {g.node_containing(c) if not isinstance(c, ast.stmt) else g.node_of(c) for c in work}
    if (wn & seen_f) or not (wn <= seen_t):
        r.fail(Finding(rid, f, "range-guard", "the per-object work is reachable for an object whose type is not a subtype of the quantified type (or unreachable for one that is)"))
    else:
        r.ok({"range": "object.type.is_sub_type(quantified_type)", "bindings": len(work)})
    # the loop ranges over all problem objects
    loops = [n for n in ast.walk(f.node) if isinstance(n, ast.For) and any("problem_objects" in "/".join(x) for x in p.trace(n.iter))
             and any(any(x is w for x in ast.walk(n)) for w in work)]
    # ... and EVERY object of a conforming type is bound: with the subtype test true, no way through one turn of the object loop
    # (nor of the loops between it and the binding) may skip the binding -- a pre-filter by type name, a cache, a `continue`
    r.site(f.qn + " [no conforming object skipped]")
    pm = L.parents_of(f)
    skipped = False
    for w in work:
        target = {g.node_containing(w) if not isinstance(w, ast.stmt) else g.node_of(w)}
        cur = w
        chain = []
        while cur in pm:
            cur = pm[cur]
            if isinstance(cur, ast.For):
                chain.append(cur)
                if cur in loops:
                    break
        if not chain or chain[-1] not in loops:
            continue
        for lp in chain:
            if not L.must_pass_in_loop(G, {"sub": True}, lp, target):
                skipped = True
            target = {g.node_of(lp)}
    if skipped:
        r.fail(Finding(rid, f, "range-skips", "an object whose type IS a subtype of the quantified type can be skipped before it is bound: "
                       "the quantifier does not range over the type and all its subtypes"))
    else:
        r.ok({"conforming_objects": "bound on every path"})
    r.site(f.qn + " [all objects]")
    if loops and not any(any(s_.startswith("slice:") or s_.startswith("arg0:filter") for s_ in x) for lp in loops for x in p.trace(lp.iter)):
        r.ok({"iterates": unparse(loops[0].iter, 60)})
    else:
        r.fail(Finding(rid, f, "range-objects", "the quantifier does not range over all problem objects"))
    r.require_sites(2)
    return r


def _equality_redundant(repo: Repo, f: FuncInfo, n: ast.Compare) -> bool:
    """`a == b` next to `a.is_sub_type(b)` of the same two types: equal types are subtypes of each other, so the comparison is harmless
    exactly when the function behaves for (equal, subtype) as it does for (not equal, subtype) -- decided by valuation"""
    p = L.prov(repo, f)
    try:
        la, lb = p.trace(n.left), p.trace(n.comparators[0])
    except KeyError:
        return False
    subs = {}
    for c in L.calls_in(f.node):
        if isinstance(c.func, ast.Attribute) and c.func.attr == "is_sub_type" and len(c.args) == 1:
            try:
                ra, rb = p.trace(c.func.value), p.trace(c.args[0])
            except KeyError:
                continue
            if (ra, rb) in ((la, lb), (lb, la)):
                subs[id(c)] = c
    if not subs:
        return False

    def matcher(e):
        if e is n:
            return "eq" if isinstance(n.ops[0], ast.Eq) else "!eq"
        if id(e) in subs:
            return "sub"
        return None

    G = L.Guards(f, matcher)
    g = G.g

    def outcome(val):
        seen = G.reach(val)
        out = set()
        for nd in seen:
            if g.kind[nd] == "return":
                rv = g.stmt[nd].value
                v = G.value(val, rv, seen) if rv is not None else None
                out.add(("return", v if isinstance(v, bool) or v is None else nd))
            elif g.kind[nd] == "raise":
                out.add(("raise", nd))
        return out

    return outcome({"eq": True, "sub": True}) == outcome({"eq": False, "sub": True})


def _equality_redundant_flat(repo: Repo, f: FuncInfo, n: ast.Compare) -> bool:
    """the same question on the function with its private helpers analysed in place (the subtype test may sit in a helper:
    `a == b or _is_sub(a, b)`)"""
    if getattr(f, "flat_of", None) is not None:
        return False
    try:
        spec = f.qn.split("::", 1)[1] if f.cls else f.qn
        ff = L.fn(repo, spec)
    except Exception:
        return False
    if ff is f or not getattr(ff, "inlined", None):
        return False
    twins = [x for x in ast.walk(ff.node) if isinstance(x, ast.Compare) and len(x.ops) == 1 and type(x.ops[0]) is type(n.ops[0])
             and getattr(x, "lineno", None) == getattr(n, "lineno", None) and getattr(x, "col_offset", None) == getattr(n, "col_offset", None)]
    return bool(twins) and all(_equality_redundant(repo, ff, x) for x in twins)


def rule_conform(repo: Repo, rid: str = "C06.conform", only_funcs: Optional[Iterable[str]] = None, floor: int = 3) -> RuleResult:
    r = RuleResult(rid, "conformance of an object's type to a required type is decided by is_sub_type, never by ==/!= on types or type names",
                   "forall / fact checking range over the type and its subtypes")
    funcs = repo.all_funcs() if only_funcs is None else [L.fn(repo, x) for x in only_funcs]
    for f in funcs:
        if f.cls == "PDDLType" or f.name in ("__eq__", "__ne__", "__hash__", "__repr__"):
            continue
        for n in ast.walk(f.node):
            if isinstance(n, ast.Compare) and len(n.ops) == 1 and isinstance(n.ops[0], (ast.Eq, ast.NotEq)):
                a, b = _is_type_expr(repo, f, n.left), _is_type_expr(repo, f, n.comparators[0])
                if a and b:
                    r.site(L.site(f, n, "type comparison"))
                    if _equality_redundant(repo, f, n) or _equality_redundant_flat(repo, f, n):
                        r.ok({"function": f.qn, "test": unparse(n), "redundant_with": "is_sub_type of the same two types"})
                        continue
                    r.fail(Finding(rid, f, "type-equality", f"{unparse(n)} compares types for (in)equality: objects of a subtype are "
                                   f"treated as non-conforming; use is_sub_type", node=n))
            if isinstance(n, ast.Call) and isinstance(n.func, ast.Attribute) and n.func.attr == "is_sub_type":
                r.site(L.site(f, n, "subtype test"))
                r.ok({"function": f.qn, "test": unparse(n)})
    r.require_sites(floor if only_funcs is None else min(floor, 1))
    return r


def _has(paths, *needles) -> bool:
    return any(all(any(n in s for s in p) for n in needles) for p in paths)


def rule_direction(repo: Repo, rid: str = "C06.direction") -> RuleResult:
    r = RuleResult(rid, "is_sub_type(receiver = the object's own type, argument = the declared / required type)",
                   "an object conforms when ITS type is a subtype of the REQUIRED type")
    obj_marks = ("attr:objects", "attr:constants", "attr:problem_objects", "attr:type", "param:problem_objects", "param:obj", "elem")
    req_marks = ("attr:signature", "attr:quantified_type")
    for f in repo.all_funcs():
        if f.cls in ("PDDLType",) or f.name in ("__eq__", "__ne__"):
            continue
        p = None
        for c in L.calls_in(f.node):
            if isinstance(c.func, ast.Attribute) and c.func.attr == "is_sub_type" and len(c.args) == 1:
                p = p or L.prov(repo, f)
                recv, arg = p.trace(c.func.value), p.trace(c.args[0])
                r.site(L.site(f, c, "direction"))
                recv_is_req = _has(recv, "attr:quantified_type") or (_has(recv, "attr:signature") and not _has(recv, "attr:type"))
                arg_is_obj = _has(arg, "attr:type") and not _has(arg, "attr:signature") and not _has(arg, "attr:quantified_type")
                if recv_is_req and arg_is_obj:
                    r.fail(Finding(rid, f, "is_sub_type:reversed", f"{unparse(c)}: the required type is the receiver and the object's type the argument "
                                   f"(accepts supertypes, rejects subtypes)", node=c))
                else:
                    r.ok({"function": f.qn, "call": unparse(c)})
    r.require_sites(3)
    return r


def _parse_types(repo: Repo) -> FuncInfo:
    return L.fn(repo, "DomainParser.parse_types")


def _returned_names(f: FuncInfo) -> set:
    out = set()
    for ret in L.func_returns(f):
        if isinstance(ret.value, ast.Name):
            out.add(ret.value.id)
    return L.aliases(f, out)


def _ctor_calls(f: FuncInfo, cls: str) -> List[ast.Call]:
    return [c for c in L.calls_in(f.node) if isinstance(c.func, ast.Name) and c.func.id == cls]


def _registration_context(f: FuncInfo, ctor: ast.Call, maps: set, pm) -> str:
    """how does the constructed object reach the returned map?  'store' | 'setdefault' | 'update' | 'name:<x>' | 'none'"""
    cur = ctor
    while cur in pm:
        par = pm[cur]
        if isinstance(par, ast.Assign):
            if cur is par.value:
                for t in par.targets:
                    if isinstance(t, ast.Subscript) and isinstance(t.value, ast.Name) and t.value.id in maps:
                        return "store"
                    if isinstance(t, ast.Name):
                        return f"name:{t.id}"
            return "none"
        if isinstance(par, ast.Call) and isinstance(par.func, ast.Attribute) and isinstance(par.func.value, ast.Name) \
                and par.func.value.id in maps:
            if par.func.attr == "setdefault" and len(par.args) > 1 and cur is par.args[1]:
                return "setdefault"
            if par.func.attr == "update":
                return "update"
            return "none"  # e.g. .get(key, default)
        if isinstance(par, ast.Call) and par is not ctor:
            # argument of some other call (e.g. parent=... of another PDDLType): not a registration
            if not (isinstance(par.func, ast.Name) and par.func.id in ("dict",)):
                return "none"
        if isinstance(par, (ast.Dict, ast.DictComp, ast.IfExp, ast.keyword)):
            cur = par
            continue
        if isinstance(par, ast.stmt):
            return "none"
        cur = par
    return "none"


def _name_is_stored(f: FuncInfo, name: str, maps: set) -> bool:
    for n in ast.walk(f.node):
        if isinstance(n, ast.Assign) and isinstance(n.value, ast.Name) and n.value.id == name:
            for t in n.targets:
                if isinstance(t, ast.Subscript) and isinstance(t.value, ast.Name) and t.value.id in maps:
                    return True
        if isinstance(n, ast.Call) and isinstance(n.func, ast.Attribute) and isinstance(n.func.value, ast.Name) \
                and n.func.value.id in maps and n.func.attr in ("setdefault", "update", "__setitem__"):
            for a in n.args:
                for sub in ast.walk(a):
                    if isinstance(sub, ast.Name) and sub.id == name and not _inside_ctor_kw(a, sub):
                        return True
    return False


def _inside_ctor_kw(root: ast.AST, name_node: ast.AST) -> bool:
    """is name_node used only as an argument of a constructor call inside root (e.g. parent=name)?"""
    for n in ast.walk(root):
        if isinstance(n, ast.Call) and n is not root:
            for sub in ast.walk(n):
                if sub is name_node:
                    return True
    return False


def rule_closure(repo: Repo) -> RuleResult:
    r = RuleResult("C06.closure", "every PDDLType constructed while parsing (:types ...) is registered in the returned map",
                   "a parent named only on a right-hand side is a type; a parent declared after its child is the same type")
    f = _parse_types(repo)
    maps = _returned_names(f)
    if not maps:
        raise AnalysisError("parse_types: returned map not recognised")
    pm = parent_map(f.node)
    for c in _ctor_calls(f, "PDDLType"):
        r.site(L.site(f, c, "constructed type"))
        ctx = _registration_context(f, c, maps, pm)
        if ctx.startswith("name:"):
            ctx = "store" if _name_is_stored(f, ctx[5:], maps) else "none"
        if ctx != "none":
            r.ok({"constructed": unparse(c, 70), "registered_by": ctx})
        else:
            r.fail(Finding("C06.closure", f, "unregistered-type", f"{unparse(c, 70)} is captured (e.g. as a parent) but never registered in "
                           f"the returned map: the type does not exist for :constants/:predicates and gets a stale twin if declared later", node=c))
    r.require_sites(2)
    return r


def rule_identity(repo: Repo) -> RuleResult:
    r = RuleResult("C06.identity", "a new PDDLType replaces nothing: it is stored only under an absent key (else the existing object is updated)",
                   "children created earlier keep pointing at the registered parent object")
    f = _parse_types(repo)
    maps = _returned_names(f)
    pm = parent_map(f.node)
    g = C.cfg_of(f.node)

    def absent_guard(node: ast.AST, keyname: Optional[str]) -> bool:
        """is `node` inside the branch of an `if key (not) in map` test that establishes absence?"""
        cur = node
        while cur in pm:
            par = pm[cur]
            if isinstance(par, ast.If):
                t = par.test
                neg = False
                if isinstance(t, ast.UnaryOp) and isinstance(t.op, ast.Not):
                    t, neg = t.operand, True
                # `existing = map.get(key)` ... `if existing is None:` establishes absence as well
                if isinstance(t, ast.Compare) and len(t.ops) == 1 and isinstance(t.ops[0], (ast.Is, ast.IsNot, ast.Eq, ast.NotEq)) and \
                        isinstance(t.comparators[0], ast.Constant) and t.comparators[0].value is None:
                    looked_up = t.left
                    if isinstance(looked_up, ast.Name):
                        defs_ = [v_ for nm_, v_, _s in C.simple_bindings(f.node) if nm_ == looked_up.id]
                        looked_up = defs_[0] if len(defs_) == 1 else looked_up
                    if isinstance(looked_up, ast.Call) and isinstance(looked_up.func, ast.Attribute) and looked_up.func.attr == "get" and len(looked_up.args) == 1 \
                            and isinstance(looked_up.func.value, ast.Name) and looked_up.func.value.id in maps:
                        absent_when_true = isinstance(t.ops[0], (ast.Is, ast.Eq)) != neg
                        in_body = any(cur is s or cur in ast.walk(s) for s in par.body)
                        if (absent_when_true and in_body) or ((not absent_when_true) and not in_body):
                            return True
                if isinstance(t, ast.Compare) and len(t.ops) == 1 and isinstance(t.comparators[0], ast.Name) \
                        and t.comparators[0].id in maps:
                    is_in = isinstance(t.ops[0], ast.In) != neg if isinstance(t.ops[0], (ast.In, ast.NotIn)) else None
                    if is_in is not None:
                        in_body = any(cur is s or cur in ast.walk(s) for s in par.body)
                        # absent in body when test is `not in`; absent in orelse when test is `in`
                        if (not is_in and in_body) or (is_in and not in_body):
                            return True
            if isinstance(par, ast.DictComp):
                for gen in par.generators:
                    for cond in gen.ifs:
                        if isinstance(cond, ast.Compare) and isinstance(cond.ops[0], ast.NotIn) and \
                                isinstance(cond.comparators[0], ast.Name) and cond.comparators[0].id in maps:
                            return True
            cur = par
        return False

    for c in _ctor_calls(f, "PDDLType"):
        ctx = _registration_context(f, c, maps, pm)
        if ctx in ("none",) or ctx.startswith("name:"):
            continue
        r.site(L.site(f, c, "stored type"))
        if ctx == "setdefault" or absent_guard(c, None):
            r.ok({"stored": unparse(c, 60), "how": ctx, "only_when_absent": True})
        else:
            r.fail(Finding("C06.identity", f, f"overwrite:{ctx}", f"{unparse(c, 60)} is stored with `{ctx}` without testing that the name is "
                           f"absent: an already registered type (e.g. a parent seen earlier) is replaced by a twin and its children go stale", node=c))
    r.require_sites(1)
    return r


def rule_parentlink(repo: Repo) -> RuleResult:
    r = RuleResult("C06.parentlink", "inside the dash branch the parent of a child type comes from the token after the dash; trailing names get 'object'",
                   "child - parent declarations")
    f = _parse_types(repo)
    p = L.prov(repo, f)
    g = C.cfg_of(f.node)
    listparam = [x for x in f.params if x != f.self_name]
    if not listparam:
        raise AnalysisError("parse_types: token list parameter not found")
    lp = listparam[0]
    live = L.Guards(f, lambda e: None).reach({})        # (branches decided by flags that are constant where they are tested are not code that runs)
    for c in _ctor_calls(f, "PDDLType"):
        kw = {k.arg: k.value for k in c.keywords}
        parent = kw.get("parent", c.args[1] if len(c.args) > 1 else None)
        name = kw.get("name", c.args[0] if c.args else None)
        if parent is None or name is None:
            continue
        node = g.node_containing(c)
        if node is not None and node not in live:
            continue
        in_loop = node is not None and g.loop_of.get(node) is not None
        ntr = p.trace(name)
        ptr = p.trace(parent)
        r.site(L.site(f, c, "parent link"))
        from_tokens = any(x[0] == f"param:{lp}" for x in ptr)
        is_object = any(x[0] == "global:ObjectType" for x in ptr)
        name_from_tokens = any(x[0] == f"param:{lp}" for x in ntr)
        if not name_from_tokens:
            r.fail(Finding("C06.parentlink", f, "name-not-from-tokens", f"type name of {unparse(c, 60)} does not derive from the declaration tokens", node=c))
        elif in_loop and (from_tokens or is_object):
            # either the looked-up parent (derives from the token after the dash) or the default parent of a parent
            r.ok({"type": unparse(name), "parent_from": "tokens" if from_tokens else "ObjectType"})
        elif not in_loop and is_object and not from_tokens:
            r.ok({"type": unparse(name), "parent_from": "ObjectType (trailing untyped names)"})
        else:
            r.fail(Finding("C06.parentlink", f, "parent-source", f"parent of {unparse(c, 60)} derives from {sorted(ptr)[:2]}", node=c))
    # the child's parent must be the looked-up object keyed by types[index+1]
    childs = []
    for c in _ctor_calls(f, "PDDLType"):
        kw = {k.arg: k.value for k in c.keywords}
        parent = kw.get("parent", c.args[1] if len(c.args) > 1 else None)
        if parent is not None and any(x[0] == f"param:{lp}" for x in p.trace(parent)) and \
                any(any(s in ("call:get", "call:setdefault", "item") or s.startswith("arg0:get") or s.startswith("arg0:setdefault")
                        for s in x) for x in p.trace(parent)):
            childs.append(c)
    r.site(f.qn + " [child->looked-up parent]")
    if childs:
        r.ok({"children_linked_to_lookup": len(childs)})
    else:
        r.fail(Finding("C06.parentlink", f, "no-lookup-parent", "no child type takes its parent from a lookup keyed by the token after the dash"))
    r.require_sites(3)
    return r


def rule_walk(repo: Repo) -> RuleResult:
    r = RuleResult("C06.walk", "is_sub_type_aux: True only on name equality, False at the root, otherwise recurse on (parent, same other)",
                   "reflexive-transitive closure of child-parent links")
    f = repo.func("PDDLType.is_sub_type_aux")
    ps = [x for x in f.params if x != f.self_name]
    if len(ps) != 2:
        raise AnalysisError("is_sub_type_aux: two parameters expected")
    a, b = ps

    p = L.prov(repo, f)

    def tr(e):
        try:
            return p.trace(e)
        except KeyError:
            return set()

    def is_name_of(e, param):
        t = tr(e)
        return bool(t) and all(x in ((f"param:{param}", "attr:name"), (f"param:{param}",)) for x in t)

    def is_parent_of(e, param):
        t = tr(e)
        return bool(t) and all(x == (f"param:{param}", "attr:parent") for x in t)

    def matcher(e):
        if isinstance(e, ast.Compare) and len(e.ops) == 1:
            l, rr = e.left, e.comparators[0]
            if (is_name_of(l, a) and is_name_of(rr, b)) or (is_name_of(l, b) and is_name_of(rr, a)):
                if isinstance(e.ops[0], ast.Eq):
                    return "same"
                if isinstance(e.ops[0], ast.NotEq):
                    return "!same"
            for x, y in ((l, rr), (rr, l)):
                if isinstance(y, ast.Constant) and y.value is None and is_parent_of(x, a):
                    if isinstance(e.ops[0], (ast.Is, ast.Eq)):
                        return "root"
                    if isinstance(e.ops[0], (ast.IsNot, ast.NotEq)):
                        return "!root"
        if isinstance(e, (ast.Attribute, ast.Name)) and isinstance(getattr(e, "ctx", None), ast.Load) and is_parent_of(e, a):
            return "!root"  # truthiness of my.parent
        return None

    G = L.Guards(f, matcher)
    if not {"same", "root"} <= {x.lstrip("!") for x in G.atoms_seen}:
        raise AnalysisError(f"is_sub_type_aux: guard idiom not recognised (atoms seen: {sorted(G.atoms_seen)})")
    g = G.g

    def classify(ret: ast.Return, valuation, seen) -> str:
        v = ret.value
        if v is not None and not (isinstance(v, ast.Constant) and isinstance(v.value, bool)):
            sv = G.value(valuation, v, seen)
            if isinstance(sv, bool):
                return str(sv)
            if sv is None:
                return f"other:{unparse(v)}"
            v = sv
        if isinstance(v, ast.Constant) and isinstance(v.value, bool):
            return str(v.value)
        if isinstance(v, ast.Call) and callee_name(v) == f.name and len(v.args) == 2:
            a0, a1 = v.args
            if is_parent_of(a0, a) and tr(a1) and all(x == (f"param:{b}",) for x in tr(a1)):
                return "recurse(parent, other)"
            return f"recurse({unparse(a0)}, {unparse(a1)})"
        return f"other:{unparse(v) if v is not None else None}"

    expect = {(True, True): {"True"}, (True, False): {"True"}, (False, True): {"False"}, (False, False): {"recurse(parent, other)"}}
    for (same, root), want in expect.items():
        r.site(f"{f.qn} [same={same}, root={root}]")
        seen = G.reach({"same": same, "root": root})
        got = {classify(g.stmt[n], {"same": same, "root": root}, seen) for n in seen if g.kind[n] == "return"}
        falls_off = any(m == g.exit and g.kind[n] != "return" for n in seen for m, _ in g.succ[n])
        if falls_off:
            got.add("None(fall-through)")
        sample = {"names_equal": same, "parent_is_None": root, "returns": sorted(got)}
        if got == want:
            r.ok(sample)
        else:
            r.fail(Finding("C06.walk", f, f"walk:same={same},root={root}", f"with names_equal={same}, parent_is_None={root} the walk returns {sorted(got)}; expected {sorted(want)}"), sample)
    # the public wrapper passes (self, other) in that order
    w = repo.func("PDDLType.is_sub_type")
    r.site(w.qn)
    calls = [c for c in L.calls_in(w.node) if callee_name(c) == "is_sub_type_aux"]
    okw = False
    for c in calls:
        if len(c.args) == 2 and isinstance(c.args[0], ast.Name) and c.args[0].id == w.self_name and isinstance(c.args[1], ast.Name) \
                and c.args[1].id in w.params and c.args[1].id != w.self_name:
            okw = True
    rets = L.func_returns(w)
    direct = all(isinstance(x.value, ast.Call) and callee_name(x.value) == "is_sub_type_aux" for x in rets) and rets
    if okw and direct:
        r.ok({"is_sub_type": "returns is_sub_type_aux(self, other)"})
    else:
        r.fail(Finding("C06.walk", w, "wrapper", "is_sub_type does not return is_sub_type_aux(self, other_type) unchanged"))
    r.require_sites(5)
    return r


def rule_root(repo: Repo) -> RuleResult:
    r = RuleResult("C06.root", "'object' is registered as ObjectType; ObjectType has no parent; PDDLType lower-cases names",
                   "'object' is the root of the type tree")
    f = _parse_types(repo)
    maps = _returned_names(f)
    found = False
    for n in ast.walk(f.node):
        if isinstance(n, ast.Assign):
            for t in n.targets:
                if isinstance(t, ast.Subscript) and isinstance(t.value, ast.Name) and t.value.id in maps and \
                        isinstance(t.slice, ast.Constant) and t.slice.value == "object" and isinstance(n.value, ast.Name) and n.value.id == "ObjectType":
                    found = True
        if isinstance(n, ast.Dict) and any(isinstance(k, ast.Constant) and k.value == "object" and isinstance(v, ast.Name) and v.id == "ObjectType"
                                           for k, v in zip(n.keys, n.values)):
            found = True
    r.site(f.qn + " ['object' entry]")
    if found:
        r.ok({"map['object']": "ObjectType"})
    else:
        r.fail(Finding("C06.root", f, "missing:object-entry", "parse_types does not register 'object' -> ObjectType"))
    m = repo.module("models.pddl_type")
    node = repo.const_node(m.name, "ObjectType")
    r.site("models.pddl_type.ObjectType")
    ok = isinstance(node, ast.Call) and isinstance(node.func, ast.Name) and node.func.id == "PDDLType"
    if ok:
        kw = {k.arg: k.value for k in node.keywords}
        nm = kw.get("name", node.args[0] if node.args else None)
        par = kw.get("parent", node.args[1] if len(node.args) > 1 else None)
        ok = isinstance(nm, ast.Constant) and nm.value == "object" and (par is None or (isinstance(par, ast.Constant) and par.value is None))
    if ok:
        r.ok({"ObjectType": "PDDLType('object', parent=None)"})
    else:
        r.fail(Finding("C06.root", (m.short, "ObjectType", str(m.path)), "root-definition", "ObjectType is not PDDLType(name='object', parent=None)"))
    d = repo.module("models.pddl_domain")
    dn = repo.const_node(d.name, "DEFAULT_TYPES")
    r.site("models.pddl_domain.DEFAULT_TYPES")
    if isinstance(dn, ast.Dict) and any(isinstance(k, ast.Constant) and k.value == "object" and isinstance(v, ast.Name) and v.id == "ObjectType"
                                        for k, v in zip(dn.keys, dn.values)):
        r.ok({"DEFAULT_TYPES": "{'object': ObjectType}"})
    else:
        r.fail(Finding("C06.root", (d.short, "DEFAULT_TYPES", str(d.path)), "default-types", "DEFAULT_TYPES does not map 'object' to ObjectType"))
    r.require_sites(3)
    return r


def rules(repo: Repo, tier: str) -> List[RuleResult]:
    from . import c01
    return [c01.rule_typedlist(repo, "C06.typedlist", ["DomainParser.parse_types"], lookup_required=False), rule_conform(repo), rule_layering(repo),
            rule_range(repo, "C06.range", "Operator.apply"),
            rule_range(repo, "C06.range", "GroundedPrecondition.is_applicable"), rule_direction(repo), rule_closure(repo), rule_identity(repo), rule_parentlink(repo),
            rule_walk(repo), rule_root(repo), _c05()._rule_memo(repo, "C06.cache")]


def _c05():
    from . import c05
    return c05
