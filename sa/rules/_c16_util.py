"""Local engine features of the C16 rules (candidates for promotion into sa/inline.py / sa/lib.py).

`stmt_form(repo, spec)` -- `L.fn(repo, spec)` taken two exact steps further, so that "which elements does a walk put into a container, on
which paths" has ONE source form (loop + `append`):

  * before flattening, on a copy of the raw function: `list(<generator expression>)` -> list comprehension, `list(map(F, XS))` ->
    `[F(v) for v in XS]` (the flattener then hoists the comprehension and inlines the private helper `F` in place);
  * after flattening, on a copy of the flattened function: a list comprehension that is evaluated unconditionally inside a simple
    statement (`X = [E for v in IT if C]`, `return Cls([..])`, `f(a, [..])`) is written as
    `t = []` / `for v in IT:` / `if C:` / `t.append(E)` with fresh names for the comprehension variables, the comprehension replaced by `t`;
    `X.extend(<comprehension>)` -> loop with `X.append(E)`.

`ctor_sources(paths, callee, cls)` -- from the provenance of an object (`p.trace(expr, keys=True)`): what each constructor parameter of
`cls` was given, as {parameter: {source path}} (the `kw:<name>:<cls>` / `arg<i>:<cls>` steps of the paths).

`walk_report(...)` -- completeness of a walk over a collection into a container, decided per valuation of guard atoms.
"""
from __future__ import annotations

import ast
import copy
import itertools
from typing import Callable, Dict, Iterable, List, Optional, Set, Tuple

from .. import cfg as C
from .. import lib as L
from ..core import FuncInfo, Repo
from ..inline import flatten

_counter = itertools.count(1)
_cache: Dict[tuple, FuncInfo] = {}
_keep: List[object] = []

COMPS = (ast.ListComp, ast.SetComp, ast.GeneratorExp, ast.DictComp)


# ------------------------------------------------------------------------------------------------ before flattening
class _ListCalls(ast.NodeTransformer):
    """list(<genexp>) -> [..];  list(map(F, XS)) -> [F(v) for v in XS]   (exact: both build the list eagerly, in order)"""

    def __init__(self):
        self.changed = False

    def visit_Call(self, n: ast.Call):
        self.generic_visit(n)
        if isinstance(n.func, ast.Name) and n.func.id == "list" and len(n.args) == 1 and not n.keywords:
            a = n.args[0]
            if isinstance(a, ast.GeneratorExp):
                self.changed = True
                return ast.copy_location(ast.ListComp(elt=a.elt, generators=a.generators), n)
            if isinstance(a, ast.Call) and isinstance(a.func, ast.Name) and a.func.id == "map" and len(a.args) == 2 and not a.keywords \
                    and isinstance(a.args[0], (ast.Name, ast.Attribute)):
                self.changed = True
                v = f"item__m{next(_counter)}"
                call = ast.Call(func=a.args[0], args=[ast.Name(id=v, ctx=ast.Load())], keywords=[])
                gen = ast.comprehension(target=ast.Name(id=v, ctx=ast.Store()), iter=a.args[1], ifs=[], is_async=0)
                return ast.copy_location(ast.ListComp(elt=call, generators=[gen]), n)
        return n


# ------------------------------------------------------------------------------------------------ after flattening
class _Rename(ast.NodeTransformer):
    def __init__(self, mapping: Dict[str, str]):
        self.mapping = mapping

    def visit_Name(self, n: ast.Name):
        if n.id in self.mapping:
            return ast.copy_location(ast.Name(id=self.mapping[n.id], ctx=n.ctx), n)
        return n


def _as_listcomp(e: ast.AST):
    """the comprehension when `e` builds a list eagerly from one: [..] or list(<generator expression>)"""
    if isinstance(e, ast.ListComp):
        return e
    if isinstance(e, ast.Call) and isinstance(e.func, ast.Name) and e.func.id == "list" and len(e.args) == 1 and not e.keywords \
            and isinstance(e.args[0], ast.GeneratorExp):
        return e.args[0]
    return None


def _unconditional_listcomps(st: ast.stmt) -> List[Tuple[ast.AST, str, object, ast.ListComp]]:
    """list comprehensions of a simple statement that are evaluated whenever the statement is: (parent, field, index, comp)"""
    out = []

    def visit(node: ast.AST, top: bool):
        for field, value in ast.iter_fields(node):
            items = value if isinstance(value, list) else [value]
            for i, ch in enumerate(items):
                if not isinstance(ch, ast.AST):
                    continue
                idx = i if isinstance(value, list) else None
                if _as_listcomp(ch) is not None:
                    out.append((node, field, idx, ch))
                    continue
                if isinstance(ch, COMPS) or isinstance(ch, (ast.Lambda, ast.IfExp, ast.BoolOp, ast.NamedExpr, ast.Await, ast.Yield, ast.YieldFrom)):
                    continue
                if isinstance(ch, (ast.expr, ast.keyword)):
                    visit(ch, False)

    if isinstance(st, (ast.Assign, ast.AnnAssign, ast.AugAssign, ast.Return)):
        if st.value is not None:
            if _as_listcomp(st.value) is not None:
                out.append((st, "value", None, st.value))
            elif not isinstance(st.value, COMPS + (ast.Lambda, ast.IfExp, ast.BoolOp, ast.NamedExpr, ast.Await, ast.Yield, ast.YieldFrom)):
                visit(st.value, False)
    elif isinstance(st, ast.Expr) and isinstance(st.value, ast.Call):
        visit(st.value, False)
    return out


def _loop_of_comp(comp: ast.AST, container: str, at: ast.AST) -> List[ast.stmt]:
    """for v in IT: if C: <container>.append(E)   -- comprehension variables renamed to fresh names"""
    k = next(_counter)
    names: Set[str] = set()
    for g in comp.generators:
        names |= {x.id for x in ast.walk(g.target) if isinstance(x, ast.Name)}
    ren = _Rename({n: f"{n}__k{k}" for n in names})
    gens = []
    for i, g in enumerate(comp.generators):
        g2 = copy.deepcopy(g)
        g2.target = ren.visit(g2.target)
        if i > 0:
            g2.iter = ren.visit(g2.iter)
        g2.ifs = [ren.visit(c) for c in g2.ifs]
        gens.append(g2)
    elt = ren.visit(copy.deepcopy(comp.elt))
    body: List[ast.stmt] = [ast.Expr(value=ast.Call(func=ast.Attribute(value=ast.Name(id=container, ctx=ast.Load()), attr="append", ctx=ast.Load()),
                                                  args=[elt], keywords=[]))]
    for g in reversed(gens):
        for c in reversed(g.ifs):
            body = [ast.If(test=c, body=body, orelse=[])]
        body = [ast.For(target=g.target, iter=g.iter, body=body, orelse=[], type_comment=None)]
    for s_ in body:
        ast.copy_location(s_, at)
    return body


class _CompsToLoops:
    def __init__(self, fn: ast.FunctionDef):
        self.fn = fn
        self.changed = False

    def run(self) -> bool:
        self.fn.body = self._block(self.fn.body)
        return self.changed

    def _block(self, stmts: List[ast.stmt]) -> List[ast.stmt]:
        out: List[ast.stmt] = []
        for st in stmts:
            if isinstance(st, (ast.FunctionDef, ast.AsyncFunctionDef, ast.ClassDef)):
                out.append(st)
                continue
            for field in ("body", "orelse", "finalbody"):
                sub = getattr(st, field, None)
                if isinstance(sub, list) and sub and isinstance(sub[0], ast.stmt):
                    setattr(st, field, self._block(sub))
            for h in getattr(st, "handlers", []) or []:
                h.body = self._block(h.body)
            # X.extend(<comp>)  ->  loop with X.append(E)
            if isinstance(st, ast.Expr) and isinstance(st.value, ast.Call) and isinstance(st.value.func, ast.Attribute) and st.value.func.attr == "extend" \
                    and isinstance(st.value.func.value, ast.Name) and len(st.value.args) == 1 and not st.value.keywords \
                    and isinstance(st.value.args[0], (ast.ListComp, ast.GeneratorExp)) \
                    and not any(isinstance(x, ast.Name) and x.id == st.value.func.value.id for x in ast.walk(st.value.args[0])):
                out.extend(_loop_of_comp(st.value.args[0], st.value.func.value.id, st))
                self.changed = True
                continue
            disp = None
            if isinstance(st, ast.AugAssign) and isinstance(st.op, ast.Add) and isinstance(st.target, ast.Name) and isinstance(st.value, ast.List):
                disp = (st.target.id, st.value.elts)
            elif isinstance(st, ast.Expr) and isinstance(st.value, ast.Call) and isinstance(st.value.func, ast.Attribute) and st.value.func.attr == "extend" \
                    and isinstance(st.value.func.value, ast.Name) and len(st.value.args) == 1 and not st.value.keywords and isinstance(st.value.args[0], (ast.List, ast.Tuple)):
                disp = (st.value.func.value.id, st.value.args[0].elts)
            if disp is not None and disp[1] and not any(isinstance(e, ast.Starred) for e in disp[1]):
                for e in disp[1]:
                    call = ast.Expr(value=ast.Call(func=ast.Attribute(value=ast.Name(id=disp[0], ctx=ast.Load()), attr="append", ctx=ast.Load()), args=[e], keywords=[]))
                    out.extend(self._block([ast.copy_location(call, st)]))
                self.changed = True
                continue
            pre: List[ast.stmt] = []
            for parent, field, idx, comp in _unconditional_listcomps(st):
                tmp = f"__built__k{next(_counter)}"
                init = ast.Assign(targets=[ast.Name(id=tmp, ctx=ast.Store())], value=ast.List(elts=[], ctx=ast.Load()), type_comment=None)
                ast.copy_location(init, st)
                pre.append(init)
                pre.extend(_loop_of_comp(_as_listcomp(comp), tmp, st))
                ref = ast.copy_location(ast.Name(id=tmp, ctx=ast.Load()), comp)
                if idx is None:
                    setattr(parent, field, ref)
                else:
                    getattr(parent, field)[idx] = ref
                self.changed = True
            # nested comprehensions inside the generated loops
            out.extend(self._block(pre) if pre else [])
            out.append(st)
        return out


def _derived(flat: FuncInfo, fn: ast.FunctionDef, raw: FuncInfo) -> FuncInfo:
    ast.fix_missing_locations(fn)
    out = FuncInfo(flat.mod, flat.cls, fn, static=flat.static)
    out.qn = flat.qn
    out.flat_of = getattr(flat, "flat_of", raw)
    out.inlined = list(getattr(flat, "inlined", []))
    out.inlined_bodies = getattr(flat, "inlined_bodies", [])
    return out


def stmt_form_of(repo: Repo, raw: FuncInfo) -> FuncInfo:
    key = (id(repo), raw.qn, id(raw.node))
    if key in _cache:
        return _cache[key]
    node = copy.deepcopy(raw.node)
    t = _ListCalls()
    node = t.visit(node)
    if t.changed:
        ast.fix_missing_locations(node)
        raw2 = FuncInfo(raw.mod, raw.cls, node, static=raw.static)
        raw2.qn = raw.qn
    else:
        raw2 = raw
    flat = flatten(repo, raw2)
    fn = copy.deepcopy(flat.node)
    try:
        changed = _CompsToLoops(fn).run()
    except (RecursionError, KeyError, IndexError, AttributeError, TypeError, ValueError):
        changed = False
    out = _derived(flat, fn, raw) if changed else flat
    _cache[key] = out
    _keep.append((repo, raw, raw2, out))
    return out


def stmt_form(repo: Repo, spec: str) -> FuncInfo:
    return stmt_form_of(repo, repo.func(spec))


# ------------------------------------------------------------------------------------------------ provenance helpers
def ctor_sources(paths: Iterable[tuple], callee: Optional[FuncInfo], cls: str) -> Dict[str, Set[tuple]]:
    """{constructor parameter: {source path}} read off the `kw:<name>:<cls>` / `arg<i>:<cls>` steps of the provenance of an object that
    was built by `cls(...)`; only the outermost construction (the last such step) of every path counts"""
    params = [x for x in (callee.params if callee is not None else []) if x != (callee.self_name if callee is not None else None)]
    out: Dict[str, Set[tuple]] = {}
    for x in paths:
        hit = None
        for i, s_ in enumerate(x):
            if s_.endswith(":" + cls) and (s_.startswith("kw:") or (s_.startswith("arg") and s_[3:].split(":")[0].isdigit())):
                hit = i
        if hit is None:
            continue
        s_ = x[hit]
        if s_.startswith("kw:"):
            name = s_[3:-len(cls) - 1]
        else:
            i = int(s_[3:].split(":")[0])
            name = params[i] if i < len(params) else f"#{i}"
        out.setdefault(name, set()).add(tuple(x[:hit]))
    return out


def fresh_roots(paths: Iterable[tuple]) -> Set[str]:
    """class / kind names of the objects a value can be when it is created in the analysed function: the `fresh:` roots of length-1 paths"""
    return {x[0][len("fresh:"):] for x in paths if len(x) == 1 and x[0].startswith("fresh:")}


def loops_over(f: FuncInfo, p, is_source: Callable[[tuple], bool]) -> List[ast.For]:
    """`for` statements whose iterable is (a view of) the collection selected by `is_source(path)`: every provenance path of the iterable is
    selected, `enumerate` / `reversed` / `list` / `tuple` / `iter` / `sorted` wrappers are looked through"""
    out = []
    for n in ast.walk(f.node):
        if not isinstance(n, ast.For):
            continue
        it = n.iter
        while isinstance(it, ast.Call) and isinstance(it.func, ast.Name) and it.func.id in ("enumerate", "reversed", "list", "tuple", "iter", "sorted") and it.args:
            it = it.args[0]
        try:
            tr = p.trace(it)
        except (KeyError, RecursionError):
            continue
        tr = {x for x in tr if not (len(x) == 1 and x[0].startswith("fresh:"))}
        if tr and all(is_source(x) for x in tr):
            out.append(n)
    return out


def walk_report(f: FuncInfo, p, G: "L.Guards", loops: List[ast.For], containers: Set[str], cases) -> List[Tuple[str, str, Optional[ast.AST]]]:
    """Completeness of a walk into a container.  `loops`: the `for` statements that visit the elements; `containers`: local names of the
    container the walk fills (taken from `in:append@<name>` steps of the sink's provenance); `cases`: [(label, valuation, accept)] where
    `accept(paths) -> bool | None`: is a value with this provenance (under the valuation) the wanted entry -- accept None = nothing may be
    added under this valuation.  Returns [(kind, label, node)], kind in
      'entry-missing'  some path through one turn of the loop adds no wanted entry
      'entry-wrong'    an addition that is reachable under the valuation puts something else into the container
      'left-early'     one turn can end the walk (break / return)
    """
    g = G.g
    out: List[Tuple[str, str, Optional[ast.AST]]] = []
    adds = [(elt, conds, site) for elt, conds, site, _comp in L.container_additions(f, lambda e: isinstance(e, ast.Name) and e.id in containers)
            if isinstance(site, ast.Call) and site.func.attr in ("append", "add")]
    for loop in loops:
        inside = {id(x) for x in ast.walk(loop)}
        mine = [(elt, site) for elt, _c, site in adds if id(site) in inside]
        for label, val, accept in cases:
            seen = G.reach(val)
            if g.node_of(loop) not in seen:
                continue
            good, bad = [], []
            for elt, site in mine:
                n = g.node_containing(site)
                if n is None or n not in seen or not G.reaches_expr(val, site, seen=seen):
                    continue
                try:
                    tr = p.trace(elt, keys=True, under=G.under(val, seen))
                except (KeyError, RecursionError):
                    tr = set()
                if accept is not None and accept(tr):
                    good.append(n)
                else:
                    bad.append(site)
            for site in bad:
                out.append(("entry-wrong", label, site))
            if accept is not None and not bad and not L.must_pass_in_loop(G, val, loop, good):
                out.append(("entry-missing", label, loop))
            if L.leaves_loop_early(G, val, loop):
                out.append(("left-early", label, loop))
    return out


VIEWS = ("list", "tuple", "iter", "reversed", "sorted")


def norm_path(x: tuple) -> tuple:
    """the same value, written without detours: an element put into a local container and taken out again (`in:append@X`, `elem`) is the
    element; `enumerate(S)` element component 1 and the elements of `list(S)` / `reversed(S)` / .. are elements of S"""
    out: List[str] = []
    i = 0
    while i < len(x):
        s_ = x[i]
        nxt = x[i + 1] if i + 1 < len(x) else None
        if s_.startswith(("in:append@", "in:add@", "in:elt")) and nxt == "elem":
            i += 2
            continue
        if s_ == "arg0:enumerate" and nxt == "elem" and i + 2 < len(x) and x[i + 2] in ("unpack:1", "item:1"):
            out.append("elem")
            i += 3
            continue
        if s_.startswith("arg0:") and s_[5:] in VIEWS and nxt == "elem":
            i += 1
            continue
        out.append(s_)
        i += 1
    return tuple(out)


def walk_chain(f: FuncInfo, p, is_source: Callable[[tuple], bool], sink_paths: Iterable[tuple]):
    """the loops that carry the elements of the source collection into the sink, stage by stage: [(loop, containers it fills, is final)].
    Stage 0 iterates the source; a later stage iterates a local container that an earlier stage fills."""
    sink_paths = list(sink_paths)
    conts = containers_of(sink_paths)
    finals = set()
    for x in sink_paths:
        last = [s_ for s_ in x if s_.startswith(("in:append@", "in:add@"))]
        if last:
            finals.add(last[-1].split("@", 1)[1])

    def fills(lp) -> Set[str]:
        return {x.func.value.id for x in ast.walk(lp) if isinstance(x, ast.Call) and isinstance(x.func, ast.Attribute) and x.func.attr in ("append", "add")
                and isinstance(x.func.value, ast.Name) and x.func.value.id in conts}

    stages = []
    done: List[ast.For] = []
    filled: Set[str] = set()
    for lp in loops_over(f, p, is_source):
        t = fills(lp)
        if t:
            stages.append((lp, t, bool(t & finals)))
            done.append(lp)
            filled |= t
    changed = True
    while changed:
        changed = False
        for lp in ast.walk(f.node):
            if not isinstance(lp, ast.For) or any(lp is d for d in done):
                continue
            try:
                tr = p.trace(lp.iter)
            except (KeyError, RecursionError):
                continue
            if not any(s_.startswith(("in:append@", "in:add@")) and s_.split("@", 1)[1] in filled for x in tr for s_ in x):
                continue
            t = fills(lp)
            if t:
                stages.append((lp, t, bool(t & finals)))
                done.append(lp)
                if not t <= filled:
                    filled |= t
                    changed = True
    return stages


def chain_report(f: FuncInfo, p, G: "L.Guards", stages, cases) -> List[Tuple[str, str, Optional[ast.AST]]]:
    """`walk_report` over the stages of a chain: an entry that must arrive (accept given) has to be passed on by every stage and be the
    wanted entry at the final one; an entry that must not arrive (accept None) has to be dropped by some stage"""
    out: List[Tuple[str, str, Optional[ast.AST]]] = []
    for label, val, accept in cases:
        if accept is None:
            reports = [walk_report(f, p, G, [lp], t, [(label, val, None)]) for lp, t, _fin in stages]
            early = [x for rep in reports for x in rep if x[0] == "left-early"]
            if reports and all(any(x[0] == "entry-wrong" for x in rep) for rep in reports):
                out.extend(x for x in reports[-1] if x[0] == "entry-wrong")
            out.extend(early)
            continue
        for lp, t, fin in stages:
            out.extend(walk_report(f, p, G, [lp], t, [(label, val, accept if fin else (lambda tr: True))]))
    return out


def containers_of(paths: Iterable[tuple]) -> Set[str]:
    """local container names a value's content was put into (`in:append@<name>` / `in:add@<name>` steps)"""
    out = set()
    for x in paths:
        for s_ in x:
            if s_.startswith(("in:append@", "in:add@", "in:extend@")):
                out.add(s_.split("@", 1)[1])
    return out
